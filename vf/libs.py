"""Small hand-written Modelica libraries used as closed worlds by the history checks (C05, C06, C26, C27).

Each library is chosen so that its classes *share* structure: a class used as component type by
another, a base class of an extends clause, a connector, nested classes, a function, modifications
at several levels -- the places where flattening one class could leak into the next request.
"""
import glob
import os

from vf.core import common

LIB_COMP = """
model Leaf
  Real x(start = 1);
  parameter Real k = 2;
equation
  der(x) = -k * x;
end Leaf;

model Mid
  Leaf l1(k = 3);
  Leaf l2(x(start = 5));
  Real s;
equation
  s = l1.x + l2.x;
end Mid;

model Top
  Mid m(l1(k = 7));
  Leaf own;
  Real y;
equation
  y = m.s + own.x;
end Top;
"""

LIB_EXT = """
model Base
  parameter Real p = 1;
  Real b(nominal = 2);
equation
  b = p;
end Base;

model Derived
  extends Base(p = 4);
  Real d;
equation
  d = 2 * b;
end Derived;

model Deeper
  extends Derived(b(nominal = 9));
  Real e;
equation
  e = d + b;
end Deeper;

model User
  Derived u1;
  Deeper u2(p = 6);
  Real z;
equation
  z = u1.d + u2.e;
end User;
"""

LIB_CONN = """
connector Pin
  Real v;
  flow Real i;
end Pin;

model R
  Pin p;
  Pin n;
  parameter Real r = 2;
equation
  p.v - n.v = r * p.i;
  p.i + n.i = 0;
end R;

model Two
  R r1;
  R r2(r = 3);
equation
  connect(r1.n, r2.p);
end Two;

model Outer
  Pin ext;
  Two t;
  R r3;
equation
  connect(ext, t.r1.p);
  connect(t.r2.n, r3.p);
end Outer;
"""

LIB_NESTED = """
package P
  constant Real c = 3;
  model A
    Real x;
    model Inner
      Real w = 2;
    end Inner;
    Inner i1;
    Inner i2(w = 5);
  equation
    x = i1.w + i2.w + c;
  end A;

  model B
    A a;
    A.Inner direct(w = 8);
    Real y;
  equation
    y = a.x + direct.w;
  end B;

  package Q
    model C
      extends A;
      Real q;
    equation
      q = x * 2;
    end C;
  end Q;
end P;
"""

LIB_FUNC = """
function f
  input Real u;
  output Real y;
algorithm
  y := 2 * u + 1;
end f;

model F1
  Real a;
  Real b;
equation
  a = f(3);
  b = f(a);
end F1;

model F2
  F1 inner1;
  Real c;
equation
  c = f(inner1.b);
end F2;

type Volt = Real(unit = "V", min = -10);

model F3
  Volt v(start = 2);
  F2 g;
  parameter Integer n = 3;
  Real arr[n];
equation
  v = g.c;
  for i in 1:n loop
    arr[i] = i * v;
  end for;
end F3;
"""

HAND_LIBS = {
    "comp": LIB_COMP,
    "ext": LIB_EXT,
    "conn": LIB_CONN,
    "nested": LIB_NESTED,
    "func": LIB_FUNC,
}


# ----------------------------------------------------------------------------
# Libraries in which ONE class is shared by several users in different roles (used by C05).
#
# Every construct below is handled in pymoca/tree.py or ast.py by code that can reach an object of
# the parsed tree: the copy made by flatten()'s find_class keeps the parsed tree's class as `parent`
# (Class.__deepcopy__ puts the parent in the memo), so every lookup through the enclosing scope lands
# in the parsed tree and stays safe only because the individual call site copies what it found.
#
#   place (tree.py unless noted)                               object of the parsed tree reached          library
#   flatten: root.find_class(copy=True)                        the requested class; parent chain          all
#   flatten_extends: find_class(extends.component),            base class, its symbols / nested classes   share:extends
#     symbols.update / classes.update, visibility lowered      / equations, extends modification args
#   build_instance_tree: redeclare ShortClassDefinition        replacement class                          share:redeclare
#     scope_class.find_class(argument.component)
#   build_instance_tree: redeclare ComponentClause             (the parser rejects `redeclare T x` in a modification: not reachable)
#   redeclared package whose constants are read (Medium.rho)   replacement package and its constants      share:pkgredeclare
#   build_instance_tree: loop over nested classes,             nested / short classes and their           share:shortclass
#     class modifications (Voltage(nominal = 1000))            modifications
#   build_instance_tree: find_class(sym.type); symbol edits    component type; class_modification,        hand:comp, share:comp
#     (class_modification, component.child[0], scope, type)    nested modification arguments
#   flatten_symbols: sym.name, input/output stripped,          symbols of component types, `__value`      share:comp, share:shortclass,
#     __value attributes shared, dimensions, __connector_type  of types, connector instances              share:conn
#   FunctionExpander: node.find_class(operator)                function classes                           share:funcs
#   ConstantReferenceApplier -> ast._find_constant_symbol      the constant's Symbol itself (NOT copied;  share:constref
#     (_find_class without copy)                               renamed and modified in place)
#   ast._find_class: imports, self.imports[name] = ... cache   imports dict of the class where the        share:imports,
#                                                              lookup passes (enclosing class)            share:imports2
#   expand_connectors: find_class / flatten_class              connector classes                          share:conn
#   enclosing-scope lookup through `parent`                    sibling / outer classes, shadowing         share:scope
#
# In each library the shared class is requested directly, and used through the construct by at least
# two users and through at least one *other* construct (component, extends with and without
# modification), so for every ordered pair of roles there is a history "first one, then the other".

SHARE_CONSTREF = """
package K
  constant Real c = 3;
  constant Real v[2] = {1, 2};
  constant Real e = 2 * c;
  package Sub
    constant Real d = 4;
  end Sub;
end K;

model Base
  constant Real k = 2;
  constant Real kk(min = 0, nominal = 10) = 6;
  parameter Real p = 1;
  Real x(start = 1);
equation
  der(x) = -k * x * p;
end Base;

model ReadsDotted
  Real y;
equation
  y = 3 * Base.k + K.c + K.Sub.d + Base.kk;
end ReadsDotted;

model ReadsInComp
  ReadsDotted r;
  Real z;
equation
  z = r.y + Base.k;
end ReadsInComp;

model ReadsArray
  Real a;
equation
  a = K.v[1] + K.c + K.e;
end ReadsArray;

model Inherits
  extends Base;
  Real z;
equation
  z = k + x;
end Inherits;

model InheritsMod
  extends Base(k = 5, kk(min = 1));
end InheritsMod;

model Uses
  Base b(k = 7);
  Base b2;
  Real s;
equation
  s = b.x + b2.k;
end Uses;

model InheritsReads
  extends Base;
  parameter Real q = Base.k;
  Real w;
equation
  w = q + K.c;
end InheritsReads;
"""

SHARE_REDECLARE = """
model Sub
  parameter Real p = 1;
  input Real u;
  Real v;
equation
  v = p * u;
end Sub;

model Plain
  Real w;
equation
  w = 0;
end Plain;

model Fancy
  parameter Real q = 4;
  Sub s(p = q, u = 2);
  Real w(start = q);
equation
  w = s.v;
end Fancy;

model Host
  replaceable model Part = Plain;
  Part part;
  Real t;
equation
  t = part.w;
end Host;

model ViaComponent
  Host h(redeclare model Part = Fancy);
end ViaComponent;

model ViaExtends
  extends Host(redeclare model Part = Fancy);
end ViaExtends;

model Direct
  Fancy f(q = 6);
  Fancy g(s.p = 9);
end Direct;

model Child
  extends Fancy(s.p = 8);
end Child;

model Wider
  Host h1(redeclare model Part = Fancy);
  Host h2;
  Fancy own;
end Wider;
"""

SHARE_PKGREDECLARE = """
package Water
  constant Real rho = 1000;
  constant Real cp = 4;
end Water;

package Oil
  constant Real rho = 800;
  constant Real cp = 2;
end Oil;

model Pipe
  replaceable package Medium = Water;
  parameter Real m = Medium.rho * 2;
  Real h;
equation
  h = Medium.cp * m;
end Pipe;

model OilPipe
  extends Pipe(redeclare package Medium = Oil);
end OilPipe;

model Plant
  Pipe p1;
  Pipe p2(redeclare package Medium = Oil);
  OilPipe p3;
  Real t;
equation
  t = p1.h + p2.h + p3.h;
end Plant;

model Direct
  Real r;
equation
  r = Oil.rho + Water.cp;
end Direct;

model Local
  package M2 = Oil;
  extends Pipe(redeclare package Medium = M2);
end Local;
"""

SHARE_EXTENDS = """
model Base
  parameter Real p = 1;
  input Real u;
  output Real y;
  Real b(nominal = 2);
  model Inner
    Real w = 2;
  end Inner;
  Inner i(w = 3);
equation
  b = p * u;
  y = b + i.w;
end Base;

model Plain
  extends Base;
end Plain;

model Modded
  extends Base(p = 4, b(nominal = 9), i.w = 5);
  Real d;
equation
  d = 2 * b;
end Modded;

model Hidden
protected
  extends Base(p = 2);
public
  Real e;
equation
  e = b;
end Hidden;

model Again
  extends Modded(p = 6);
  Real f;
equation
  f = d + b;
end Again;

model AsComp
  Base c1(p = 7);
  Modded c2;
  Hidden c3;
  Real z;
equation
  z = c1.y + c2.d + c3.e;
end AsComp;

model InnerUser
  Base.Inner j(w = 8);
  Real g;
equation
  g = j.w;
end InnerUser;
"""

SHARE_SHORTCLASS = """
class C1
  class Voltage = Real(nominal = 1);
  Voltage v1, v2;
end C1;

class C2
  extends C1(Voltage(nominal = 1000));
end C2;

type Volt = Real(unit = "V", min = -10);

type MilliVolt = Volt(nominal = 0.001);

model Leaf
  Volt v(start = 2);
  MilliVolt m;
  parameter Real k = 2;
equation
  v = k * m;
  m = 1;
end Leaf;

model Alias = Leaf(k = 3);

model UsesAlias
  Alias a;
  Leaf l(v(start = 5));
  Real s;
equation
  s = a.v + l.v;
end UsesAlias;

model ExtendsAlias
  extends Alias(v(max = 10));
end ExtendsAlias;

model UsesC
  C1 c1;
  C2 c2;
  Volt own(start = 1);
equation
  c1.v1 = 1;
  c1.v2 = 2;
  c2.v1 = 3;
  c2.v2 = 4;
  own = 5;
end UsesC;
"""

SHARE_IMPORTS = """
package Lib
  constant Real g = 9.81;
  model Mass
    parameter Real m = 1;
    Real f;
  equation
    f = m * 10;
  end Mass;
  function twice
    input Real u;
    output Real y;
  algorithm
    y := 2 * u;
  end twice;
  package Deep
    model Spring
      parameter Real c = 5;
      Real x;
    equation
      x = c;
    end Spring;
  end Deep;
end Lib;

package App
  import Lib.*;
  model A
    Mass m1(m = 2);
    Real z;
  equation
    z = twice(m1.f);
  end A;
  model B
    Mass m2;
    Lib.Deep.Spring s(c = 6);
    A a;
  end B;
end App;

model Q
  import Lib.Mass;
  import S = Lib.Deep.Spring;
  Mass m;
  S s;
  Real w;
equation
  w = m.f + s.x;
end Q;

model R
  import Lib.*;
  import Lib.Deep.*;
  Mass m(m = 3);
  Spring s2;
  Real h;
equation
  h = twice(m.f) + s2.x + Lib.g;
end R;

model T
  extends Lib.Mass(m = 4);
  Lib.Deep.Spring s3;
end T;
"""

SHARE_IMPORTS2 = """
package Lib
  model Mass
    parameter Real m = 1;
    Real f;
  equation
    f = m * 10;
  end Mass;
  package Deep
    model Spring
      parameter Real c = 5;
      Real x;
    equation
      x = c;
    end Spring;
  end Deep;
end Lib;

package App2
  import Lib.*;
  import Lib.Deep.*;
  model C
    Mass m3(m = 7);
    Spring s3;
  end C;
  model D
    Spring s4(c = 8);
    Mass m4;
    C c;
  end D;
end App2;

model R2
  import Lib.Deep.*;
  import Lib.*;
  Mass m(m = 3);
  Spring s2;
  App2.C c;
end R2;
"""

SHARE_FUNCS = """
type Gain = Real(min = 0);

package Fn
  constant Real scale = 2;
  function inner_f
    input Real u;
    output Real y;
  algorithm
    y := u * u;
  end inner_f;
  function outer_f
    input Real u;
    output Real y;
  protected
    Real t = 1;
  algorithm
    y := inner_f(u) + t;
  end outer_f;
  function scaled
    input Real u;
    input Gain g = 2;
    output Real y;
  protected
    Gain t(start = 1) = g;
  algorithm
    y := t * u * Fn.scale;
  end scaled;
  function more
    extends inner_f;
    input Real w;
  algorithm
    y := y + w;
  end more;
end Fn;

function top_f
  input Real u;
  output Real y;
algorithm
  y := Fn.outer_f(u) * 2;
end top_f;

model M1
  Real a;
equation
  a = top_f(3);
end M1;

model M2
  M1 m;
  Real b;
equation
  b = Fn.inner_f(m.a) + Fn.scaled(m.a, 3);
end M2;

model M3
  extends M1;
  Real c;
equation
  c = Fn.outer_f(a) + Fn.more(a, 1);
end M3;

model M4
  M2 m2;
  M3 m3;
  Real d;
equation
  d = top_f(m2.b) + Fn.inner_f(m3.c);
end M4;
"""

SHARE_CONN = """
connector Pin
  Real v;
  flow Real i;
end Pin;

connector PinZ
  extends Pin;
  Real z;
end PinZ;

connector RealInput = input Real;

connector RealOutput = output Real;

model Src
  RealOutput y;
equation
  y = 1;
end Src;

model Gain
  RealInput u;
  RealOutput y;
  parameter Real k = 2;
equation
  y = k * u;
end Gain;

model Chain
  Src s;
  Gain g1;
  Gain g2(k = 3);
equation
  connect(s.y, g1.u);
  connect(g1.y, g2.u);
end Chain;

model Channel
  replaceable connector port = Pin;
  port up;
  PinZ down;
equation
  up.v = down.v;
  up.i + down.i = 0;
end Channel;

model ChannelZ
  extends Channel(redeclare connector port = PinZ);
end ChannelZ;

model Net
  Channel a;
  ChannelZ b;
  Channel c(redeclare connector port = PinZ);
  Pin ext;
equation
  connect(ext, a.up);
  connect(a.down, b.down);
  connect(b.up, c.up);
end Net;
"""

SHARE_SCOPE = """
package Outer
  constant Real c = 3;
  model Shared
    parameter Real p = c;
    Real x;
  equation
    x = p;
  end Shared;
  package In1
    model A
      Shared s(p = 2);
      Real y;
    equation
      y = s.x + c;
    end A;
    model B
      extends Shared;
      Outer.Shared t(p = 4);
    end B;
  end In1;
  package In2
    model Shared
      Real x = 7;
    end Shared;
    model C
      Shared s;
      In1.A a;
    end C;
  end In2;
  model D
    In1.A a(s(p = 5));
    In2.C c;
    In1.B b;
  end D;
end Outer;
"""

SHARE_COMP = """
model Leaf
  input Real u;
  output Real y;
  parameter Real k = 2;
  Real x(start = 1);
equation
  der(x) = u - k * x;
  y = x;
end Leaf;

model Row
  Leaf l[2](each k = 3);
  Real s;
equation
  l[1].u = 1;
  l[2].u = l[1].y;
  s = l[2].y;
end Row;

model Mid
  Leaf a(k = 4, x(start = 5));
  Leaf b(x.start = 6);
  input Real u;
equation
  a.u = u;
  b.u = a.y;
end Mid;

model Top
  Mid m(a.k = 7, b.x(nominal = 8));
  Row r;
  Leaf own(u = 1);
equation
  m.u = own.y;
end Top;
"""

# A dotted type name whose first part is found through an unqualified import: the import resolves `A`, the
# rest of the name (`.B`, `.C`) must be looked up inside it -- on the first lookup as on every later one.
SHARE_IMPORTS3 = """
package Lib
  package A
    model B
      Real x = 1;
    end B;
    model C
      parameter Real k = 2;
      Real z = 2 * k;
    end C;
  end A;
end Lib;

package P3
  import Lib.*;
  model M
    A.B b;
  end M;
  model N
    A.C c(k = 5);
    A.B b;
  end N;
  model E
    extends A.C(k = 3);
  end E;
end P3;
"""

SHARE_LIBS = {
    "constref": SHARE_CONSTREF,
    "redeclare": SHARE_REDECLARE,
    "pkgredeclare": SHARE_PKGREDECLARE,
    "extends": SHARE_EXTENDS,
    "shortclass": SHARE_SHORTCLASS,
    "imports": SHARE_IMPORTS,
    "imports2": SHARE_IMPORTS2,
    "imports3": SHARE_IMPORTS3,
    "funcs": SHARE_FUNCS,
    "conn": SHARE_CONN,
    "scope": SHARE_SCOPE,
    "comp": SHARE_COMP,
}


def test_model_files():
    return sorted(glob.glob(os.path.join(common.REPO, "test", "models", "*.mo")))


def class_paths(tree, kinds=None):
    """Dotted paths of all classes of a parsed tree (depth first, source order)."""
    out = []

    def rec(c, prefix):
        for name, sub in c.classes.items():
            p = prefix + [name]
            if kinds is None or sub.type in kinds:
                out.append(".".join(p))
            rec(sub, p)

    rec(tree, [])
    return out
