"""Small hand-written Modelica libraries used as closed worlds by the history checks (C05, C06, C26, C27).

Each library is chosen so that its classes *share* structure: a class used as component type by
another, a base class of an extends clause, a connector, nested classes, a function, modifications
at several levels -- the places where flattening one class could leak into the next request.
"""
import glob
import os

from vf.core import common

LIB_COMP = """
model Leaf
  Real x(start = 1);
  parameter Real k = 2;
equation
  der(x) = -k * x;
end Leaf;

model Mid
  Leaf l1(k = 3);
  Leaf l2(x(start = 5));
  Real s;
equation
  s = l1.x + l2.x;
end Mid;

model Top
  Mid m(l1(k = 7));
  Leaf own;
  Real y;
equation
  y = m.s + own.x;
end Top;
"""

LIB_EXT = """
model Base
  parameter Real p = 1;
  Real b(nominal = 2);
equation
  b = p;
end Base;

model Derived
  extends Base(p = 4);
  Real d;
equation
  d = 2 * b;
end Derived;

model Deeper
  extends Derived(b(nominal = 9));
  Real e;
equation
  e = d + b;
end Deeper;

model User
  Derived u1;
  Deeper u2(p = 6);
  Real z;
equation
  z = u1.d + u2.e;
end User;
"""

LIB_CONN = """
connector Pin
  Real v;
  flow Real i;
end Pin;

model R
  Pin p;
  Pin n;
  parameter Real r = 2;
equation
  p.v - n.v = r * p.i;
  p.i + n.i = 0;
end R;

model Two
  R r1;
  R r2(r = 3);
equation
  connect(r1.n, r2.p);
end Two;

model Outer
  Pin ext;
  Two t;
  R r3;
equation
  connect(ext, t.r1.p);
  connect(t.r2.n, r3.p);
end Outer;
"""

LIB_NESTED = """
package P
  constant Real c = 3;
  model A
    Real x;
    model Inner
      Real w = 2;
    end Inner;
    Inner i1;
    Inner i2(w = 5);
  equation
    x = i1.w + i2.w + c;
  end A;

  model B
    A a;
    A.Inner direct(w = 8);
    Real y;
  equation
    y = a.x + direct.w;
  end B;

  package Q
    model C
      extends A;
      Real q;
    equation
      q = x * 2;
    end C;
  end Q;
end P;
"""

LIB_FUNC = """
function f
  input Real u;
  output Real y;
algorithm
  y := 2 * u + 1;
end f;

model F1
  Real a;
  Real b;
equation
  a = f(3);
  b = f(a);
end F1;

model F2
  F1 inner1;
  Real c;
equation
  c = f(inner1.b);
end F2;

type Volt = Real(unit = "V", min = -10);

model F3
  Volt v(start = 2);
  F2 g;
  parameter Integer n = 3;
  Real arr[n];
equation
  v = g.c;
  for i in 1:n loop
    arr[i] = i * v;
  end for;
end F3;
"""

HAND_LIBS = {
    "comp": LIB_COMP,
    "ext": LIB_EXT,
    "conn": LIB_CONN,
    "nested": LIB_NESTED,
    "func": LIB_FUNC,
}


def test_model_files():
    return sorted(glob.glob(os.path.join(common.REPO, "test", "models", "*.mo")))


def class_paths(tree, kinds=None):
    """Dotted paths of all classes of a parsed tree (depth first, source order)."""
    out = []

    def rec(c, prefix):
        for name, sub in c.classes.items():
            p = prefix + [name]
            if kinds is None or sub.type in kinds:
                out.append(".".join(p))
            rec(sub, p)

    rec(tree, [])
    return out
