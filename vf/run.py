"""Entry point:  /venv/bin/python -m vf.run <ID> [--tier quick|thorough] [--replay FILE]

Exit 0: the property held on everything explored.  Exit 1: a line
`VIOLATION property=<id> replay=<path>` was printed for a case not listed in
known_findings.json.  Evidence is rewritten on every run.
"""
import argparse
import importlib
import json
import os
import sys


def _hashseed(seed):
    return str((seed * 7919 + 1) % 4294967295)


def main(argv=None):
    ap = argparse.ArgumentParser()
    ap.add_argument("prop")
    ap.add_argument("--tier", default=os.environ.get("VERIF_TIER") or "quick", choices=["quick", "thorough"])
    ap.add_argument("--replay", default=None)
    ap.add_argument("--jobs", type=int, default=0)
    args = ap.parse_args(argv)
    seed = int(os.environ.get("VERIF_SEED", "0") or 0)

    # Own the hash seed (set iteration order) -- must be fixed before the interpreter starts.
    want = _hashseed(seed)
    if os.environ.get("PYTHONHASHSEED") != want:
        env = dict(os.environ)
        env["PYTHONHASHSEED"] = want
        os.execve(sys.executable, [sys.executable, "-m", "vf.run"] + (argv or sys.argv[1:]), env)

    if args.jobs:
        os.environ["VERIF_JOBS"] = str(args.jobs)
    from vf.core import common

    common.setup_subject()
    common.isolate_process()
    common.quiet_logging()
    os.environ.setdefault("OMP_NUM_THREADS", "1")

    mod = importlib.import_module("vf.checks." + args.prop.lower())
    if args.replay:
        with open(args.replay) as f:
            rec = json.load(f)
        ok = mod.replay(rec["case"])
        print("replay %s: %s" % (args.replay, "property held" if ok else "VIOLATION reproduced"))
        return 0 if ok else 1

    ctx = common.Ctx(args.prop.upper(), args.tier, seed, mod.LEVEL)
    try:
        mod.run(ctx)
    except BaseException:
        import traceback

        traceback.print_exc()
        print("HARNESS-ERROR property=%s (not a verdict)" % args.prop.upper())
        return 3
    return ctx.finish()


if __name__ == "__main__":
    sys.stdout.reconfigure(line_buffering=True)
    rc = main()
    sys.stdout.flush()
    sys.exit(rc)
