"""C09 -- connections produce exactly the Modelica connection-set equations.

E4: every sequence of <= n connect clauses over ordered pairs of a fixed endpoint set -- connectors of
sub-components (inside) and top-level connectors (outside) -- so chains, stars, cycles, repeated and
reversed clauses, and clauses that merge two existing sets are all present.  The flat equations are
linear; the reference (vf.ref.flat) builds the connection sets by union-find over (connector, inside /
outside) and emits potential equalities, signed flow sums (inside +, outside -) and zero equations for
unconnected flows; vf.ref.linalg decides with exact rationals that both systems have the same row space,
i.e. the same solutions.  The flat variables must be exactly the connector variables (no connector
symbol survives, flow prefix kept).
"""
import itertools

from vf.core import common, flatobs
from vf.ref import flat as F
from vf.ref import linalg as L
from vf.ref import past as P
from vf.ref.flat import Cls, Comp, Lib

LEVEL = "exploration"


def connector(kind):
    if kind == "vi":
        return Cls("Pin", kind="connector", comps=[Comp("v"), Comp("i", prefixes=("flow",))])
    if kind == "vwij":
        return Cls("Pin", kind="connector", comps=[Comp("v"), Comp("w"), Comp("i", prefixes=("flow",)), Comp("j", prefixes=("flow",))])
    if kind == "vii-param":
        return Cls("Pin", kind="connector", comps=[Comp("v"), Comp("i", prefixes=("flow",)), Comp("g", prefixes=("parameter",), value=("num", "2"))])
    raise ValueError(kind)


def build(kind, shape, clauses):
    """shape: 'flat2' = two-pin components c1, c2 + top-level t, t2;  'flat3' adds c3;
    'nested' = c1 is a Comp2 whose own connector p is connected inside to a sub-component (mixed
    inside/outside roles of c1.p at two levels)."""
    if shape == "twoclass":
        # two connector classes with the same short name (E.Pin, T.Pin) and different variable lists in one model
        e = Cls("E", kind="package", classes=[Cls("Pin", kind="connector", comps=[Comp("v"), Comp("i", prefixes=("flow",))])])
        t = Cls("T", kind="package", classes=[Cls("Pin", kind="connector", comps=[Comp("temp"), Comp("w"), Comp("q", prefixes=("flow",))])])
        ce = Cls("CompE", comps=[Comp("p", "E.Pin"), Comp("p2", "E.Pin")])
        ct = Cls("CompT", comps=[Comp("p", "T.Pin"), Comp("p2", "T.Pin")])
        comps = [Comp("c1", "CompE"), Comp("d1", "CompT"), Comp("t", "E.Pin"), Comp("t2", "T.Pin")]
        return Lib([e, t, ce, ct, Cls("Top", comps=comps, eqs=[("connect", a, b) for a, b in clauses])]), "Top"
    classes = [connector(kind), Cls("Comp", comps=[Comp("p", "Pin"), Comp("p2", "Pin")])]
    comps = [Comp("c1", "Comp"), Comp("c2", "Comp")]
    if shape == "flat3":
        comps.append(Comp("c3", "Comp"))
    if shape == "nested":
        classes.append(Cls("Inner", comps=[Comp("p", "Pin")]))
        classes.append(Cls("Comp2", comps=[Comp("p", "Pin"), Comp("p2", "Pin"), Comp("r", "Inner")], eqs=[("connect", "p", "r.p")]))
        comps[0] = Comp("c1", "Comp2")
    comps += [Comp("t", "Pin"), Comp("t2", "Pin")]
    classes.append(Cls("Top", comps=comps, eqs=[("connect", a, b) for a, b in clauses]))
    return Lib(classes), "Top"


# Names are chosen so that one connector's flat name is a proper string prefix of another's (c1.p / c1.p2,
# t / t2): bookkeeping by name must not confuse a connected connector with an unconnected namesake.
ENDPOINTS = {
    "flat2": ["c1.p", "c1.p2", "c2.p", "t", "t2"],
    "flat2w": ["c1.p", "c1.p2", "c2.p", "c2.p2", "t", "t2"],
    "flat3": ["c1.p", "c1.p2", "c2.p", "c2.p2", "c3.p", "t", "t2"],
    "nested": ["c1.p", "c1.p2", "c2.p", "t"],
    "twoclass": ["c1.p", "c1.p2", "t", "d1.p", "d1.p2", "t2"],
}


def jobs(tier):
    out = []
    plan = [("vi", "flat2", 3), ("vwij", "flat2", 2), ("vii-param", "flat2", 1), ("vi", "nested", 2), ("vi", "twoclass", 2)]
    if tier == "thorough":
        plan = [("vi", "flat2", 4), ("vi", "flat3", 3), ("vwij", "flat2w", 3), ("vii-param", "flat2", 2), ("vi", "nested", 3), ("vwij", "nested", 2), ("vi", "twoclass", 3)]
    for kind, shape, n in plan:
        eps = ENDPOINTS[shape]
        pairs = [(a, b) for a in eps for b in eps if a != b]
        if shape == "twoclass":  # a connect clause joins connectors of one class
            ke = lambda x: x in ("c1.p", "c1.p2", "t")  # noqa: E731
            pairs = [(a, b) for a, b in pairs if ke(a) == ke(b)]
        for k in range(0, n + 1):
            for seq in itertools.product(pairs, repeat=k):
                out.append((kind, shape, seq))
    return out


def shape_of(seq):
    """Coarse class of a clause sequence, for the coverage report."""
    if not seq:
        return "none"
    parent = {}

    def find(x):
        parent.setdefault(x, x)
        while parent[x] != x:
            x = parent[x]
        return x

    merged = redundant = False
    for a, b in seq:
        ra, rb = find(a), find(b)
        if ra == rb:
            redundant = True
        else:
            if any(find(x) == ra for x in parent if x != a) and any(find(x) == rb for x in parent if x != b):
                merged = True
            parent[ra] = rb
    if merged:
        return "merges-two-sets"
    if redundant:
        return "redundant-or-cycle"
    return "tree"


def check(job):
    kind, shape, seq = job
    bshape = "flat2" if shape == "flat2w" else shape
    lib, target = build(kind, bshape, seq)
    text = lib.text()
    case = {"kind": kind, "shape": shape, "clauses": [list(c) for c in seq], "text": text}
    flat = F.flatten(lib, target)
    exp = flatobs.expected(flat)
    try:
        obs = flatobs.observe(text, target)
    except Exception as e:
        return [("flatten-raises:" + common.exc_sig(e), "flatten raises %r\n%s" % (e, text), case)]
    viol = []
    for clause, detail in flatobs.compare(exp, obs, connectors=True):
        viol.append((clause, "%s\n%s" % (detail, text), case))
    rows = []
    try:
        for e in obs["eqs"]:
            if e[0] != "eq":
                raise P.NotLinear(repr(e))
            rows.append(P.eq_row(e))
    except P.NotLinear as e:
        viol.append(("non-linear-connection-equation", "flat equation %s is not a linear connection equation\n%s" % (e, text), case))
        return viol
    if any(1 in r for r in rows):
        viol.append(("inhomogeneous-connection-equation", "a connection equation has a constant term: %r\n%s" % (rows, text), case))
    if not L.same_row_space(rows, flat.conn_rows):
        ra, rb = L.rank(rows), L.rank(flat.conn_rows)
        both = L.rank(rows + flat.conn_rows)
        if both > rb:
            kind_ = "equation-not-implied"  # pymoca states something the connection semantics does not imply
        else:
            kind_ = "equation-missing"  # pymoca's equations allow solutions the semantics forbids
        viol.append((kind_ + ":" + shape_of(seq), "flat equations (rank %d) and connection-set equations (rank %d) differ (joint rank %d)\npymoca: %s\nreference: %s\n%s" % (ra, rb, both, _fmt(rows), _fmt(flat.conn_rows), text), case))
    return viol


def _fmt(rows):
    return "; ".join(" ".join("%+g*%s" % (float(c), v) for v, c in sorted(r.items(), key=lambda kv: str(kv[0]))) + " = 0" for r in rows)


def run(ctx):
    js = jobs(ctx.tier)
    if ctx.seed:
        r = ctx.seed % len(js)
        js = js[r:] + js[:r]
    with common.Pool() as pool:
        res = pool.map(check, js, chunksize=32)
    shapes = {}
    for j, viol in zip(js, res):
        s = shape_of(j[2])
        shapes[s] = shapes.get(s, 0) + 1
        for sig, msg, case in viol:
            ctx.violation(sig, msg, case)
    for k in (1, len(js) // 2, len(js) - 1):
        kind, shape, seq = js[k]
        ctx.sample({"connector": kind, "shape": shape, "clauses": seq})
    ctx.coverage.update(
        {
            "evaluations": len(js),
            "distinct_nontrivial": len(js) - shapes.get("none", 0) - shapes.get("tree", 0),
            "by_graph_class": shapes,
            "exhaustive": True,
            "rule": "every sequence of <= n connect clauses over all ordered pairs of distinct endpoints (component connectors = "
            "inside, top-level connectors = outside): quick n = 3 over 5 endpoints with a (v, flow i) connector, n = 2 with two "
            "potentials and two flows, n = 2 with a component whose own connector is also connected inside it; thorough n = 4 / "
            "3 over up to 7 endpoints. Sequences are distinct by construction; non-trivial = the sequence closes a cycle, repeats "
            "a connection or merges two existing sets (the rest are trees, also checked).",
        }
    )
    ctx.assumptions.append("solution-space comparison by exact rational row-space equality of the linear connection equations")
    ctx.assumptions.append("a flow variable in no connection is zero, for inside and outside connectors alike, as the statement says")


def replay(case):
    v = check((case["kind"], case["shape"], tuple(tuple(c) for c in case["clauses"])))
    print(case["text"])
    print([m.split("\n")[0] for _, m, _ in v] or "ok")
    return not v
