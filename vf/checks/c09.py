"""C09 -- connections produce exactly the Modelica connection-set equations.

E4: every sequence of <= n connect clauses over ordered pairs of a fixed endpoint set -- connectors of
sub-components (inside) and top-level connectors (outside) -- so chains, stars, cycles, repeated and
reversed clauses, and clauses that merge two existing sets are all present.  The flat equations are
linear; the reference (vf.ref.flat) builds the connection sets by union-find over (connector, inside /
outside) and emits potential equalities, signed flow sums (inside +, outside -) and zero equations for
unconnected flows; vf.ref.linalg decides with exact rationals that both systems have the same row space,
i.e. the same solutions.  The flat variables must be exactly the connector variables (no connector
symbol survives, flow prefix kept).

Array family: the same exploration over ELEMENTS of connector arrays -- a connector array declared inside a
component (`Pin ports[3]` in a Tank: the subscript of t.ports[2] sits in the second index group of the flat
reference), an array of top-level connectors (`Pin e[2]`, outside), arrays of components (`Comp b[2]`,
`Tank tt[2]`: tt[2].ports[1] carries one subscript per group) next to scalar connectors.  vf.ref.flat has no
arrays, so the reference for this family is built here: union-find over (element connector, inside/outside),
potentials equal, signed flow sums, zero for the flows of every element in no connection; pymoca's flat
equations are scalarised (x[k] -> one unknown per element, a whole-array equation `e.i = 0` -> one row per
element) and compared by the same exact row-space equality.
"""
import itertools
import re

from vf.core import common, flatobs
from vf.ref import flat as F
from vf.ref import linalg as L
from vf.ref import past as P
from vf.ref.flat import Cls, Comp, Lib

LEVEL = "exploration"


def connector(kind):
    if kind == "vi":
        return Cls("Pin", kind="connector", comps=[Comp("v"), Comp("i", prefixes=("flow",))])
    if kind == "vwij":
        return Cls("Pin", kind="connector", comps=[Comp("v"), Comp("w"), Comp("i", prefixes=("flow",)), Comp("j", prefixes=("flow",))])
    if kind == "vii-param":
        return Cls("Pin", kind="connector", comps=[Comp("v"), Comp("i", prefixes=("flow",)), Comp("g", prefixes=("parameter",), value=("num", "2"))])
    raise ValueError(kind)


def build(kind, shape, clauses):
    """shape: 'flat2' = two-pin components c1, c2 + top-level t, t2;  'flat3' adds c3;
    'nested' = c1 is a Comp2 whose own connector p is connected inside to a sub-component (mixed
    inside/outside roles of c1.p at two levels)."""
    if shape == "twoclass":
        # two connector classes with the same short name (E.Pin, T.Pin) and different variable lists in one model
        e = Cls("E", kind="package", classes=[Cls("Pin", kind="connector", comps=[Comp("v"), Comp("i", prefixes=("flow",))])])
        t = Cls("T", kind="package", classes=[Cls("Pin", kind="connector", comps=[Comp("temp"), Comp("w"), Comp("q", prefixes=("flow",))])])
        ce = Cls("CompE", comps=[Comp("p", "E.Pin"), Comp("p2", "E.Pin")])
        ct = Cls("CompT", comps=[Comp("p", "T.Pin"), Comp("p2", "T.Pin")])
        comps = [Comp("c1", "CompE"), Comp("d1", "CompT"), Comp("t", "E.Pin"), Comp("t2", "T.Pin")]
        return Lib([e, t, ce, ct, Cls("Top", comps=comps, eqs=[("connect", a, b) for a, b in clauses])]), "Top"
    classes = [connector(kind), Cls("Comp", comps=[Comp("p", "Pin"), Comp("p2", "Pin")])]
    comps = [Comp("c1", "Comp"), Comp("c2", "Comp")]
    if shape == "flat3":
        comps.append(Comp("c3", "Comp"))
    if shape == "nested":
        classes.append(Cls("Inner", comps=[Comp("p", "Pin")]))
        classes.append(Cls("Comp2", comps=[Comp("p", "Pin"), Comp("p2", "Pin"), Comp("r", "Inner")], eqs=[("connect", "p", "r.p")]))
        comps[0] = Comp("c1", "Comp2")
    comps += [Comp("t", "Pin"), Comp("t2", "Pin")]
    classes.append(Cls("Top", comps=comps, eqs=[("connect", a, b) for a, b in clauses]))
    return Lib(classes), "Top"


# Names are chosen so that one connector's flat name is a proper string prefix of another's (c1.p / c1.p2,
# t / t2): bookkeeping by name must not confuse a connected connector with an unconnected namesake.
ENDPOINTS = {
    "flat2": ["c1.p", "c1.p2", "c2.p", "t", "t2"],
    "flat2w": ["c1.p", "c1.p2", "c2.p", "c2.p2", "t", "t2"],
    "flat3": ["c1.p", "c1.p2", "c2.p", "c2.p2", "c3.p", "t", "t2"],
    "nested": ["c1.p", "c1.p2", "c2.p", "t"],
    "twoclass": ["c1.p", "c1.p2", "t", "d1.p", "d1.p2", "t2"],
}


# ---------------------------------------------------------------------------------------------------------
# Array family.  A shape = fixed declarations in Top, the connector instances they denote (flat base name ->
# dimensions, one entry per connector whether or not it is an endpoint: every flow needs an equation), and
# the endpoints connect clauses may name.  An endpoint referenced through a component is an inside connector,
# an element of a top-level connector array an outside one.
CONN_VARS = {"vi": (("v",), ("i",)), "vwij": (("v", "w"), ("i", "j"))}
KNOWN_ARRAY_SIG = "unconnected-array-element-flow-not-zero"

ARR = {
    "arr": {
        "decl": ["Comp c1", "Tank t", "Pin e[2]"],
        "connectors": {"c1.p": (), "c1.p2": (), "t.ports": (3,), "t.top": (), "e": (2,)},
        "endpoints": ["c1.p", "t.ports[1]", "t.ports[2]", "t.ports[3]", "t.top", "e[1]", "e[2]"],
    },
    # arrays of components: b[k].p keeps its subscript in the first index group, tt[k].ports[m] has one in each
    "arr2": {
        "decl": ["Comp b[2]", "Tank tt[2]", "Pin e[2]"],
        "connectors": {"b.p": (2,), "b.p2": (2,), "tt.ports": (2, 3), "tt.top": (2,), "e": (2,)},
        "endpoints": ["b[1].p", "b[2].p", "b[2].p2", "tt[1].ports[2]", "tt[2].ports[1]", "tt[2].ports[2]", "tt[2].top", "e[2]"],
    },
}
ENDPOINTS.update({k: v["endpoints"] for k, v in ARR.items()})
_SUB = re.compile(r"\[(\d+)\]")


def arr_text(kind, shape, clauses):
    pots, flows = CONN_VARS[kind]
    pin = "".join("  Real %s;\n" % v for v in pots) + "".join("  flow Real %s;\n" % v for v in flows)
    return (
        "connector Pin\n%send Pin;\nmodel Comp\n  Pin p;\n  Pin p2;\nend Comp;\nmodel Tank\n  Pin ports[3];\n  Pin top;\nend Tank;\n"
        "model Top\n%sequation\n%send Top;\n"
        % (pin, "".join("  %s;\n" % d for d in ARR[shape]["decl"]), "".join("  connect(%s, %s);\n" % c for c in clauses))
    )


def elem(base, idx, var):
    """Scalar unknown of variable `var` of the element `idx` of connector (array) `base`."""
    return "%s.%s%s" % (base, var, "[%s]" % ",".join(map(str, idx)) if idx else "")


def split_endpoint(ep):
    """'tt[2].ports[1]' -> ('tt.ports', (2, 1), inside=True); 'e[1]' -> ('e', (1,), False)."""
    base = _SUB.sub("", ep)
    return base, tuple(int(k) for k in _SUB.findall(ep)), "." in base


def arr_reference(kind, shape, clauses):
    """(expected flat variables, connection-set rows, rows `flow = 0` of the never-connected elements of
    connector arrays of which some other element is connected)."""
    pots, flows = CONN_VARS[kind]
    conns = ARR[shape]["connectors"]
    evars = {}
    for base, dims in conns.items():
        for v in pots + flows:
            evars[base + "." + v] = {"type": "Real", "prefixes": frozenset(["flow"] if v in flows else []), "dims": tuple(("num", float(d)) for d in dims), "attrs": {}}
    parent = {}

    def find(x):
        parent.setdefault(x, x)
        while parent[x] != x:
            x = parent[x]
        return x

    for a, b in clauses:
        ra, rb = find(split_endpoint(a)), find(split_endpoint(b))
        if ra != rb:
            parent[ra] = rb
    sets = {}
    for x in sorted(parent):
        sets.setdefault(find(x), []).append(x)
    rows = []
    for members in sets.values():
        b0, i0, _ = members[0]
        for v in pots:
            for b, i, _ in members[1:]:
                rows.append({elem(b0, i0, v): 1, elem(b, i, v): -1})
        for f in flows:
            rows.append({elem(b, i, f): (1 if inside else -1) for b, i, inside in members})
    partial = []
    for base, dims in conns.items():
        elems = list(itertools.product(*[range(1, d + 1) for d in dims]))
        free = [i for i in elems if (base, i, "." in base) not in parent]
        for i in free:
            for f in flows:
                rows.append({elem(base, i, f): 1})
                if dims and len(free) < len(elems):
                    partial.append({elem(base, i, f): 1})
    return evars, rows, partial


class IllShaped(Exception):
    pass


def scalarise(e, dims):
    """The scalar equations an observed flat equation stands for.  dims: flat name -> tuple of ints.  A reference
    x[k, ...] with literal subscripts (one per dimension, in range) is the unknown 'x[k,...]'; an equation over
    whole arrays of one shape (and literals) holds element-wise."""
    whole = set()

    def walk(n):
        if isinstance(n, tuple):
            if n and n[0] == "idx":
                name, subs = n[1], n[2]
                d = dims.get(name)
                if d is None:
                    raise IllShaped("%r is not a flat variable" % (name,))
                ks = []
                for s_ in subs:
                    if not (isinstance(s_, tuple) and s_[0] == "num" and float(s_[1]) == int(s_[1])):
                        raise IllShaped("subscript %r of %s is not an integer literal" % (s_, name))
                    ks.append(int(s_[1]))
                if len(ks) != len(d) or any(not 1 <= k <= m for k, m in zip(ks, d)):
                    raise IllShaped("%s%r does not denote an element of %s%r" % (name, ks, name, list(d)))
                return ("var", "%s[%s]" % (name, ",".join(map(str, ks))))
            if n and n[0] == "var":
                if n[1] not in dims:
                    raise IllShaped("%r is not a flat variable" % (n[1],))
                if dims[n[1]]:
                    whole.add(n[1])
                return n
            return tuple(walk(x) for x in n)
        return n

    e = walk(e)
    if not whole:
        return [e]
    shapes = {dims[w] for w in whole}

    def scalars(n):
        if isinstance(n, tuple):
            if n and n[0] == "var":
                return [] if n[1] in whole else [n[1]]
            return [y for x in n for y in scalars(x)]
        return []

    if len(shapes) != 1 or scalars(e):
        raise IllShaped("arrays %s and scalars %s in one equation" % (sorted((w, dims[w]) for w in whole), sorted(set(scalars(e)))))

    def at(n, idx):
        if isinstance(n, tuple):
            if n and n[0] == "var" and n[1] in whole:
                return ("var", "%s[%s]" % (n[1], ",".join(map(str, idx))))
            return tuple(at(x, idx) for x in n)
        return n

    (shp,) = shapes
    return [at(e, idx) for idx in itertools.product(*[range(1, d + 1) for d in shp])]


def check_arr(job):
    kind, shape, seq = job
    text = arr_text(kind, shape, seq)
    case = {"kind": kind, "shape": shape, "clauses": [list(c) for c in seq], "text": text}
    evars, ref, partial = arr_reference(kind, shape, seq)
    try:
        obs = flatobs.observe(text, "Top")
    except Exception as e:
        return [("flatten-raises:" + common.exc_sig(e), "flatten raises %r\n%s" % (e, text), case)]
    viol = []
    for clause, detail in flatobs.compare({"vars": evars, "eqs": [], "ieqs": []}, obs, connectors=True):
        viol.append((clause, "%s\n%s" % (detail, text), case))
    dims = {}
    for name, v in obs["vars"].items():
        if not all(isinstance(d, tuple) and d[0] == "num" for d in v["dims"]):
            return viol + [("dimensions", "%s: dimensions %r are not literals\n%s" % (name, v["dims"], text), case)]
        dims[name] = tuple(int(d[1]) for d in v["dims"])
    rows = []
    try:
        for e in obs["eqs"]:
            if e[0] != "eq":
                raise P.NotLinear(repr(e))
            for se in scalarise(e, dims):
                rows.append(P.eq_row(se))
    except IllShaped as e:
        viol.append(("ill-shaped-connection-equation", "flat equation: %s\n%s" % (e, text), case))
        return viol
    except P.NotLinear as e:
        viol.append(("non-linear-connection-equation", "flat equation %s is not a linear connection equation\n%s" % (e, text), case))
        return viol
    if any(1 in r for r in rows):
        viol.append(("inhomogeneous-connection-equation", "a connection equation has a constant term: %r\n%s" % (rows, text), case))
    if not L.same_row_space(rows, ref):
        ra, rb = L.rank(rows), L.rank(ref)
        # The one known situation: the only thing wrong is that never-connected elements of a partially
        # connected connector array have no `flow = 0` equation.  Anything else keeps the general signature.
        lacking = [r for r in partial if L.rank(rows + [r]) > ra]
        if lacking and L.same_row_space(rows + lacking, ref):
            viol.append((KNOWN_ARRAY_SIG, "no equation `= 0` for the unconnected flow element(s) %s of a connector array with other elements connected (all other connection equations are right)\npymoca: %s\n%s" % (", ".join(sorted(next(iter(r)) for r in lacking)), _fmt(rows), text), case))
            return viol
        both = L.rank(rows + ref)
        kind_ = "equation-not-implied" if both > rb else "equation-missing"
        viol.append((kind_ + ":" + shape_of(seq), "flat equations (rank %d) and connection-set equations (rank %d) differ (joint rank %d)\npymoca: %s\nreference: %s\n%s" % (ra, rb, both, _fmt(rows), _fmt(ref), text), case))
    return viol


def jobs(tier):
    out = []
    plan = [("vi", "flat2", 3), ("vwij", "flat2", 2), ("vii-param", "flat2", 1), ("vi", "nested", 2), ("vi", "twoclass", 2)]
    if tier == "thorough":
        plan = [("vi", "flat2", 4), ("vi", "flat3", 3), ("vwij", "flat2w", 3), ("vii-param", "flat2", 2), ("vi", "nested", 3), ("vwij", "nested", 2), ("vi", "twoclass", 3)]
    # array family (see ARR): elements of connector arrays as endpoints
    plan += [("vi", "arr", 2), ("vi", "arr2", 1)] if tier != "thorough" else [("vi", "arr", 3), ("vwij", "arr", 2), ("vi", "arr2", 2)]
    for kind, shape, n in plan:
        eps = ENDPOINTS[shape]
        pairs = [(a, b) for a in eps for b in eps if a != b]
        if shape == "twoclass":  # a connect clause joins connectors of one class
            ke = lambda x: x in ("c1.p", "c1.p2", "t")  # noqa: E731
            pairs = [(a, b) for a, b in pairs if ke(a) == ke(b)]
        for k in range(0, n + 1):
            for seq in itertools.product(pairs, repeat=k):
                out.append((kind, shape, seq))
    return out


def shape_of(seq):
    """Coarse class of a clause sequence, for the coverage report."""
    if not seq:
        return "none"
    parent = {}

    def find(x):
        parent.setdefault(x, x)
        while parent[x] != x:
            x = parent[x]
        return x

    merged = redundant = False
    for a, b in seq:
        ra, rb = find(a), find(b)
        if ra == rb:
            redundant = True
        else:
            if any(find(x) == ra for x in parent if x != a) and any(find(x) == rb for x in parent if x != b):
                merged = True
            parent[ra] = rb
    if merged:
        return "merges-two-sets"
    if redundant:
        return "redundant-or-cycle"
    return "tree"


def check(job):
    kind, shape, seq = job
    if shape in ARR:
        return check_arr(job)
    bshape = "flat2" if shape == "flat2w" else shape
    lib, target = build(kind, bshape, seq)
    text = lib.text()
    case = {"kind": kind, "shape": shape, "clauses": [list(c) for c in seq], "text": text}
    flat = F.flatten(lib, target)
    exp = flatobs.expected(flat)
    try:
        obs = flatobs.observe(text, target)
    except Exception as e:
        return [("flatten-raises:" + common.exc_sig(e), "flatten raises %r\n%s" % (e, text), case)]
    viol = []
    for clause, detail in flatobs.compare(exp, obs, connectors=True):
        viol.append((clause, "%s\n%s" % (detail, text), case))
    rows = []
    try:
        for e in obs["eqs"]:
            if e[0] != "eq":
                raise P.NotLinear(repr(e))
            rows.append(P.eq_row(e))
    except P.NotLinear as e:
        viol.append(("non-linear-connection-equation", "flat equation %s is not a linear connection equation\n%s" % (e, text), case))
        return viol
    if any(1 in r for r in rows):
        viol.append(("inhomogeneous-connection-equation", "a connection equation has a constant term: %r\n%s" % (rows, text), case))
    if not L.same_row_space(rows, flat.conn_rows):
        ra, rb = L.rank(rows), L.rank(flat.conn_rows)
        both = L.rank(rows + flat.conn_rows)
        if both > rb:
            kind_ = "equation-not-implied"  # pymoca states something the connection semantics does not imply
        else:
            kind_ = "equation-missing"  # pymoca's equations allow solutions the semantics forbids
        viol.append((kind_ + ":" + shape_of(seq), "flat equations (rank %d) and connection-set equations (rank %d) differ (joint rank %d)\npymoca: %s\nreference: %s\n%s" % (ra, rb, both, _fmt(rows), _fmt(flat.conn_rows), text), case))
    return viol


def _fmt(rows):
    return "; ".join(" ".join("%+g*%s" % (float(c), v) for v, c in sorted(r.items(), key=lambda kv: str(kv[0]))) + " = 0" for r in rows)


def run(ctx):
    js = jobs(ctx.tier)
    if ctx.seed:
        r = ctx.seed % len(js)
        js = js[r:] + js[:r]
    with common.Pool() as pool:
        res = pool.map(check, js, chunksize=32)
    shapes = {}
    arr = {"evaluations": 0, "some_array_partly_connected": 0, "every_array_fully_connected_or_unconnected": 0}
    for j, viol in zip(js, res):
        s = shape_of(j[2])
        shapes[s] = shapes.get(s, 0) + 1
        if j[1] in ARR:
            arr["evaluations"] += 1
            arr["some_array_partly_connected" if arr_reference(*j)[2] else "every_array_fully_connected_or_unconnected"] += 1
        for sig, msg, case in viol:
            ctx.violation(sig, msg, case)
    for k in (1, len(js) // 2, len(js) - 1):
        kind, shape, seq = js[k]
        ctx.sample({"connector": kind, "shape": shape, "clauses": seq})
    ctx.coverage.update(
        {
            "evaluations": len(js),
            "distinct_nontrivial": len(js) - shapes.get("none", 0) - shapes.get("tree", 0),
            "by_graph_class": shapes,
            "array_family": arr,
            "exhaustive": True,
            "rule": "every sequence of <= n connect clauses over all ordered pairs of distinct endpoints (component connectors = "
            "inside, top-level connectors = outside): quick n = 3 over 5 endpoints with a (v, flow i) connector, n = 2 with two "
            "potentials and two flows, n = 2 with a component whose own connector is also connected inside it; thorough n = 4 / "
            "3 over up to 7 endpoints. Array family (elements of connector arrays as endpoints): Comp c1; Tank t (Pin ports[3]; Pin top); "
            "Pin e[2] with endpoints c1.p, t.ports[1..3], t.top (inside), e[1], e[2] (outside), quick n = 2, thorough n = 3 (and n = 2 with "
            "two potentials and two flows); arrays of components Comp b[2]; Tank tt[2]; Pin e[2] with 8 endpoints such as b[2].p, "
            "tt[2].ports[1], quick n = 1, thorough n = 2. Sequences are distinct by construction; non-trivial = the sequence closes a cycle, repeats "
            "a connection or merges two existing sets (the rest are trees, also checked).",
        }
    )
    ctx.assumptions.append("solution-space comparison by exact rational row-space equality of the linear connection equations")
    ctx.assumptions.append("a flow variable in no connection is zero, for inside and outside connectors alike, as the statement says")
    ctx.assumptions.append("each element of a connector array is a connector of its own: an element in no connection has zero flows even when other elements of the array are connected")
    ctx.assumptions.append("a flat equation over whole arrays of one shape (e.i = 0) stands for one scalar equation per element")


def replay(case):
    v = check((case["kind"], case["shape"], tuple(tuple(c) for c in case["clauses"])))
    print(case["text"])
    print([m.split("\n")[0] for _, m, _ in v] or "ok")
    return not v
