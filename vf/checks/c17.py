"""C17 -- AliasRelation is a signed equivalence under any add/remove/copy history.

E1: breadth-first search to *closure* over the real AliasRelation, against a
boring reference (explicit classes with relative signs).  See DESIGN.md C17.
"""
from vf.core import bfs, common

LEVEL = "model_checking"


def _names(tier):
    return ["a", "b", "c"] if tier == "quick" else ["a", "b", "c", "d"]


def neg(v):
    return v[1:] if v.startswith("-") else "-" + v


def split(v):
    return (v[1:], -1) if v.startswith("-") else (v, 1)


def signed(name, s):
    return name if s > 0 else "-" + name


class Ref:
    """classes: list of dicts name -> sign (relative to an arbitrary class-internal frame)."""

    def __init__(self, names):
        self.names = list(names)
        self.cls = {n: {n: 1} for n in names}  # name -> its class dict (shared)

    def clone(self):
        r = Ref(self.names)
        done = {}
        for n in self.names:
            c = self.cls[n]
            if id(c) not in done:
                done[id(c)] = dict(c)
            r.cls[n] = done[id(c)]
        return r

    def rel(self, x, y):
        """+1/-1 if signed x == (+/-) signed y are related, None if unrelated."""
        (nx, sx), (ny, sy) = split(x), split(y)
        cx = self.cls[nx]
        if ny not in cx:
            return None
        return sx * cx[nx] * sy * cx[ny]

    def can_add(self, x, y):
        r = self.rel(x, y)
        return r is None or r == 1

    def add(self, x, y):
        if self.rel(x, y) is not None:
            return
        (nx, sx), (ny, sy) = split(x), split(y)
        cx, cy = self.cls[nx], self.cls[ny]
        f = sx * cx[nx] * sy * cy[ny]
        for m, s in cy.items():
            cx[m] = s * f
            self.cls[m] = cx

    def remove_class_of(self, n):
        for m in list(self.cls[n]):
            self.cls[m] = {m: 1}

    def signed_class(self, v):
        n, s = split(v)
        c = self.cls[n]
        return {signed(m, s * c[n] * sm) for m, sm in c.items()}

    def partition(self):
        out = set()
        for n in self.names:
            c = self.cls[n]
            base = c[min(c)]
            out.add(tuple(sorted((m, s * base) for m, s in c.items())))
        return tuple(sorted(out))


def observe(rel, ref, names):
    """Compare the public API of `rel` with `ref`.  Returns list of (sig, msg)."""
    v = []
    canon_of = {}
    for n in names:
        for x in (n, "-" + n):
            got = rel.aliases(x)
            exp = ref.signed_class(x)
            if set(got) != exp:
                v.append(("aliases", "aliases(%r) = %r, expected %r" % (x, sorted(got), sorted(exp))))
            c, s = rel.canonical_signed(x)
            if s not in (1, -1) or c.startswith("-") or c not in ref.cls or ref.rel(x, signed(c, s)) != 1:
                v.append(("canonical_signed", "canonical_signed(%r) = %r is not a member of its class with that sign" % (x, (c, s))))
            canon_of[x] = (c, s)
    exp_canon = set()
    for n in names:
        c = ref.cls[n]
        cs = {canon_of[m][0] for m in c} | {canon_of["-" + m][0] for m in c}
        if len(cs) != 1:
            v.append(("canonical_signed", "class of %r has several canonicals %r" % (n, sorted(cs))))
        if len(c) > 1:
            exp_canon |= cs
    got_canon = set(rel.canonical_variables)
    if got_canon != exp_canon:
        v.append(("canonical_variables", "canonical_variables = %r, expected %r" % (sorted(got_canon), sorted(exp_canon))))
    it = list(rel)
    keys = [k for k, _ in it]
    if sorted(keys) != sorted(set(keys)) or set(keys) != exp_canon:
        v.append(("iteration", "iteration yields %r, expected one entry per non-trivial class %r" % (sorted(keys), sorted(exp_canon))))
    for k, al in it:
        if k in ref.cls:
            exp = ref.signed_class(k) - {k}
            if set(al) != exp:
                v.append(("iteration", "iteration entry %r -> %r, expected %r" % (k, sorted(al), sorted(exp))))
    return v


def internal_key(rel):
    ids = {}
    al = []
    for k in sorted(rel._aliases):
        s = rel._aliases[k]
        ids.setdefault(id(s), len(ids))
        al.append((k, tuple(sorted(s)), ids[id(s)]))
    return (
        tuple(al),
        tuple(sorted((k, tuple(v)) for k, v in rel._canonical_variables_map.items())),
        tuple(sorted(rel._canonical_variables)),
    )


def events(names):
    sn = [s + n for n in names for s in ("", "-")]
    evs = [("add", x, y) for x in sn for y in sn]
    evs += [("remove", n) for n in names]
    evs += [("copy_continue_on_copy",), ("copy_continue_on_source",)]
    return evs


class World:
    def __init__(self, names):
        from pymoca.backends.casadi.alias_relation import AliasRelation

        self.names = names
        self.act, self.ract = AliasRelation(), Ref(names)
        self.frz, self.rfrz = None, None

    def enabled(self, ev):
        if ev[0] == "add":
            return self.ract.can_add(ev[1], ev[2])
        return True

    def apply(self, ev):
        """Apply ev to the real object and the reference; returns violations."""
        v = []
        if ev[0] == "add":
            self.act.add(ev[1], ev[2])
            self.ract.add(ev[1], ev[2])
        elif ev[0] == "remove":
            n = ev[1]
            c = self.ract.cls[n]
            if len(c) > 1:
                canon = self.act.canonical_signed(n)[0]
                before = self.ract.partition()
                self.act.remove(n)
                if canon == n:
                    self.ract.remove_class_of(n)
                else:
                    # removing through a non-canonical member: the statement leaves open whether the
                    # class goes; the reference follows the implementation if it does either cleanly.
                    if set(self.act.aliases(n)) == {n}:
                        self.ract.remove_class_of(n)
                    assert before is not None
            else:
                self.act.remove(n)
        else:
            cp = self.act.copy()
            rcp = self.ract.clone()
            if ev[0] == "copy_continue_on_copy":
                self.frz, self.rfrz = self.act, self.ract
                self.act, self.ract = cp, rcp
            else:
                self.frz, self.rfrz = cp, rcp
        v += [(s, "active relation: " + m) for s, m in observe(self.act, self.ract, self.names)]
        if self.frz is not None:
            v += [
                ("copy-independence", "other side of the last copy changed: " + m)
                for s, m in observe(self.frz, self.rfrz, self.names)
            ]
        return v

    def key(self):
        k = (internal_key(self.act), self.ract.partition())
        if self.frz is not None:
            k += (internal_key(self.frz), self.rfrz.partition())
        return k


_NAMES = None


def _init(names):
    global _NAMES
    _NAMES = names


def build(hist):
    w = World(_NAMES)
    for ev in hist:
        w.apply(tuple(ev))
    return w


def expand(hist):
    out = []
    base = build(hist)
    for ev in events(_NAMES):
        if not base.enabled(ev):
            continue
        w = build(hist)
        try:
            viol = w.apply(ev)
        except Exception as e:  # the API never raises on an enabled event
            out.append({"ev": list(ev), "key": ("exc", repr(e), tuple(map(tuple, hist))), "viol": [("exception:" + common.exc_sig(e), repr(e))], "stop": True})
            continue
        nontriv = any(len(c) > 1 for c in w.ract.cls.values())
        out.append({"ev": list(ev), "key": w.key(), "viol": viol, "stop": bool(viol), "nontrivial": nontriv})
    return out


def run(ctx):
    names = _names(ctx.tier)
    _init(names)
    depth_cap = 12 if ctx.tier == "quick" else 16
    with common.Pool(init=_init, initargs=(names,)) as pool:
        st = bfs.search(ctx, pool, expand, init_key=build(()).key(), max_depth=depth_cap)
    ctx.coverage.update(st)
    ctx.coverage.update(
        {
            "traces_validated_against_impl": st["transitions"],
            "evaluations": st["transitions"],
            "distinct_nontrivial": max(0, st["states"] - 1),
            "exhaustive": bool(st["closed"]),
            "rule": "BFS to closure over add(x,y) for all signed pairs over %s that do not relate a name to its own "
            "negation, remove(n), copy (continuing on the copy or on the source with the other side kept and "
            "re-observed after every later event); a state is the canonical form of the three internal maps "
            "(with set-sharing pattern) of both sides plus the reference partitions; every state except the "
            "initial one has at least one non-trivial class or a kept copy" % names,
            "alphabet": [list(e) for e in events(names)][:8] + ["..."],
            "names": names,
        }
    )
    if not st["closed"]:
        ctx.cap("depth cap %d reached before closure" % depth_cap)
    ctx.assumptions += [
        "remove(x) through a non-canonical member may either drop the class or do nothing (statement leaves it open)",
        "which member is canonical is the implementation's choice; only consistency is checked",
    ]


def replay(case):
    _init(sorted({split(x)[0] for ev in case["history"] for x in ev[1:]}) or ["a", "b", "c"])
    w = World(_NAMES)
    ok = True
    for ev in case["history"]:
        v = w.apply(tuple(ev))
        print(ev, "->", v or "ok")
        ok = ok and not v
    return ok
