"""C21 -- an interrupted or in-progress cache write never breaks later loads.

Both halves observe the subject through vf.core.fsseam: EVERY file-system operation performed on ANY path in
the model folder (open for writing / reading, each write piece, truncate, close, os.replace / rename / link /
remove / unlink / mkdir / utime, stat (getmtime, exists, getsize), scandir (os.walk), listdir, each read of the
loader) is an operation, whichever module performs it.

E3 (crash half): one real transfer_model call is run per initial folder state (no cache; stale cache) and its
mutating operations are recorded.  The on-disk state after every prefix of that operation sequence and after
every byte prefix of every write (so: "temp file half written", "temp file complete but not yet renamed",
"renamed", "old file removed, new one not yet there" ... whatever the save path does) is re-created as the
state a crash leaves; then the real transfer_model must return a model equal to a fresh compile, twice.
Quick: every state through load_model's outcome class, full check on every operation boundary, every 64th
byte of every write and one representative per class; thorough: full check on every state.
E2 (schedule half): two real transfer_model callers on one folder, a scheduling point before every operation
above (writes reach the file in three pieces); all interleavings within a preemption bound; both results and a
later sequential call must equal a fresh compile.
"""
import os
import pickle
import shutil

from vf.core import common, fsseam, mcache, sched

LEVEL = "fault_enumeration"

MODEL = """model CM
  parameter Real p = 2;
  Real x(start = 1, max = 3 * p);
  Real y;
  input Real u;
equation
  der(x) = -p * x + u;
  y = 2 * x;
end CM;
"""
MODEL_B = MODEL.replace("parameter Real p = 2", "parameter Real p = 5").replace("y = 2 * x", "y = 3 * x + 1")
T0 = 1_700_000_000
CACHE = "CM.pymoca_cache"
_EXP = {}
_INIT = {}
_REC = {}


def setup(text=MODEL):
    d = common.new_scratch("c21")
    mcache.write_files(d, {"CM.mo": text}, mtime=T0)
    return d


def expected(text):
    from pymoca.backends.casadi import api
    from pymoca.backends.casadi._options import _merge_default_options

    if text not in _EXP:
        d = setup(text)
        o = _merge_default_options({"cache": True})
        o["expand_mx"] = True
        _EXP[text] = mcache.canon(api._compile_model(d, "CM", o))
        shutil.rmtree(d, ignore_errors=True)
    return _EXP[text]


# ---- initial folder states ------------------------------------------------------------------------------------

KINDS = {
    # kind -> what the folder holds before the calls under test
    "none": "sources only, no cache file",
    "stale": "a complete cache file that is older than the (edited) source",
}


def initial(kind):
    """(files: name -> (bytes, mtime), current source text), built once per process with the real code."""
    from pymoca.backends.casadi import api

    if kind not in _INIT:
        d = setup(MODEL)
        text = MODEL
        if kind == "stale":
            api.transfer_model(d, "CM", {"cache": True})
            os.utime(os.path.join(d, CACHE), (T0 + 5, T0 + 5))
            # the source is edited afterwards: the cache on disk is out of date for every caller
            mcache.write_files(d, {"CM.mo": MODEL_B}, mtime=T0 + 20)
            text = MODEL_B
        files = {}
        for n in sorted(os.listdir(d)):
            p = os.path.join(d, n)
            with open(p, "rb") as f:
                files[n] = (f.read(), os.path.getmtime(p))
        shutil.rmtree(d, ignore_errors=True)
        _INIT[kind] = (files, text)
    return _INIT[kind]


def make_folder(files):
    d = common.new_scratch("c21")
    for n, (data, mt) in files.items():
        p = os.path.join(d, n)
        with open(p, "wb") as f:
            f.write(data)
        os.utime(p, (mt, mt))
    return d


# ---- crash half ---------------------------------------------------------------------------------------------


def record(job):
    """Run the real transfer_model once from the given initial state under a recording layer; the recording
    (initial files, mutating operations with their data) goes to `path` for all workers to use."""
    from pymoca.backends.casadi import api

    kind, path = job
    files, text = initial(kind)
    d = make_folder(files)
    lay = fsseam.Layer(d)
    err = None
    with lay:
        try:
            api.transfer_model(d, "CM", {"cache": True})
        except Exception as e:  # not judged here: the operations issued up to this point still define crash states
            err = common.exc_sig(e)
    if lay.errors:
        raise RuntimeError("harness: " + "; ".join(lay.errors))
    rec = {"kind": kind, "files": files, "text": text, "log": lay.log, "trace": lay.trace, "call_error": err}
    rec["cache_bytes"] = os.path.getsize(os.path.join(d, CACHE)) if os.path.exists(os.path.join(d, CACHE)) else 0
    shutil.rmtree(d, ignore_errors=True)
    with open(path + ".tmp", "wb") as f:
        pickle.dump(rec, f)
    os.replace(path + ".tmp", path)
    return {"kind": kind, "ops": [fsseam.describe(r) for r in lay.log], "writes": fsseam.write_sizes(lay.log), "cache_bytes": rec["cache_bytes"], "trace": lay.trace, "call_error": err}


def recording(path):
    if path not in _REC:
        with open(path, "rb") as f:
            _REC[path] = pickle.load(f)
    return _REC[path]


def crash_states(summary):
    """All crash states of a recording: (k, None) = the first k operations completed; (k, j) = additionally the
    first j bytes (0 < j < n) of the write that is operation k."""
    out = []
    m = len(summary["ops"])
    for k in range(m + 1):
        out.append((k, None))
        n = summary["writes"].get(k)
        if n:
            out += [(k, j) for j in range(1, n)]
    return out


def materialise(rec, k, j):
    d = make_folder(rec["files"])
    fsseam.replay(d, rec["log"], k, j)
    return d


def state_text(rec, k, j):
    ops = [fsseam.describe(r) for r in rec["log"]]
    s = "initial state: %s; the interrupted call had completed %d of %d operations [%s]" % (KINDS[rec["kind"]], k, len(ops), "; ".join(ops[:k]) or "none")
    if j:
        s += " and %d bytes of the next %s" % (j, ops[k])
    return s


def classify(job):
    """Cheap pass: outcome class of load_model on a crash state."""
    from pymoca.backends.casadi import api

    path, k, j = job
    rec = recording(path)
    d = materialise(rec, k, j)
    try:
        api.load_model(d, "CM", {"cache": True, "expand_mx": True})
        out = "loads"
    except Exception as e:
        out = type(e).__name__
    shutil.rmtree(d, ignore_errors=True)
    return out


def crash_case(job):
    """Full pass: the next transfer_model (and the one after it) on a crash state."""
    from pymoca.backends.casadi import api

    path, k, j = job
    rec = recording(path)
    d = materialise(rec, k, j)
    viol = []
    case = {"crash_driver": rec["kind"], "ops_completed": k, "bytes_of_next_write": j}
    where = state_text(rec, k, j)
    exp = expected(rec["text"])
    try:
        m = api.transfer_model(d, "CM", {"cache": True})
        diff = mcache.diff(exp, mcache.canon(m))
        if diff:
            viol.append(("crash:wrong-model", "%s: transfer_model returns a model that differs from a fresh compile: %s" % (where, diff[0][1][:300]), case))
        else:
            # and the state it leaves behind must be good too
            m2 = api.transfer_model(d, "CM", {"cache": True})
            diff = mcache.diff(exp, mcache.canon(m2))
            if diff:
                viol.append(("crash:wrong-model-second-call", "%s: second call after recovery differs: %s" % (where, diff[0][1][:300]), case))
    except Exception as e:
        viol.append(("crash:transfer-raises:" + common.exc_sig(e), "%s: the next transfer_model raises %r" % (where, e), case))
    shutil.rmtree(d, ignore_errors=True)
    return viol


# ---- schedule half ------------------------------------------------------------------------------------------

DRIVERS = {
    # name -> (initial folder state, number of callers)
    "S1-no-cache-two-callers": ("none", 2),
    "S2-stale-cache-two-callers": ("stale", 2),
}
WRITE_PIECES = 3


def _is_source(rel):
    # Nobody writes a source during a schedule (enforced by the layer), so reading one is independent of every
    # operation of the other caller: not a scheduling point (it cannot change any outcome).
    return rel.endswith(".mo")


def _pid():
    i = sched.thread_index()
    return None if i is None else 70001 + i  # two callers = two processes


def run_schedule(name, prefix, labels):
    from pymoca.backends.casadi import api

    kind, ncallers = DRIVERS[name]
    files, text_now = initial(kind)
    d = make_folder(files)

    def body():
        m = api.transfer_model(d, "CM", {"cache": True})
        return mcache.canon(m)

    lay = fsseam.Layer(d, point=sched.point, chunks=WRITE_PIECES, visible=True, quiet=_is_source, pid=_pid)
    with lay:
        exe = sched.Execution([body] * ncallers, prefix, labels).run()
    if lay.errors or exe.error:
        raise RuntimeError("harness: %s" % (lay.errors or exe.error))
    exe.seam_kinds = sorted(set(x.split(":")[0] for x in lay.trace))
    viol = []
    exp = expected(text_now)
    tag = name.split("-")[0]
    for i, r in enumerate(exe.results()):
        if r[0] == "exc":
            viol.append(("sched:%s:call-raises:%s" % (tag, common.exc_sig(r[1])), "caller %d: transfer_model raised %s(%r)" % (i, r[1][0], r[1][1])))
        else:
            df = mcache.diff(exp, r[1])
            if df:
                viol.append(("sched:%s:wrong-model" % tag, "caller %d got a model that differs from a fresh compile: %s" % (i, df[0][1][:300])))
    # whatever the callers left behind must not break the next (sequential) call
    try:
        m = api.transfer_model(d, "CM", {"cache": True})
        df = mcache.diff(exp, mcache.canon(m))
        if df:
            viol.append(("sched:%s:later-call-wrong-model" % tag, "a later sequential call differs from a fresh compile: %s" % df[0][1][:300]))
    except Exception as e:
        viol.append(("sched:%s:later-call-raises:%s" % (tag, common.exc_sig(e)), "a later sequential transfer_model raised %r" % e))
    shutil.rmtree(d, ignore_errors=True)
    return exe, viol


def sched_job(args):
    name, prefix, labels, bound, root_only = args
    st = {"executions": 0, "points": 0, "viol": [], "alts": [], "outcomes": {}, "sample": None, "kinds": set()}

    def run_one(pre, lab):
        exe, viol = run_schedule(name, pre, lab)
        if viol:
            exe2, viol2 = run_schedule(name, exe.choices(), exe.labels())
            if sorted(s for s, _ in viol) != sorted(s for s, _ in viol2):
                raise RuntimeError("harness: schedule not reproducible: %r vs %r" % (viol, viol2))
        st["executions"] += 1
        st["points"] += len(exe.points)
        st["kinds"].update(exe.seam_kinds)
        k = "+".join(sorted(set(s for s, _ in viol))) or "all-correct"
        st["outcomes"][k] = st["outcomes"].get(k, 0) + 1
        if st["sample"] is None:
            st["sample"] = {"driver": name, "schedule": exe.labels()}
        for sig, msg in viol:
            if len(st["viol"]) < 100:
                st["viol"].append((sig, "%s: %s; schedule: %s" % (name, msg, " ".join(exe.labels())), {"driver": name, "choices": exe.choices(), "labels": exe.labels()}))
        return exe

    if root_only:
        exe = run_one(list(prefix), labels)
        st["alts"] = sched.alternatives(exe.points, len(prefix), bound)
    else:
        sched.explore(run_one, bound, prefix, labels)
    st["kinds"] = sorted(st["kinds"])
    return st


def run(ctx):
    thorough = ctx.tier == "thorough"
    with common.Pool() as pool:
        # crash half
        paths = {k: os.path.join(common.scratch_root(), "c21_rec_%s.pkl" % k) for k in KINDS}
        sums = pool.map(record, [(k, paths[k]) for k in KINDS], chunksize=1)
        states, full = [], []
        for s in sums:
            st = crash_states(s)
            states += [(paths[s["kind"]], k, j) for k, j in st]
        cls = pool.map(classify, states, chunksize=64)
        classes, reps = {}, set()
        for s, c in zip(states, cls):
            key = (os.path.basename(s[0]), c)
            if key not in classes:
                reps.add(s)
            classes[key] = classes.get(key, 0) + 1
        for s in states:
            path, k, j = s
            if thorough or j is None or s in reps:
                full.append(s)
                continue
            n = [x for x in sums if paths[x["kind"]] == path][0]["writes"][k]
            if j in (1, 2, n - 1) or j % 64 == 0:
                full.append(s)
        res = pool.map(crash_case, full, chunksize=2)
        for v in res:
            for sig, msg, case in v:
                ctx.violation(sig, msg, case)
        # schedule half
        bound = 3 if thorough else 2
        roots = [(name, [], None, bound, True) for name in DRIVERS]
        rres = pool.map(sched_job, roots, chunksize=1)
        sjobs = []
        for r, st in zip(roots, rres):
            for pre, lab in st["alts"]:
                sjobs.append((r[0], pre, lab, bound, False))
        sres = pool.map(sched_job, sjobs, chunksize=1)
    execs = points = 0
    outcomes, kinds = {}, set()
    for st in rres + sres:
        execs += st["executions"]
        points += st["points"]
        kinds.update(st["kinds"])
        for k, v in st["outcomes"].items():
            outcomes[k] = outcomes.get(k, 0) + v
        for sig, msg, case in st["viol"]:
            ctx.violation(sig, msg, case)
    mid = full[len(full) // 2]
    ctx.sample({"crash_driver": os.path.basename(mid[0]), "ops_completed": mid[1], "bytes_of_next_write": mid[2]})
    for st in rres:
        if st["sample"]:
            ctx.sample(st["sample"])
    proper = sum(1 for p, k, j in full if j is not None or 0 < k)  # something of the interrupted call is on disk
    ctx.coverage.update(
        {
            "evaluations": len(full) + execs + len(states),
            "distinct_nontrivial": proper + len(outcomes),
            "cache_file_bytes": sums[0]["cache_bytes"],
            "recorded_operations": {s["kind"]: s["ops"] for s in sums},
            "recorded_trace": {s["kind"]: s["trace"] for s in sums},
            "recorded_call_raised": {s["kind"]: s["call_error"] for s in sums if s["call_error"]},
            "crash_states": len(states),
            "crash_states_classified": len(cls),
            "crash_states_fully_checked": len(full),
            "loader_outcome_classes": {"%s:%s" % k: v for k, v in sorted(classes.items())},
            "schedules": execs,
            "schedule_points": points,
            "schedule_seam_kinds": sorted(kinds),
            "schedule_outcomes": outcomes,
            "preemption_bound": bound,
            "exhaustive": True,
            "rule": "crash half: for each initial folder state (no cache; stale cache) the mutating file-system operations of one real "
            "transfer_model call in the model folder are recorded (any path, any operation kind); crash states = the folder after every "
            "prefix of that operation sequence and after every byte prefix of every write (%d states, all through load_model's outcome "
            "class; full transfer_model twice + comparison with a fresh compile on %s); schedule half: every interleaving with <= %d "
            "preemptions of two transfer_model callers with a scheduling point before every file-system operation in the model folder "
            "(writes in %d pieces; reads of the unmodified sources excepted) for 2 drivers (no cache; stale cache), followed by a "
            "sequential call. Non-trivial = fully checked crash states in which part of the interrupted call is on disk, and distinct "
            "schedule outcome classes."
            % (len(states), "every state" if thorough else "every operation boundary, bytes 1, 2, n-1 and every 64th of each write, and one per class", bound, WRITE_PIECES),
        }
    )
    ctx.assumptions += [
        "a crash leaves the effects of a prefix of the operations the process issued, the last write possibly cut at any byte "
        "(process death: data written before a later operation is not lost; no power-loss reordering, no torn sectors)",
        "two callers are two threads of one process scheduled at file-system operations in the model folder; os.getpid, tempfile "
        "names and uuid1/uuid4 are virtualised per caller; one read call of the loader is atomic; closing a read handle is not a point",
        "codegen artefacts are not crash-enumerated in this build; one model",
    ]


def replay(case):
    if "crash_driver" in case:
        kind = case["crash_driver"].replace("c21_rec_", "").replace(".pkl", "")
        path = os.path.join(common.new_scratch("c21rec"), "rec.pkl")
        record((kind, path))
        v = crash_case((path, case["ops_completed"], case["bytes_of_next_write"]))
        print([m for _, m, _ in v] or "ok")
        return not v
    exe, viol = run_schedule(case["driver"], case["choices"], case["labels"])
    for lab in exe.labels():
        print("  ", lab)
    print([m for _, m in viol] or "ok")
    return not viol
