"""C21 -- an interrupted or in-progress cache write never breaks later loads.

E3 (crash half): the bytes save_model writes are recorded through a logging file shim; every prefix of the
cache file (quick: every write boundary, every 64th byte and a representative of every loader outcome class;
thorough: every byte) is materialised as the state after a crash, then the real transfer_model must return a
model equal to a fresh compile.
E2 (schedule half): two real transfer_model callers on one folder, scheduled at the cache-file seams
(getmtime, open, each write chunk, close, pickle.load); all interleavings within a preemption bound.
"""
import builtins
import os
import pickle as real_pickle
import shutil

from vf.core import common, mcache, sched

LEVEL = "fault_enumeration"

MODEL = """model CM
  parameter Real p = 2;
  Real x(start = 1, max = 3 * p);
  Real y;
  input Real u;
equation
  der(x) = -p * x + u;
  y = 2 * x;
end CM;
"""
MODEL_B = MODEL.replace("parameter Real p = 2", "parameter Real p = 5").replace("y = 2 * x", "y = 3 * x + 1")
T0 = 1_700_000_000
_EXP = {}


def setup(text=MODEL):
    d = common.new_scratch("c21")
    mcache.write_files(d, {"CM.mo": text}, mtime=T0)
    return d


def expected(text):
    from pymoca.backends.casadi import api
    from pymoca.backends.casadi._options import _merge_default_options

    if text not in _EXP:
        d = setup(text)
        o = _merge_default_options({"cache": True})
        o["expand_mx"] = True
        _EXP[text] = mcache.canon(api._compile_model(d, "CM", o))
        shutil.rmtree(d, ignore_errors=True)
    return _EXP[text]


# ---- crash half ---------------------------------------------------------------------------------------------


class LoggingFile:
    def __init__(self, f, log):
        self.f, self.log = f, log

    def write(self, b):
        self.log.append(len(b))
        return self.f.write(b)

    def __enter__(self):
        return self

    def __exit__(self, *a):
        self.f.close()

    def __getattr__(self, n):
        return getattr(self.f, n)


def record_write():
    """Run the real save path once; returns (cache file bytes, write boundaries)."""
    from pymoca.backends.casadi import api

    d = setup()
    log = []

    def logging_open(path, mode="r", *a, **k):
        f = builtins.open(path, mode, *a, **k)
        if str(path).endswith(".pymoca_cache") and "w" in mode:
            return LoggingFile(f, log)
        return f

    api.open = logging_open
    try:
        api.transfer_model(d, "CM", {"cache": True})
    finally:
        del api.open
    with open(os.path.join(d, "CM.pymoca_cache"), "rb") as f:
        data = f.read()
    shutil.rmtree(d, ignore_errors=True)
    bounds, pos = [], 0
    for n in log:
        pos += n
        bounds.append(pos)
    return data, bounds


def classify(job):
    """Cheap pass: outcome class of load_model for a prefix."""
    from pymoca.backends.casadi import api

    data, n = job
    d = setup()
    p = os.path.join(d, "CM.pymoca_cache")
    with open(p, "wb") as f:
        f.write(data[:n])
    os.utime(p, (T0 + 10, T0 + 10))
    try:
        api.load_model(d, "CM", {"cache": True, "expand_mx": True})
        out = "loads"
    except Exception as e:
        out = type(e).__name__
    shutil.rmtree(d, ignore_errors=True)
    return n, out


def crash_case(job):
    """Full pass: the next transfer_model after a crash that left data[:n] (n None = file absent)."""
    from pymoca.backends.casadi import api

    data, n = job
    d = setup()
    p = os.path.join(d, "CM.pymoca_cache")
    if n is not None:
        with open(p, "wb") as f:
            f.write(data[:n])
        os.utime(p, (T0 + 10, T0 + 10))
    viol = []
    case = {"crash_prefix_bytes": n, "total_bytes": len(data)}
    try:
        m = api.transfer_model(d, "CM", {"cache": True})
        diff = mcache.diff(expected(MODEL), mcache.canon(m))
        if diff:
            viol.append(("crash:wrong-model", "after a crash leaving %r of %d bytes transfer_model returns a different model: %s" % (n, len(data), diff[0][1][:300]), case))
        else:
            # and the state it leaves behind must be good too
            m2 = api.transfer_model(d, "CM", {"cache": True})
            diff = mcache.diff(expected(MODEL), mcache.canon(m2))
            if diff:
                viol.append(("crash:wrong-model-second-call", "second call after recovery differs: %s" % diff[0][1][:300], case))
    except Exception as e:
        viol.append(("crash:transfer-raises:" + common.exc_sig(e), "after a crash leaving %r of %d bytes of the cache file transfer_model raises %r" % (n, len(data), e), case))
    shutil.rmtree(d, ignore_errors=True)
    return viol


# ---- schedule half ------------------------------------------------------------------------------------------


class SchedFile:
    def __init__(self, f, tag):
        self.f, self.tag = f, tag

    def write(self, b):
        sched.point("write:" + self.tag)
        return self.f.write(b)

    def close(self):
        sched.point("close:" + self.tag)
        self.f.close()

    def __enter__(self):
        return self

    def __exit__(self, *a):
        self.close()

    def __getattr__(self, n):
        return getattr(self.f, n)


class ShimPickle:
    def load(self, f):
        sched.point("pickle.load")
        return real_pickle.load(getattr(f, "f", f))

    def dump(self, obj, f, protocol=None):
        data = real_pickle.dumps(obj, protocol=protocol)
        n = len(data)
        for a, b in ((0, n // 3), (n // 3, 2 * n // 3), (2 * n // 3, n)):  # the OS may flush in pieces
            f.write(data[a:b])
            getattr(f, "f", f).flush()

    def __getattr__(self, n):
        return getattr(real_pickle, n)


class ShimPath:
    def getmtime(self, p):
        if str(p).endswith(".pymoca_cache"):
            sched.point("getmtime:cache")
        return os.path.getmtime(p)

    def __getattr__(self, n):
        return getattr(os.path, n)


class ShimOs:
    path = ShimPath()

    def __getattr__(self, n):
        return getattr(os, n)


def sched_open(path, mode="r", *a, **k):
    if str(path).endswith(".pymoca_cache"):
        sched.point("open:" + mode)
        return SchedFile(builtins.open(path, mode, *a, **k), mode)
    return builtins.open(path, mode, *a, **k)


DRIVERS = {
    # name -> (initial cache: None | 'valid' | 'stale', number of callers)
    "S1-no-cache-two-callers": (None, 2),
    "S2-stale-cache-two-callers": ("stale", 2),
}


def run_schedule(name, prefix, labels):
    from pymoca.backends.casadi import api

    initial, ncallers = DRIVERS[name]
    d = setup(MODEL)
    text_now = MODEL
    if initial in ("stale", "valid-then-edit"):
        api.transfer_model(d, "CM", {"cache": True})
        os.utime(os.path.join(d, "CM.pymoca_cache"), (T0 + 5, T0 + 5))
        # the source is edited afterwards: the cache on disk is out of date for every caller
        mcache.write_files(d, {"CM.mo": MODEL_B}, mtime=T0 + 20)
        text_now = MODEL_B
    api.open, api.pickle, api.os = sched_open, ShimPickle(), ShimOs()

    def body():
        m = api.transfer_model(d, "CM", {"cache": True})
        return mcache.canon(m)

    try:
        exe = sched.Execution([body] * ncallers, prefix, labels).run()
    finally:
        del api.open
        api.pickle, api.os = real_pickle, os
    viol = []
    exp = expected(text_now)
    for i, r in enumerate(exe.results()):
        if r[0] == "exc":
            viol.append(("sched:%s:call-raises:%s" % (name.split("-")[0], common.exc_sig(r[1])), "caller %d: transfer_model raised %s(%r)" % (i, r[1][0], r[1][1])))
        else:
            df = mcache.diff(exp, r[1])
            if df:
                viol.append(("sched:%s:wrong-model" % name.split("-")[0], "caller %d got a model that differs from a fresh compile: %s" % (i, df[0][1][:300])))
    # whatever the callers left behind must not break the next (sequential) call
    try:
        m = api.transfer_model(d, "CM", {"cache": True})
        df = mcache.diff(exp, mcache.canon(m))
        if df:
            viol.append(("sched:%s:later-call-wrong-model" % name.split("-")[0], "a later sequential call differs from a fresh compile: %s" % df[0][1][:300]))
    except Exception as e:
        viol.append(("sched:%s:later-call-raises:%s" % (name.split("-")[0], common.exc_sig(e)), "a later sequential transfer_model raised %r" % e))
    shutil.rmtree(d, ignore_errors=True)
    return exe, viol


def sched_job(args):
    name, prefix, labels, bound, root_only = args
    st = {"executions": 0, "points": 0, "viol": [], "alts": [], "outcomes": {}, "sample": None}

    def run_one(pre, lab):
        exe, viol = run_schedule(name, pre, lab)
        if viol:
            exe2, viol2 = run_schedule(name, exe.choices(), exe.labels())
            if sorted(s for s, _ in viol) != sorted(s for s, _ in viol2):
                raise RuntimeError("harness: schedule not reproducible: %r vs %r" % (viol, viol2))
        st["executions"] += 1
        st["points"] += len(exe.points)
        k = "+".join(sorted(set(s for s, _ in viol))) or "all-correct"
        st["outcomes"][k] = st["outcomes"].get(k, 0) + 1
        if st["sample"] is None:
            st["sample"] = {"driver": name, "schedule": exe.labels()}
        for sig, msg in viol:
            if len(st["viol"]) < 100:
                st["viol"].append((sig, "%s: %s" % (name, msg), {"driver": name, "choices": exe.choices(), "labels": exe.labels()}))
        return exe

    if root_only:
        exe = run_one(list(prefix), labels)
        st["alts"] = sched.alternatives(exe.points, len(prefix), bound)
    else:
        sched.explore(run_one, bound, prefix, labels)
    return st


def run(ctx):
    thorough = ctx.tier == "thorough"
    with common.Pool() as pool:
        data, bounds = record_write_in_pool(pool)
        n = len(data)
        # crash half
        offs = list(range(n + 1)) if thorough else sorted(set(range(0, n, 64)) | set(bounds) | {0, 1, 2, n - 1, n})
        cls = pool.map(classify, [(data, k) for k in range(n + 1)], chunksize=64)
        classes = {}
        for k, c in cls:
            classes.setdefault(c, k)
        offs = sorted(set(offs) | set(classes.values()))
        jobs = [(data, None)] + [(data, k) for k in offs]
        res = pool.map(crash_case, jobs, chunksize=2)
        for v in res:
            for sig, msg, case in v:
                ctx.violation(sig, msg, case)
        # schedule half
        bound = 3 if thorough else 2
        roots = [(name, [], None, bound, True) for name in DRIVERS]
        rres = pool.map(sched_job, roots, chunksize=1)
        sjobs = []
        for r, st in zip(roots, rres):
            for pre, lab in st["alts"]:
                sjobs.append((r[0], pre, lab, bound, False))
        sres = pool.map(sched_job, sjobs, chunksize=1)
    execs = points = 0
    outcomes = {}
    for st in rres + sres:
        execs += st["executions"]
        points += st["points"]
        for k, v in st["outcomes"].items():
            outcomes[k] = outcomes.get(k, 0) + v
        for sig, msg, case in st["viol"]:
            ctx.violation(sig, msg, case)
    ctx.sample({"crash_prefix_bytes": offs[len(offs) // 2], "of": n})
    if rres and rres[0]["sample"]:
        ctx.sample(rres[0]["sample"])
    ctx.coverage.update(
        {
            "evaluations": len(jobs) + execs + len(cls),
            "distinct_nontrivial": len(jobs) - 2 + len(outcomes),
            "cache_file_bytes": n,
            "write_boundaries": bounds,
            "crash_points_fully_checked": len(jobs),
            "crash_points_classified": len(cls),
            "loader_outcome_classes": {c: sum(1 for _, x in cls if x == c) for c in classes},
            "schedules": execs,
            "schedule_points": points,
            "schedule_outcomes": outcomes,
            "preemption_bound": bound,
            "exhaustive": True,
            "rule": "crash half: cache file absent, empty and every prefix listed (all %d+1 offsets through load_model's outcome "
            "class; full transfer_model + comparison with a fresh compile on %s); schedule half: every interleaving with <= %d "
            "preemptions of two transfer_model callers at the cache-file seams for 2 drivers (no cache; stale cache), followed by a sequential call. Non-trivial = proper prefixes (neither absent nor complete) and "
            "distinct schedule outcome classes." % (n, "every byte offset" if thorough else "write boundaries, every 64th byte and one per class", bound),
        }
    )
    ctx.assumptions += [
        "a crash leaves a prefix of the bytes written (single file, append-only write pattern); torn sectors inside the prefix are not modelled",
        "codegen artefacts are not crash-enumerated in this build",
    ]


def record_write_in_pool(pool):
    return pool.map(_rec, [0], chunksize=1)[0]


def _rec(_):
    return record_write()


def replay(case):
    if "crash_prefix_bytes" in case:
        data, bounds = record_write()
        v = crash_case((data, case["crash_prefix_bytes"]))
        print([m for _, m, _ in v] or "ok")
        return not v
    exe, viol = run_schedule(case["driver"], case["choices"], case["labels"])
    for lab in exe.labels():
        print("  ", lab)
    print([m for _, m in viol] or "ok")
    return not viol
