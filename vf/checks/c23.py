"""C23 -- out-of-range array subscripts are rejected, never reinterpreted.

E4: the full window product of subscripts / slice bounds / loop ranges around the valid range of small
arrays.  In range => generation succeeds and the residual selects exactly those elements (reference:
vf.ref.mast); out of range => generation (or building the residual function) raises.  Empty ranges
(hi < lo) are legal Modelica; for them either an empty selection or an error is accepted.
"""
import numpy as np

from vf.checks import c11
from vf.core import cas, common
from vf.ref import expr as X
from vf.ref import mast as M
from vf.ref.mast import B, N, V, Decl, Model

LEVEL = "exploration"


def lit(i):
    """Integer literal as Modelica spells it (negative numbers are a unary minus)."""
    return N(i) if i >= 0 else ("un", "-", N(-i))


def programs(tier):
    out = []
    a, s = Decl("a"), Decl("s")
    for n in (1, 2, 3):
        x = Decl("x", dims=(n,))
        win = range(-1, n + 3)
        for i in win:
            out.append(("subscript-rhs", Model("M", [x, a], [("eq", V("a"), ("idx", "x", (lit(i),)))])))
            out.append(("subscript-lhs", Model("M", [x, a], [("eq", ("idx", "x", (lit(i),)), V("a"))])))
        for lo in win:
            for hi in win:
                sl = ("idx", "x", (("slice", lit(lo), lit(hi)),))
                out.append(("slice-sum", Model("M", [x, s], [("eq", V("s"), ("call", "sum", (sl,)))])))
                ln = hi - lo + 1
                if ln >= 1:
                    z = Decl("z", dims=(ln,))
                    out.append(("slice-rhs", Model("M", [x, z], [("eq", V("z"), sl)])))
                    out.append(("slice-lhs", Model("M", [x, z], [("eq", sl, V("z"))])))
        # loop-variable subscripts
        for lo in win:
            for hi in win:
                for shift, tag in ((0, "x[i]"), (1, "x[i+1]"), (-1, "x[i-1]")):
                    i = V("i")
                    sub = i if shift == 0 else B("+" if shift > 0 else "-", i, N(abs(shift)))
                    body = [("eq", ("idx", "x", (sub,)), B("*", V("b"), i))]
                    out.append(("loop-" + tag, Model("M", [x, Decl("b")], [("for", "i", lit(lo), lit(hi), body)])))
                    if tier == "thorough" or shift == 0:
                        body2 = [("eq", ("idx", "y", (i,)), ("idx", "x", (sub,)))]
                        m = max(hi, 1)
                        out.append(("loop-rhs-" + tag, Model("M", [x, Decl("y", dims=(m,))], [("for", "i", lit(lo), lit(hi), body2)])))
    # 2-D
    shapes = ((2, 2), (2, 3))
    for r, c in shapes:
        A = Decl("A", dims=(r, c))
        for i in range(-1, r + 3):
            for j in range(-1, c + 3):
                out.append(("subscript-2d", Model("M", [A, a], [("eq", V("a"), ("idx", "A", (lit(i), lit(j))))])))
            out.append(("subscript-2d-row", Model("M", [A, Decl("z", dims=(c,))], [("eq", V("z"), ("idx", "A", (lit(i), ("all",))))])))
        for j in range(-1, c + 3):
            out.append(("subscript-2d-col", Model("M", [A, Decl("z", dims=(r,))], [("eq", V("z"), ("idx", "A", (("all",), lit(j))))])))
        if tier == "thorough":
            for i in range(-1, r + 3):
                for lo in range(-1, c + 3):
                    for hi in range(-1, c + 3):
                        sl = ("idx", "A", (lit(i), ("slice", lit(lo), lit(hi))))
                        if hi - lo + 1 >= 1:  # (sum() of a row slice is not a shape-agnostic consumer in pymoca)
                            out.append(("subscript-2d-slice", Model("M", [A, Decl("z", dims=(hi - lo + 1,))], [("eq", V("z"), sl)])))
    # subscripts on a scalar / too many subscripts
    for i in (0, 1, 2):
        out.append(("subscript-on-scalar", Model("M", [Decl("k"), a], [("eq", V("a"), ("idx", "k", (lit(i),)))])))
    out.append(("too-many-subscripts", Model("M", [Decl("x", dims=(2,)), a], [("eq", V("a"), ("idx", "x", (N(1), N(1))))])))
    return out


def classify(model, env):
    """('in-range', segments) | ('out-of-range', why) | ('empty-range', None) by the reference."""
    try:
        segs = M.residuals(model.eqs, env)
    except M.OutOfRange as e:
        return "out-of-range", str(e)
    return "in-range", segs


def has_empty_range(model):
    def walk(n):
        if isinstance(n, tuple):
            if n and n[0] in ("slice", "for"):
                lo, hi = (n[1], n[2]) if n[0] == "slice" else (n[2], n[3])
                try:
                    if M.evn(hi, {}) < M.evn(lo, {}):
                        return True
                except Exception:
                    pass
            return any(walk(x) for x in n)
        if isinstance(n, list):
            return any(walk(x) for x in n)
        return False

    return walk(model.eqs)


def check(job):
    fam, model, seed = job
    text = model.text()
    env = c11.values_for(model, 0, seed)
    kind, info = classify(model, env)
    empty = has_empty_range(model)
    try:
        cm = cas.generate(text, model.name)
        cm.dae_residual_function
        err = None
    except Exception as e:
        err = e
    viol = []
    cls = kind if not empty else "empty-range"
    if empty:
        # legal Modelica; either an empty selection or an error is accepted (DESIGN.md C23): not judged
        return {"cls": cls, "viol": viol, "fam": fam}
    if kind == "out-of-range":
        if err is None:
            try:
                got = cas.residual(cm, env, time=env["time"])
            except Exception as e:
                got = "evaluation raises %r" % e
            viol.append(("out-of-range-accepted:" + fam, "%s, but the model generates; residual %r\n%s" % (info, got, text), {"text": text}))
    else:
        if err is not None:
            viol.append(("in-range-rejected:%s:%s" % (fam, common.exc_sig(err)), "all subscripts are in range but generation raises %r\n%s" % (err, text), {"text": text}))
        else:
            for p in range(3):
                envp = c11.values_for(model, p, seed)
                segs = M.residuals(model.eqs, envp)
                got = cas.residual(cm, envp, time=envp["time"])
                want = np.concatenate(segs) if segs else np.zeros(0)
                if not M.same_multiset(got, want):
                    viol.append(("wrong-element:" + fam, "residual %r, the subscripted elements give %r\n%s" % (got, want.tolist(), text), {"text": text}))
                    break
    return {"cls": cls, "viol": viol, "fam": fam}


def run(ctx):
    progs = programs(ctx.tier)
    with common.Pool() as pool:
        res = pool.map(check, [(f, m, ctx.seed) for f, m in progs], chunksize=4)
    per, cls = {}, {}
    for (fam, m), r in zip(progs, res):
        per[fam] = per.get(fam, 0) + 1
        cls[r["cls"]] = cls.get(r["cls"], 0) + 1
        for sig, msg, case in r["viol"]:
            ctx.violation(sig, msg, case)
    for k in (0, len(progs) // 2, len(progs) - 1):
        ctx.sample({"family": progs[k][0], "model": progs[k][1].text()})
    ctx.coverage.update(
        {
            "evaluations": len(progs),
            "distinct_nontrivial": cls.get("out-of-range", 0),
            "by_reference_class": cls,
            "per_family": per,
            "exhaustive": True,
            "rule": "full window product: 1-D arrays of size 1..3 with every subscript in [-1, n+2] on either side, every slice "
            "lo:hi over the window (as z = x[lo:hi], x[lo:hi] = z and the shape-agnostic s = sum(x[lo:hi])), every for-loop "
            "lo:hi over the window with subscripts x[i], x[i+1], x[i-1]; 2x2 and 2x3 matrices with every (i, j), (i, :) and "
            "(:, j) over the window (thorough: also A[i, lo:hi]); subscripts on a scalar. Non-trivial = the reference says "
            "some subscript is out of range (the case the property is about).",
        }
    )
    ctx.assumptions.append("rejection may come from generate() or from building the residual function; empty ranges are not judged")


def replay(case):
    for fam, m in programs("thorough"):
        if m.text() == case["text"]:
            r = check((fam, m, 0))
            print(m.text(), [x[1] for x in r["viol"]] or "ok")
            return not r["viol"]
    return True
