"""C23 -- out-of-range array subscripts are rejected, never reinterpreted.

E4: the full window product of subscripts / slice bounds / loop ranges around the valid range of small
arrays.  In range => generation succeeds and the residual selects exactly those elements (reference:
vf.ref.mast); out of range => generation (or building the residual function) raises.  Empty ranges
(hi < lo) are legal Modelica; for them either an empty selection or an error is accepted.

Loop-variable subscripts are not only the ascending x[i], x[i+1], x[i-1]: the subscript of a for-equation is any
integer expression of the loop variable, and the anchored range test sees the whole *sequence* of evaluated
indices.  So the alphabet has every affine form c0 + c1*i (c1 in -2, -1, 1, 2: descending sequences -- the
reversal idiom x[n+1-i] --, sequences that step over 0) with the first evaluated index anywhere in the window, and
the two non-monotone forms (i-m)*(i-m)+c / c-(i-m)*(i-m) whose extreme value sits in the middle of the sequence,
on 1-D arrays, in each position of a 2-D subscript, and with the array size, the loop bound and the subscript
written in terms of an Integer parameter.
"""
import numpy as np

from vf.checks import c11
from vf.core import cas, common
from vf.ref import expr as X
from vf.ref import mast as M
from vf.ref.mast import B, N, V, Decl, Model

LEVEL = "exploration"


def lit(i):
    """Integer literal as Modelica spells it (negative numbers are a unary minus)."""
    return N(i) if i >= 0 else ("un", "-", N(-i))


I = V("i")


def plus(e, k):
    """e + k with the sign spelled as an operator (e, e + 2, e - 2)."""
    return e if k == 0 else B("+" if k > 0 else "-", e, N(abs(k)))


def affine(c1, c0, base=None):
    """c0 + c1*i as it would be written: i + 2, 2 * i - 1, 4 - i, -i - 1, 5 - 2 * i.
    base: an expression standing for part of the constant (a parameter), c0 is then relative to it."""
    t = I if abs(c1) == 1 else B("*", N(abs(c1)), I)
    if c1 > 0:
        return plus(t, c0) if base is None else plus(B("+", t, base), c0)
    if base is not None:
        return B("-", plus(base, c0), t)
    if c0 > 0:
        return B("-", N(c0), t)
    return plus(("un", "-", t), c0)


def quad(sign, m, c):
    """(i-m)*(i-m) + c (sign +1: minimum c at i = m) or c - (i-m)*(i-m) (sign -1: maximum c at i = m)."""
    d = plus(I, -m)
    sq = B("*", d, d)
    return plus(sq, c) if sign > 0 else B("-", lit(c), sq)


def ranges(n, lo_min=0):
    """Non-empty loop ranges lo:hi inside the window.  lo >= 0: pymoca reads the start of a for range as a
    literal (a unary minus or a parameter there is outside its supported subset and raises for every model)."""
    return [(lo, hi) for lo in range(lo_min, n + 3) for hi in range(lo, n + 3)]


def loop_subscripts(n, lo, hi, tier, affine_c1=(-2, -1, 1, 2), quads=True):
    """(tag, subscript expression) for a loop lo:hi over a dimension of size n: every affine form whose first
    evaluated index lies in the window [-1, n+2]; every quadratic form with its vertex m inside lo..hi and the
    vertex value c in the window."""
    out = []
    for c1 in affine_c1:
        for first in range(-1, n + 3):
            out.append(("c1=%d" % c1, affine(c1, first - c1 * lo)))
    if quads:
        for sign, tag in ((1, "convex"), (-1, "concave")):
            for m in range(lo, hi + 1):
                for c in range(-1, n + 3):
                    out.append((tag, quad(sign, m, c)))
    return out


def loop_programs(tier):
    out = []
    b = Decl("b")
    rhs = B("*", V("b"), I)
    sizes = (1, 2, 3) if tier == "quick" else (1, 2, 3, 4)
    # 1-D, the subscripted array is the only indexed symbol of the loop (nothing else can reject the model)
    for n in sizes:
        x = Decl("x", dims=(n,))
        for lo, hi in ranges(n):
            for tag, sub in loop_subscripts(n, lo, hi, tier):
                e = ("idx", "x", (sub,))
                out.append(("loop-1d-rhs:" + tag, Model("M", [x, b], [("for", "i", N(lo), N(hi), [("eq", rhs, e)])])))
                if tag.startswith("c1") or tier == "thorough":
                    out.append(("loop-1d-lhs:" + tag, Model("M", [x, b], [("for", "i", N(lo), N(hi), [("eq", e, rhs)])])))
    # 2-D: the loop variable in the row or in the column position, the other subscript a valid constant.
    # Non-square shapes: the bound that applies is the one of the looped position.
    shapes = ((2, 3), (3, 2)) if tier == "quick" else ((2, 3), (3, 2), (2, 2), (3, 3))
    for r, c in shapes:
        A = Decl("A", dims=(r, c))
        for pos, n, other in ((0, r, c), (1, c, r)):
            where = "row" if pos == 0 else "col"
            for lo, hi in ranges(n):
                for tag, sub in loop_subscripts(n, lo, hi, tier):
                    ks = range(1, other + 1) if tag.startswith("c1") or tier == "thorough" else (other,)
                    for k in ks:
                        subs = (sub, N(k)) if pos == 0 else (N(k), sub)
                        e = ("idx", "A", subs)
                        out.append(("loop-2d-%s-rhs:%s" % (where, tag), Model("M", [A, b], [("for", "i", N(lo), N(hi), [("eq", rhs, e)])])))
                        if tier == "thorough":
                            out.append(("loop-2d-%s-lhs:%s" % (where, tag), Model("M", [A, b], [("for", "i", N(lo), N(hi), [("eq", e, rhs)])])))
                # a vector of the matrix per iteration: A[f(i), :] / A[:, f(i)] under the shape-agnostic sum()
                if tier == "thorough":
                    for tag, sub in loop_subscripts(n, lo, hi, tier, quads=False):
                        subs = (sub, ("all",)) if pos == 0 else (("all",), sub)
                        e = ("call", "sum", (("idx", "A", subs),))
                        out.append(("loop-2d-%s-vector:%s" % (where, tag), Model("M", [A, b], [("for", "i", N(lo), N(hi), [("eq", rhs, e)])])))
    # size, upper loop bound and subscript in terms of an Integer parameter: Real x[n]; for i in lo:n+k; x[n+1-i]
    for n in sizes:
        for prefix in ("parameter",) if tier == "quick" else ("parameter", "constant"):
            p = Decl("n", type="Integer", prefix=prefix, value=N(n))
            x = Decl("x", dims=(V("n"),))
            for lo, hi in ranges(n):
                for c1 in (-2, -1, 1, 2):
                    for first in range(-1, n + 3):
                        c0 = first - c1 * lo
                        e = ("idx", "x", (affine(c1, c0 - n, V("n")),))
                        loop = ("for", "i", N(lo), plus(V("n"), hi - n), [("eq", rhs, e)])
                        out.append(("loop-param:c1=%d" % c1, Model("M", [p, x, b], [loop])))
                if tier == "thorough":
                    for sign, tag in ((1, "convex"), (-1, "concave")):
                        for m in range(lo, hi + 1):
                            for c in range(-1, n + 3):
                                # vertex and vertex value relative to n: (i - (n - 1)) * (i - (n - 1)) + n - 2
                                d = B("-", I, plus(V("n"), m - n))
                                sq = B("*", d, d)
                                sub = B("+", sq, plus(V("n"), c - n)) if sign > 0 else B("-", plus(V("n"), c - n), sq)
                                loop = ("for", "i", N(lo), plus(V("n"), hi - n), [("eq", rhs, ("idx", "x", (sub,)))])
                                out.append(("loop-param:" + tag, Model("M", [p, x, b], [loop])))
    return out


class Spelled:
    """A model whose text uses a spelling the reference AST has no node for; `eqs` is the same model written out
    element by element (what the reference evaluates).  lenient: pymoca may also reject it (see step_programs)."""

    def __init__(self, decls, body, eqs, lenient=False):
        self.name, self.decls, self.eqs, self.init_eqs, self.funcs, self.lenient = "M", list(decls), list(eqs), [], [], lenient
        self._text = "model M\n%sequation\n%send M;\n" % ("".join("  %s\n" % d.text() for d in decls), "".join("  %s\n" % l for l in body))

    def text(self):
        return self._text


def step_programs(tier):
    """x[lo:st:hi] and for i in lo:st:hi, st a positive literal: the elements lo, lo+st, ... <= hi.  The reference
    model is the explicit element list.  A slice whose stop is beyond n but whose last element is not (1:2:4 on
    x[3] = {1, 3}) is valid Modelica; pymoca's conservative rejection of it is accepted (lenient)."""
    out = []
    b, sv = Decl("b"), Decl("s")
    steps = (1, 2) if tier == "quick" else (1, 2, 3)
    for n in (1, 2, 3):
        x = Decl("x", dims=(n,))
        win = range(-1, n + 3)
        for st in steps:
            for lo in win:
                for hi in win:
                    els = list(range(lo, hi + 1, st))
                    if not els:
                        continue
                    spell = "%d:%d:%d" % (lo, st, hi)
                    lenient = hi > n >= els[-1] and lo >= 1
                    arr = ("arr", tuple(("idx", "x", (lit(e),)) for e in els))
                    out.append(("step-slice-sum", Spelled([x, sv], ["s = sum(x[%s]);" % spell], [("eq", V("s"), ("call", "sum", (arr,)))], lenient)))
                    z = Decl("z", dims=(len(els),))
                    out.append(("step-slice-rhs", Spelled([x, z], ["z = x[%s];" % spell], [("eq", V("z"), arr)], lenient)))
                    if lo < 0:  # (the start of a for range is a non-negative literal)
                        continue
                    for tag, f, ftext in (("x[i]", lambda i: i, "i"), ("x[n+1-i]", lambda i: n + 1 - i, "%d - i" % (n + 1))):
                        body = ["for i in %s loop" % spell, "  b * i = x[%s];" % ftext, "end for;"]
                        eqs = [("eq", B("*", V("b"), N(i)), ("idx", "x", (lit(f(i)),))) for i in els]
                        out.append(("step-loop-" + tag, Spelled([x, b], body, eqs)))
    return out


def two_loop_programs(tier):
    """Two for-equations in one model with the same index name and the same subscript expression, ranges of equal
    length but different bounds: each loop is judged on its own range (a check remembered from the first loop says
    nothing about the second)."""
    out = []
    for n in (3, 4):
        x, b, c = Decl("x", dims=(n,)), Decl("b"), Decl("c")
        for shift, tag in ((0, "x[i]"), (1, "x[i+1]"), (-1, "x[i-1]")):
            i = V("i")
            sub = i if shift == 0 else B("+" if shift > 0 else "-", i, N(abs(shift)))
            length_range = (2, 3) if tier == "quick" else (1, 2, 3)
            for length in length_range:
                starts = range(0, n + 3 - length)
                for lo1 in starts:
                    for lo2 in starts:
                        if lo1 == lo2:
                            continue
                        l1 = ("for", "i", lit(lo1), lit(lo1 + length - 1), [("eq", B("*", V("b"), i), ("idx", "x", (sub,)))])
                        l2 = ("for", "i", lit(lo2), lit(lo2 + length - 1), [("eq", B("*", V("c"), i), ("idx", "x", (sub,)))])
                        out.append(("two-loops-" + tag, Model("M", [x, b, c], [l1, l2])))
    return out


def programs(tier):
    out = []
    a, s = Decl("a"), Decl("s")
    for n in (1, 2, 3):
        x = Decl("x", dims=(n,))
        win = range(-1, n + 3)
        for i in win:
            out.append(("subscript-rhs", Model("M", [x, a], [("eq", V("a"), ("idx", "x", (lit(i),)))])))
            out.append(("subscript-lhs", Model("M", [x, a], [("eq", ("idx", "x", (lit(i),)), V("a"))])))
        for lo in win:
            for hi in win:
                sl = ("idx", "x", (("slice", lit(lo), lit(hi)),))
                out.append(("slice-sum", Model("M", [x, s], [("eq", V("s"), ("call", "sum", (sl,)))])))
                ln = hi - lo + 1
                if ln >= 1:
                    z = Decl("z", dims=(ln,))
                    out.append(("slice-rhs", Model("M", [x, z], [("eq", V("z"), sl)])))
                    out.append(("slice-lhs", Model("M", [x, z], [("eq", sl, V("z"))])))
        # loop-variable subscripts
        for lo in win:
            for hi in win:
                for shift, tag in ((0, "x[i]"), (1, "x[i+1]"), (-1, "x[i-1]")):
                    i = V("i")
                    sub = i if shift == 0 else B("+" if shift > 0 else "-", i, N(abs(shift)))
                    body = [("eq", ("idx", "x", (sub,)), B("*", V("b"), i))]
                    out.append(("loop-" + tag, Model("M", [x, Decl("b")], [("for", "i", lit(lo), lit(hi), body)])))
                    if tier == "thorough" or shift == 0:
                        body2 = [("eq", ("idx", "y", (i,)), ("idx", "x", (sub,)))]
                        m = max(hi, 1)
                        out.append(("loop-rhs-" + tag, Model("M", [x, Decl("y", dims=(m,))], [("for", "i", lit(lo), lit(hi), body2)])))
    # 2-D
    shapes = ((2, 2), (2, 3))
    for r, c in shapes:
        A = Decl("A", dims=(r, c))
        for i in range(-1, r + 3):
            for j in range(-1, c + 3):
                out.append(("subscript-2d", Model("M", [A, a], [("eq", V("a"), ("idx", "A", (lit(i), lit(j))))])))
            out.append(("subscript-2d-row", Model("M", [A, Decl("z", dims=(c,))], [("eq", V("z"), ("idx", "A", (lit(i), ("all",))))])))
        for j in range(-1, c + 3):
            out.append(("subscript-2d-col", Model("M", [A, Decl("z", dims=(r,))], [("eq", V("z"), ("idx", "A", (("all",), lit(j))))])))
        if tier == "thorough":
            for i in range(-1, r + 3):
                for lo in range(-1, c + 3):
                    for hi in range(-1, c + 3):
                        sl = ("idx", "A", (lit(i), ("slice", lit(lo), lit(hi))))
                        if hi - lo + 1 >= 1:  # (sum() of a row slice is not a shape-agnostic consumer in pymoca)
                            out.append(("subscript-2d-slice", Model("M", [A, Decl("z", dims=(hi - lo + 1,))], [("eq", V("z"), sl)])))
    # subscripts on a scalar / too many subscripts
    for i in (0, 1, 2):
        out.append(("subscript-on-scalar", Model("M", [Decl("k"), a], [("eq", V("a"), ("idx", "k", (lit(i),)))])))
    out.append(("too-many-subscripts", Model("M", [Decl("x", dims=(2,)), a], [("eq", V("a"), ("idx", "x", (N(1), N(1))))])))
    out += loop_programs(tier)
    out += step_programs(tier)
    out += two_loop_programs(tier)
    seen, uniq = set(), []
    for fam, m in out:  # (x[i] = b*i of the first loop family is also the c1=1, c0=0 member of loop-1d-lhs)
        t = m.text()
        if t not in seen:
            seen.add(t)
            uniq.append((fam, m))
    return uniq


def classify(model, env):
    """('in-range', segments) | ('out-of-range', why) | ('empty-range', None) by the reference."""
    try:
        segs = M.residuals(model.eqs, env)
    except M.OutOfRange as e:
        return "out-of-range", str(e)
    return "in-range", segs


def has_empty_range(model, env=None):
    env = env or {}

    def walk(n):
        if isinstance(n, tuple):
            if n and n[0] in ("slice", "for"):
                lo, hi = (n[1], n[2]) if n[0] == "slice" else (n[2], n[3])
                try:
                    if M.evn(hi, env) < M.evn(lo, env):
                        return True
                except Exception:
                    pass
            return any(walk(x) for x in n)
        if isinstance(n, list):
            return any(walk(x) for x in n)
        return False

    return walk(model.eqs)


def _mentions(n, var):
    if isinstance(n, tuple):
        return n == ("var", var) or any(_mentions(x, var) for x in n)
    return False


def _idx_nodes(n):
    if isinstance(n, (tuple, list)):
        if isinstance(n, tuple) and n and n[0] == "idx":
            yield n
        for x in n:
            yield from _idx_nodes(x)


def loop_profile(model, env):
    """Where the offending indices sit in the sequence a loop-variable subscript runs through (coverage only):
    None (no loop subscript) | 'valid' | 'high' (some index > n: CasADi itself would object) | 'low:first' |
    'low:last-only' (first evaluated index valid, the sequence ends below 1) | 'low:interior-only' (both ends
    valid) | 'low:first+last'.  The 'low' classes are the ones only pymoca's own test can reject."""
    seqs = []
    for e in model.eqs:
        if e[0] != "for":
            continue
        try:
            lo, hi = int(M.evn(e[2], env)), int(M.evn(e[3], env))
        except Exception:
            continue
        if hi < lo:
            continue
        for node in _idx_nodes(e[4]):
            shape = np.shape(env[node[1]])
            for d, sub in enumerate(node[2]):
                if sub[0] in ("all", "slice") or d >= len(shape) or not _mentions(sub, e[1]):
                    continue
                seqs.append(([int(M.evn(sub, dict(env, **{e[1]: i}))) for i in range(lo, hi + 1)], shape[d]))
    if not seqs:
        return None
    if any(v > n for vals, n in seqs for v in vals):
        return "high"
    out = "valid"
    for vals, n in seqs:
        low = [k for k, v in enumerate(vals) if v < 1]
        if not low:
            continue
        first, last = 0 in low, len(vals) - 1 in low
        if len(vals) == 1 or (first and not last):
            return "low:first"
        out = "low:first+last" if first else "low:last-only" if last else "low:interior-only"
    return out


def check(job):
    fam, model, seed = job
    text = model.text()
    env = c11.values_for(model, 0, seed)
    kind, info = classify(model, env)
    prof = loop_profile(model, env)
    empty = has_empty_range(model, env)
    try:
        cm = cas.generate(text, model.name)
        cm.dae_residual_function
        err = None
    except Exception as e:
        err = e
    viol = []
    cls = kind if not empty else "empty-range"
    if empty:
        # legal Modelica; either an empty selection or an error is accepted (DESIGN.md C23): not judged
        return {"cls": cls, "viol": viol, "fam": fam, "prof": None}
    if kind == "out-of-range":
        if err is None:
            try:
                got = cas.residual(cm, env, time=env["time"])
            except Exception as e:
                got = "evaluation raises %r" % e
            viol.append(("out-of-range-accepted:" + fam, "%s, but the model generates; residual %r\n%s" % (info, got, text), {"text": text}))
    else:
        lenient = getattr(model, "lenient", False)
        if lenient:
            cls = "in-range, rejection tolerated"
        if err is not None and lenient:
            pass
        elif err is not None:
            viol.append(("in-range-rejected:%s:%s" % (fam, common.exc_sig(err)), "all subscripts are in range but generation raises %r\n%s" % (err, text), {"text": text}))
        else:
            for p in range(3):
                envp = c11.values_for(model, p, seed)
                segs = M.residuals(model.eqs, envp)
                got = cas.residual(cm, envp, time=envp["time"])
                want = np.concatenate(segs) if segs else np.zeros(0)
                if not M.same_multiset(got, want):
                    viol.append(("wrong-element:" + fam, "residual %r, the subscripted elements give %r\n%s" % (got, want.tolist(), text), {"text": text}))
                    break
    return {"cls": cls, "viol": viol, "fam": fam, "prof": prof}


def run(ctx):
    progs = programs(ctx.tier)
    with common.Pool() as pool:
        res = pool.map(check, [(f, m, ctx.seed) for f, m in progs], chunksize=4)
    per, cls, prof = {}, {}, {}
    for (fam, m), r in zip(progs, res):
        per[fam] = per.get(fam, 0) + 1
        cls[r["cls"]] = cls.get(r["cls"], 0) + 1
        if r["prof"] is not None:
            prof[r["prof"]] = prof.get(r["prof"], 0) + 1
        for sig, msg, case in r["viol"]:
            ctx.violation(sig, msg, case)
    for k in (0, len(progs) // 2, len(progs) - 1):
        ctx.sample({"family": progs[k][0], "model": progs[k][1].text()})
    ctx.coverage.update(
        {
            "evaluations": len(progs),
            "distinct_nontrivial": cls.get("out-of-range", 0),
            "by_reference_class": cls,
            "per_family": per,
            "loop_subscript_sequences": prof,
            "exhaustive": True,
            "rule": "full window product: 1-D arrays of size 1..3 with every subscript in [-1, n+2] on either side, every slice "
            "lo:hi over the window (as z = x[lo:hi], x[lo:hi] = z and the shape-agnostic s = sum(x[lo:hi])), every for-loop "
            "lo:hi over the window with subscripts x[i], x[i+1], x[i-1]; 2x2 and 2x3 matrices with every (i, j), (i, :) and "
            "(:, j) over the window (thorough: also A[i, lo:hi]); subscripts on a scalar. Loop-variable subscripts f(i): for "
            "every non-empty loop lo:hi with 0 <= lo <= hi <= n+2 every affine f = c0 + c1*i, c1 in {-2,-1,1,2}, with the first "
            "evaluated index anywhere in [-1, n+2], and every (i-m)*(i-m)+c and c-(i-m)*(i-m) with the vertex m in lo..hi and "
            "c in [-1, n+2]; as b*i = x[f] and x[f] = b*i on x[n], n = 1..3 (thorough: 1..4), as the row and as the column "
            "subscript of A[2,3] and A[3,2] (thorough: also 2x2, 3x3, both sides, and A[f,:] / A[:,f] under sum) with the "
            "other subscript every valid constant (quick: the last one for the quadratic forms), and with size, upper loop "
            "bound and subscript spelled relative to an Integer parameter (Real x[n]; for i in lo:n+k; x[n+k'-i]; thorough: "
            "also constant, also the quadratic forms). Ranges with a step: x[lo:st:hi] (under sum and as z = ...) with lo, hi "
            "over the window and for i in lo:st:hi (lo >= 0) with x[i] and x[n+1-i], st in {1,2} (thorough: 3), the reference "
            "being the explicit element list lo, lo+st, ... <= hi. Non-trivial = the reference says some subscript is out of range (the "
            "case the property is about); loop_subscript_sequences says where in the evaluated sequence the offending index "
            "sits (the low:* classes are rejected by nothing but pymoca's own test).",
        }
    )
    ctx.assumptions.append("rejection may come from generate() or from building the residual function; empty ranges are not judged")
    ctx.assumptions.append(
        "the start of a for range is a non-negative literal and a step is a positive literal: pymoca reads both with .value (a "
        "unary minus or a parameter there raises for every model; negative steps are outside its supported subset); a "
        "stepped slice whose stop lies beyond n while its last element does not (x[1:2:4] of x[3]) may be rejected; "
        "subscripts taken from an Integer array (x[k[i]]), if-expressions and div/mod in a subscript are rejected by pymoca "
        "for every model and are not in the alphabet"
    )


def replay(case):
    for fam, m in programs("thorough"):
        if m.text() == case["text"]:
            r = check((fam, m, 0))
            print(m.text(), [x[1] for x in r["viol"]] or "ok")
            return not r["viol"]
    return True
