"""C12 -- representation-only options (unroll_loops, inline_functions, expand_mx) do not change the
model's meaning.

E4 over configurations: all 8 settings x every model of the C11 families that has a loop or a function
call (plus loop+function and delay models) x the loop-index families of this module: loops (for-equations,
initial for-equations, for-statements of functions, nested loops) whose bodies reference the same array
through up to 2 (thorough: 3) subscripts, each drawn from a fixed set of forms of the loop variable
(identity, offsets, stride, reversed, non-linear, through a user function of Integer type), over every
loop length 1..4.  Variables (names, order, Python types, attribute values, outputs, delay states) must be
identical to the default setting and the four output functions must agree numerically with it on the
grid; where the reference evaluator (vf.ref.mast, C11's machinery) covers the model, the residuals of
every setting are also compared with the reference, top-level equation by top-level equation.
"""
import itertools

import numpy as np

from vf.checks import c11
from vf.core import cas, common
from vf.ref import expr as X
from vf.ref import mast as M
from vf.ref.mast import B, N, V, Decl, Func, Model

LEVEL = "exploration"
OPTS = ("unroll_loops", "inline_functions", "expand_mx")
DEFAULT = (True, True, False)


def extra_models():
    out = []
    u, y = Decl("u"), Decl("y")
    f = Func("f", [u], [y], [], [("assign", V("y"), B("+", B("*", N(2), V("u")), N(1))), ("forst", "i", N(1), N(2), [("assign", V("y"), B("+", V("y"), V("i")))])])
    i = V("i")
    for n in (2, 3):
        x, z = Decl("x", dims=(n,)), Decl("z", dims=(n,))
        out.append(("loop-with-function", Model("M", [x, z], [("for", "i", N(1), N(n), [("eq", ("idx", "x", (i,)), ("call", "f", (("idx", "z", (i,)),)))])], funcs=[f])))
        out.append(("loop-with-function", Model("M", [x, z, Decl("b")], [("for", "i", N(1), N(n), [("eq", ("idx", "x", (i,)), B("+", ("call", "f", (V("b"),)), i))])], funcs=[f])))
    p = Decl("p", "Real", "parameter", value=N(0.5))
    out.append(("delay", Model("M", [Decl("x"), Decl("y"), p], [("eq", V("y"), ("call", "delay", (V("x"), V("p")))), ("eq", ("der", V("x")), V("y"))])))
    out.append(("delay", Model("M", [Decl("x"), Decl("y"), p], [("eq", V("y"), ("call", "delay", (B("+", B("*", N(2), V("x")), V("p")), B("*", N(2), V("p"))))), ("eq", ("der", V("x")), V("y"))])))
    for n in (2, 3):
        x, z = Decl("x", dims=(n,)), Decl("z", dims=(n,))
        out.append(("delay-in-loop", Model("M", [x, z, p], [("for", "i", N(1), N(n), [("eq", ("idx", "z", (i,)), ("call", "delay", (("idx", "x", (i,)), V("p"))))]), ("eq", ("der", V("x")), V("z"))])))
    return out


# ---- loop-index families ----------------------------------------------------------------------------------
#
# A loop body that references ONE array through several subscripts, each a form of the loop variable.  The
# anchored code (Generator.get_indexed_symbol / ForLoop.register_indexed_symbol / get_integer) treats the
# forms differently: the bare loop variable is recognised syntactically, everything else is evaluated through
# a CasADi function of the loop variable that is inlined or not (inline_functions) and mapped inline or
# serially (unroll_loops) over the loop values.

SIZE = 26  # every form stays <= 25 for a loop variable <= 5


def index_forms():
    """(name, builder(loop variable, upper bound)) -- the subscript alphabet."""
    one, two = N(1), N(2)
    return [
        ("v", lambda v, n: v),
        ("v+1", lambda v, n: B("+", v, one)),
        ("v-1", lambda v, n: B("-", v, one)),
        ("2*v", lambda v, n: B("*", two, v)),
        ("n+1-v", lambda v, n: B("-", B("+", n, one), v)),
        ("v*v", lambda v, n: B("*", v, v)),
        ("v*(v+1)/2", lambda v, n: B("/", B("*", v, B("+", v, one)), two)),
        ("f(v)", lambda v, n: ("call", "f", (v,))),
        ("f(v)+1", lambda v, n: B("+", ("call", "f", (v,)), one)),
        ("f(v)-1", lambda v, n: B("-", ("call", "f", (v,)), one)),
        # piecewise constant / piecewise affine in the loop variable (slope 0 resp. 1 almost everywhere, with a jump)
        # through an Integer function with an if-expression (pymoca does not take an if-expression written inline
        # in a subscript under any setting)
        ("z(v)", lambda v, n: ("call", "z", (v,))),
        ("z(v)+v", lambda v, n: B("+", ("call", "z", (v,)), v)),
    ]


PIECEWISE = ("z(v)", "z(v)+v")
Z_FUNC = Func("z", [Decl("u", "Integer")], [Decl("y", "Integer")], [], [("assign", V("y"), ("if", B(">", V("u"), N(2)), N(4), N(1)))])


def int_function(variant):
    """Integer function of an Integer argument used inside subscripts."""
    u, y = Decl("u", "Integer"), Decl("y", "Integer")
    if variant == "lin":
        body = B("+", V("u"), N(3))
    else:  # non-linear: 1, 3, 7, 13, 21
        body = B("+", B("*", V("u"), B("-", V("u"), N(1))), N(1))
    return Func("f", [u], [y], [], [("assign", V("y"), body)])


REAL_G = Func("g", [Decl("u")], [Decl("y")], [], [("assign", V("y"), B("+", B("*", N(2), V("u")), N(1)))])
KINDS_QUICK = ("rhs", "lhs", "der", "call", "call2", "fstmt")
KINDS_MORE = ("col", "row", "init", "nested-value", "nested-index")


def _weighted(refs):
    e = refs[0]
    for k, r in enumerate(refs[1:], 1):
        e = B("+", e, B("*", N(2**k), r))
    return e


def index_model(kind, names, lo, length, fvariant="lin", whole=False):
    """One model of the loop-index family, or None when a subscript leaves 1..SIZE (checked with the
    reference evaluator) or the kind needs more subscripts than given."""
    forms = dict(index_forms())
    hi = lo + length - 1
    in_function = kind == "fstmt"
    var = V("k") if in_function else V("i")
    bound = N(hi) if in_function else V("n")
    subs = [forms[nm](var, bound) for nm in names]
    funcs = {}
    uses_f = any(nm.startswith("f(") for nm in names)
    if uses_f:
        funcs["f"] = int_function(fvariant)
    if any(nm.startswith("z(") for nm in names):
        funcs["z"] = Z_FUNC
    for v in range(lo, hi + 1):  # keep the model inside pymoca's (and Modelica's) domain: 1 <= subscript <= SIZE
        for sub in subs:
            val = M.evn(sub, {var[1]: v, "n": hi}, funcs)
            if int(val) != val or not 1 <= int(val) <= (hi if whole else SIZE):
                return None
    pn = Decl("n", "Integer", "parameter", value=N(hi))
    # whole: the indexed array has exactly as many elements as the loop has iterations, so a permuting
    # subscript visits the whole vector in another order
    x, y, b = Decl("x", dims=(hi,)), Decl("y", dims=(hi if whole else SIZE,)), Decl("b")
    xi = ("idx", "x", (var,))
    yr = [("idx", "y", (sub,)) for sub in subs]
    fl = list(funcs.values())
    loop = lambda body: ("for", var[1], N(lo), V("n"), body)  # noqa: E731
    if kind == "rhs":
        return Model("M", [pn, x, y], [loop([("eq", xi, _weighted(yr))])], funcs=fl)
    if kind in ("lhs", "der", "init"):
        lhs = ("der", yr[0]) if kind == "der" else yr[0]
        rhs = B("+", B("*", N(2), _weighted(yr[1:])), xi) if len(yr) > 1 else xi
        eq = loop([("eq", lhs, rhs)])
        if kind == "init":
            return Model("M", [pn, x, y, b], [("eq", V("b"), N(1))], [eq], funcs=fl)
        return Model("M", [pn, x, y], [eq], funcs=fl)
    if kind == "call":
        rhs = ("call", "g", (yr[0],))
        if len(yr) > 1:
            rhs = B("-", rhs, B("*", N(2), _weighted(yr[1:])))
        return Model("M", [pn, x, y], [loop([("eq", xi, rhs)])], funcs=fl + [REAL_G])
    if kind == "call2":  # the same user function applied to every differently subscripted element
        if len(yr) < 2:
            return None
        return Model("M", [pn, x, y], [loop([("eq", xi, _weighted([("call", "g", (r,)) for r in yr]))])], funcs=fl + [REAL_G])
    if kind in ("col", "row"):
        w = Decl("w", dims=(SIZE, 2) if kind == "col" else (2, SIZE))
        wr = [("idx", "w", (sub, N(2)) if kind == "col" else (N(2), sub)) for sub in subs]
        return Model("M", [pn, x, w], [loop([("eq", xi, _weighted(wr))])], funcs=fl)
    if kind in ("nested-value", "nested-index"):
        extra = V("o") if kind == "nested-value" else ("idx", "y", (V("o"),))
        inner = loop([("eq", xi, B("+", _weighted(yr), extra))])
        return Model("M", [pn, x, y], [("for", "o", N(1), N(2), [inner])], funcs=fl)
    if kind == "fstmt":
        v = Decl("v", dims=(SIZE,))
        vr = [("idx", "v", (sub,)) for sub in subs]
        term = B("*", var, vr[0]) if len(vr) == 1 else B("+", B("*", var, vr[0]), B("*", N(2), _weighted(vr[1:])))
        h = Func("h", [v], [Decl("s")], [], [("assign", V("s"), N(0)), ("forst", "k", N(lo), N(hi), [("assign", V("s"), B("+", V("s"), term))])])
        return Model("M", [Decl("c"), y], [("eq", V("c"), ("call", "h", (V("y"),)))], funcs=fl + [h])
    raise ValueError(kind)


def fam_index(tier):
    names = [nm for nm, _ in index_forms()]
    plans = []  # (kind, number of subscripts, lower bounds, loop lengths, function variant)
    every, some = (1, 2, 3, 4), (2, 4)
    for kind in ("rhs", "lhs", "der"):
        plans.append((kind, 1, (2,), every, "lin"))
    plans.append(("rhs", 2, (2,), every, "lin"))
    for kind in KINDS_QUICK[1:]:
        plans.append((kind, 2, (2,), some, "lin"))
    if tier == "thorough":
        for kind in KINDS_QUICK[1:]:
            plans.append((kind, 2, (2,), (1, 3), "lin"))
        for kind in ("rhs", "lhs", "der"):
            plans.append((kind, 1, (1,), every, "lin"))
        for kind in KINDS_QUICK:
            plans.append((kind, 2, (1,), every, "lin"))
        for kind in KINDS_MORE:
            plans.append((kind, 2, (1, 2), every, "lin"))
        plans.append(("rhs", 2, (1, 2), every, "quad"))
        plans.append(("rhs", 3, (2,), every, "lin"))
    out, skipped = [], 0
    # the whole vector visited in a non-identity order (array size = number of iterations)
    for kind in ("rhs", "lhs", "der", "call"):
        for combo in (("n+1-v",), ("n+1-v", "v")):
            for length in (2, 3, 4):
                m = index_model(kind, combo, 1, length, "lin", whole=True)
                if m is not None:
                    m.forms = combo
                    out.append(("index-whole-" + kind, m))
    near = ("v", "v+1", "v-1")
    for kind, nsub, los, lengths, fv in plans:
        for combo in itertools.product(names, repeat=nsub):
            if nsub > 1 and tier == "quick" and any(nm in PIECEWISE for nm in combo) and not all(nm in PIECEWISE or nm in near for nm in combo):
                continue  # quick: the piecewise forms next to the loop variable and its neighbours only
            if fv != "lin" and not any(nm.startswith("f(") for nm in combo):
                continue  # the same text as the "lin" plan
            for lo in los:
                for length in lengths:
                    m = index_model(kind, combo, lo, length, fv)
                    if m is None:
                        skipped += 1
                        continue
                    m.forms = combo
                    out.append(("index-" + kind, m))
    fam_index.skipped = skipped
    return out


def index_values(model, point, seed):
    """Grid point for the loop-index models: every array element a different non-integer value (so that a
    wrong element, a swapped pair or a reused element changes a weighted sum), both signs."""
    env = {}
    funcs = {f.name: f for f in model.funcs}
    shift = 0.0625 * ((point * 7 + seed * 3) % 13)
    for k, d in enumerate(model.decls):
        if d.prefix in ("parameter", "constant") and d.value is not None:
            env[d.name] = M.evn(d.value, env, funcs)
            continue
        dims = tuple(int(M.evn(x, env, funcs)) if isinstance(x, tuple) else int(x) for x in d.dims)
        n = int(np.prod(dims)) if dims else 1
        for name, off in ((d.name, 0.0), ("der(%s)" % d.name, 0.4375)):
            vals = [(-1) ** (j + point) * (1.75 + 1.25 * j + 0.3125 * k) + shift + off for j in range(n)]
            env[name] = np.array(vals).reshape(dims) if dims else vals[0]
    env["time"] = 0.5 + point
    return env


NO_REFERENCE = ("delay", "delay-in-loop")  # delay() is outside the reference evaluator


def models(tier):
    ms = c11.fam_for(tier) + c11.fam_functions(tier) + extra_models() + fam_index(tier)
    return ms


def snapshot(m):
    """Everything the statement says must not change, in comparable form."""
    vs = []
    for g in ("states", "der_states", "alg_states", "inputs", "parameters", "constants"):
        for v in getattr(m, g):
            vs.append((g, v.symbol.name(), tuple(v.symbol.shape), v.python_type.__name__, tuple(repr(getattr(v, a)) for a in ("value", "min", "max", "start", "fixed", "nominal"))))
    return {"variables": vs, "outputs": list(m.outputs), "delay_states": list(m.delay_states)}


def functions(m):
    """The four output functions, built once per generated model (each access of the property rebuilds it)."""
    return {name: getattr(m, name + "_function") for name in ("dae_residual", "initial_residual", "delay_arguments", "variable_metadata")}


def evaluate(m, values, fs=None):
    import casadi as ca

    fs = fs or functions(m)
    args = cas.arg_vectors(m, values, time=values.get("time", 0.0), default=0.3)
    out = {}
    for name in ("dae_residual", "initial_residual", "delay_arguments"):
        out[name] = [np.array(x).flatten(order="F").tolist() for x in cas.call(fs[name], args)]
    pv = []
    for v in m.parameters:
        pv += cas.flat(values.get(v.symbol.name(), 0.3), v.symbol.shape)
    out["variable_metadata"] = [np.array(ca.DM(o)).tolist() for o in fs["variable_metadata"](ca.DM(pv))]
    return out


def generate_all(text, name):
    """setting -> generated and simplified model, or the exception.  The text is parsed once (uncached) and
    every setting works on its own unpickled copy of the tree, as pymoca's parse cache would hand it out."""
    import pickle

    from pymoca import parser
    from pymoca.backends.casadi import generator

    tree = parser.parse(text, bypass_cache=True)
    if tree is None:
        raise SyntaxError("pymoca reports a syntax error")
    blob = pickle.dumps(tree)
    built = {}
    for setting in itertools.product((True, False), repeat=3):
        opts = dict(zip(OPTS, setting))
        try:
            m = generator.generate(pickle.loads(blob), name, dict(opts))
            m.simplify(opts)
            built[setting] = m
        except Exception as e:
            built[setting] = e
    return built


DECOY = """model Decoy
  Real x(start = 1);
  Real y;
  input Real u;
equation
  der(x) = -3 * x + u;
  y = 7 * x + 2;
end Decoy;
"""


def _interleave_other_model():
    """Between generating the settings of the model under test and reading their functions, another model is
    compiled with expand_mx and its functions are built and called -- as a caller that compiles a batch of
    models and evaluates them afterwards would do.  State that the representation options keep outside the
    model object (per process, per class) would show up as a difference between settings."""
    from pymoca import parser
    from pymoca.backends.casadi import generator

    opts = {"expand_mx": True, "unroll_loops": False, "inline_functions": False}
    d = generator.generate(parser.parse(DECOY, bypass_cache=True), "Decoy", dict(opts))
    d.simplify(opts)
    evaluate(d, {"x": 1.5, "der(x)": 0.25, "y": -0.5, "u": 2.0, "time": 0.0})


def close(a, b):
    if isinstance(a, (list, tuple)):
        return isinstance(b, (list, tuple)) and len(a) == len(b) and all(close(x, y) for x, y in zip(a, b))
    if a != a or b != b:
        return a != a and b != b
    if abs(a) == float("inf") or abs(b) == float("inf"):
        return a == b
    return abs(a - b) <= 1e-9 * max(1.0, abs(a), abs(b))


def reference(model, env):
    """Reference residual segments (dae, initial), one per top-level equation; None where undefined."""
    funcs = {f.name: f for f in model.funcs}
    try:
        return {"dae_residual": M.residuals(model.eqs, env, funcs), "initial_residual": M.residuals(model.init_eqs, env, funcs)}
    except X.Undefined:
        return None


def against_reference(vals, ref):
    """Name of the first residual function that is not the reference's, top-level equation by equation
    (entries of one equation as a multiset: the order inside a loop is representation), or None."""
    for name in ("dae_residual", "initial_residual"):
        got = vals[name][0] if vals[name] else []
        segs = ref[name]
        if len(got) != sum(len(g) for g in segs):
            return name, got, [g.tolist() for g in segs]
        pos = 0
        for g in segs:
            if not M.same_multiset(got[pos : pos + len(g)], g):
                return name, got[pos : pos + len(g)], g.tolist()
            pos += len(g)
    return None


def _r(x):
    return [_r(v) for v in x] if isinstance(x, (list, tuple)) else round(float(x), 9)


def tag_of(setting):
    return ",".join("%s=%s" % (o, v) for o, v in zip(OPTS, setting) if v != dict(zip(OPTS, DEFAULT))[o]) or "default"


def check(job):
    fam, model, seed = job
    text = model.text()
    case = {"text": text}
    forms = getattr(model, "forms", None)
    label = "%s%s" % (text, " subscript forms %r" % (forms,) if forms else "")
    try:
        built = generate_all(text, model.name)
    except Exception as e:
        return {"viol": [("parse-raises:%s:%s" % (fam, common.exc_sig(e)), "the model does not parse: %r\n%s" % (e, label), case)], "n": 0, "nref": 0}
    _interleave_other_model()
    base = built[DEFAULT]
    if isinstance(base, Exception):
        return {"viol": [("default-raises:%s:%s" % (fam, common.exc_sig(base)), "default options do not generate: %r\n%s" % (base, label), case)], "n": 0, "nref": 0}
    viol = []
    snap0 = snapshot(base)
    values = index_values if fam.startswith("index-") else c11.values_for
    points = [values(model, p, seed) for p in range(3)]
    refs = [reference(model, env) if fam not in NO_REFERENCE else None for env in points]
    try:
        fs0 = functions(base)
        vals0 = [evaluate(base, env, fs0) for env in points]
    except Exception as e:
        return {"viol": [("default-eval-raises:" + fam, "cannot evaluate the default model: %r\n%s" % (e, label), case)], "n": 0, "nref": 0}
    n = nref = 0
    off = {}  # setting -> (function name, got, want) where the setting is not the reference
    for env, v0, ref in zip(points, vals0, refs):
        if ref is not None:
            nref += 1
            bad = against_reference(v0, ref)
            if bad and DEFAULT not in off:
                off[DEFAULT] = bad
    for setting, m in built.items():
        if setting == DEFAULT:
            continue
        tag = tag_of(setting)
        if isinstance(m, Exception):
            viol.append(("option-raises:%s:%s:%s" % (fam, tag, common.exc_sig(m)), "with %s the model no longer generates: %r\n%s" % (tag, m, label), case))
            continue
        n += 1
        snap = snapshot(m)
        for k in snap0:
            if snap[k] != snap0[k]:
                viol.append(("variables-differ:%s:%s:%s" % (fam, tag, k), "with %s %s are %r, default %r\n%s" % (tag, k, snap[k], snap0[k], label), case))
        differs = False
        fs = None
        for env, v0, ref in zip(points, vals0, refs):
            try:
                fs = fs or functions(m)
                v = evaluate(m, env, fs)
            except Exception as e:
                viol.append(("option-eval-raises:%s:%s" % (fam, tag), "with %s the functions cannot be evaluated: %r\n%s" % (tag, e, label), case))
                break
            bad = [k for k in v0 if not close(v[k], v0[k])]
            if bad and not differs:
                differs = True
                viol.append(("function-differs:%s:%s:%s" % (fam, tag, "+".join(bad)), "with %s %s gives %r, default gives %r\n%s" % (tag, bad[0], v[bad[0]], v0[bad[0]], label), case))
            if ref is not None and setting not in off:
                r = against_reference(v, ref)
                if r:
                    off[setting] = r
    if DEFAULT in off:
        # A setting that leaves the reference while the default keeps it has already been reported above
        # (its values differ from the default's).  What the differential oracle cannot see is a fault that
        # the default setting shares: report it, and say whether every setting shares it.
        ok = [s for s, m in built.items() if not isinstance(m, Exception)]
        who = "all-settings" if len(off) == len(ok) else "default"
        name, got, want = off[DEFAULT]
        viol.append(
            (
                "reference-differs:%s:%s:%s" % (fam, who, name),
                "%s of the default setting (%d of %d settings leave the reference: %s) has entries %r for a top-level equation whose "
                "Modelica residual is %r\n%s" % (name, len(off), len(ok), ", ".join(sorted(tag_of(s) for s in off)), _r(got), _r(want), label),
                case,
            )
        )
    return {"viol": viol, "n": n, "nref": nref}


def run(ctx):
    ms = models(ctx.tier)
    with common.Pool() as pool:
        res = pool.map(check, [(f, m, ctx.seed) for f, m in ms], chunksize=8)
    n = nref = 0
    per = {}
    for (fam, m), r in zip(ms, res):
        n += r["n"]
        nref += r["nref"]
        per[fam] = per.get(fam, 0) + 1
        for sig, msg, case in r["viol"]:
            ctx.violation(sig, msg, case)
    for k in (0, len(ms) // 2, len(ms) - 1):
        ctx.sample({"family": ms[k][0], "model": ms[k][1].text()})
    nforms = len(index_forms())
    ctx.coverage.update(
        {
            "evaluations": n * 3,
            "reference_points": nref,
            "programs": len(ms),
            "distinct_nontrivial": len({m.text() for _, m in ms}),
            "configurations_per_program": 8,
            "per_family": per,
            "subscript_forms": [nm for nm, _ in index_forms()],
            "index_models_outside_bounds_skipped": fam_index.skipped,
            "exhaustive": True,
            "rule": "all 8 settings of (unroll_loops, inline_functions, expand_mx) for (a) every for-equation and function model of the C11 "
            "families plus loop-with-function-call, delay and delay-in-loop models and (b) the loop-index families: a loop over lo:n "
            "(n an Integer parameter, lo = 2 so that v-1 is a valid subscript) whose body references one array of %d elements through 1 or 2 "
            "subscripts, every ordered pair of the %d forms (v, v+1, v-1, 2*v, n+1-v, v*v, v*(v+1)/2, f(v), f(v)+1, f(v)-1; f a user "
            "function of Integer type) in the body kinds rhs (x[v] = y[A] + 2*y[B]; 1, 2, 3 and 4 iterations), lhs (y[A] = 2*y[B] + x[v]), "
            "der (der(y[A]) = ...), call (x[v] = g(y[A]) - 2*y[B]) and fstmt (for-statement of a function over an array input) "
            "(%s iterations)%s; "
            "models with a subscript outside 1..%d are left out.  Each non-default setting is compared with the default: variable "
            "lists/order/types/attributes/outputs/delay states identical, dae_residual, initial_residual, variable_metadata and "
            "delay_arguments functions equal on 3 grid points; every setting's residuals are also compared with the reference "
            "evaluator per top-level equation (all models but the delay ones).  Every model has a loop, a call or a delay."
            % (
                SIZE,
                nforms,
                "1, 2, 3 and 4" if ctx.tier == "thorough" else "2 and 4",
                "; thorough adds lo = 1 for every kind, the kinds col / row (2-D array, w[A, 2] / w[2, A]), init (initial "
                "for-equation), nested-value / nested-index (inner loop of a two-iteration outer loop, outer variable as value / as "
                "plain subscript), a non-linear f, and every ordered triple of forms in kind rhs"
                if ctx.tier == "thorough"
                else "",
                SIZE,
            ),
        }
    )
    ctx.assumptions += [
        "the default setting's meaning is C11's subject; the reference comparison is added so that a fault shared by the default "
        "setting (or by all settings) in the loop-index alphabet, which C11 does not enumerate, is not invisible to the differential oracle",
        "entries inside one top-level equation are compared with the reference as a multiset; between settings they are compared in order",
        "nested loops only in the subset pymoca generates: subscripts of the inner body use the inner variable, the outer variable "
        "appears as a value or as a plain subscript",
    ]


def replay(case):
    for fam, m in models("thorough"):
        if m.text() == case["text"]:
            r = check((fam, m, 0))
            print(case["text"], [x[1].split("\n")[0] for x in r["viol"]] or "ok")
            return not r["viol"]
    return True
