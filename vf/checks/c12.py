"""C12 -- representation-only options (unroll_loops, inline_functions, expand_mx) do not change the
model's meaning.

E4 over configurations: all 8 settings x every model of the C11 families that has a loop or a function
call (plus loop+function and delay models).  Variables (names, order, Python types, attribute values,
outputs, delay states) must be identical to the default setting and the four output functions must
agree numerically with it on the grid.
"""
import itertools

import numpy as np

from vf.checks import c11
from vf.core import cas, common
from vf.ref.mast import B, N, V, Decl, Func, Model

LEVEL = "exploration"
OPTS = ("unroll_loops", "inline_functions", "expand_mx")
DEFAULT = (True, True, False)


def extra_models():
    out = []
    u, y = Decl("u"), Decl("y")
    f = Func("f", [u], [y], [], [("assign", V("y"), B("+", B("*", N(2), V("u")), N(1))), ("forst", "i", N(1), N(2), [("assign", V("y"), B("+", V("y"), V("i")))])])
    i = V("i")
    for n in (2, 3):
        x, z = Decl("x", dims=(n,)), Decl("z", dims=(n,))
        out.append(("loop-with-function", Model("M", [x, z], [("for", "i", N(1), N(n), [("eq", ("idx", "x", (i,)), ("call", "f", (("idx", "z", (i,)),)))])], funcs=[f])))
        out.append(("loop-with-function", Model("M", [x, z, Decl("b")], [("for", "i", N(1), N(n), [("eq", ("idx", "x", (i,)), B("+", ("call", "f", (V("b"),)), i))])], funcs=[f])))
    p = Decl("p", "Real", "parameter", value=N(0.5))
    out.append(("delay", Model("M", [Decl("x"), Decl("y"), p], [("eq", V("y"), ("call", "delay", (V("x"), V("p")))), ("eq", ("der", V("x")), V("y"))])))
    out.append(("delay", Model("M", [Decl("x"), Decl("y"), p], [("eq", V("y"), ("call", "delay", (B("+", B("*", N(2), V("x")), V("p")), B("*", N(2), V("p"))))), ("eq", ("der", V("x")), V("y"))])))
    for n in (2, 3):
        x, z = Decl("x", dims=(n,)), Decl("z", dims=(n,))
        out.append(("delay-in-loop", Model("M", [x, z, p], [("for", "i", N(1), N(n), [("eq", ("idx", "z", (i,)), ("call", "delay", (("idx", "x", (i,)), V("p"))))]), ("eq", ("der", V("x")), V("z"))])))
    return out


def models(tier):
    ms = c11.fam_for(tier) + c11.fam_functions(tier) + extra_models()
    return ms


def snapshot(m):
    """Everything the statement says must not change, in comparable form."""
    vs = []
    for g in ("states", "der_states", "alg_states", "inputs", "parameters", "constants"):
        for v in getattr(m, g):
            vs.append((g, v.symbol.name(), tuple(v.symbol.shape), v.python_type.__name__, tuple(repr(getattr(v, a)) for a in ("value", "min", "max", "start", "fixed", "nominal"))))
    return {"variables": vs, "outputs": list(m.outputs), "delay_states": list(m.delay_states)}


def evaluate(m, values):
    import casadi as ca

    args = cas.arg_vectors(m, values, time=values.get("time", 0.0), default=0.3)
    out = {}
    for name in ("dae_residual", "initial_residual", "delay_arguments"):
        f = getattr(m, name + "_function")
        out[name] = [np.array(x).flatten(order="F").tolist() for x in cas.call(f, args)]
    pv = []
    for v in m.parameters:
        pv += cas.flat(values.get(v.symbol.name(), 0.3), v.symbol.shape)
    out["variable_metadata"] = [np.array(ca.DM(o)).tolist() for o in m.variable_metadata_function(ca.DM(pv))]
    return out


def close(a, b):
    if isinstance(a, (list, tuple)):
        return isinstance(b, (list, tuple)) and len(a) == len(b) and all(close(x, y) for x, y in zip(a, b))
    if a != a or b != b:
        return a != a and b != b
    if abs(a) == float("inf") or abs(b) == float("inf"):
        return a == b
    return abs(a - b) <= 1e-9 * max(1.0, abs(a), abs(b))


def check(job):
    fam, model, seed = job
    text = model.text()
    case = {"text": text}
    built = {}
    for setting in itertools.product((True, False), repeat=3):
        opts = dict(zip(OPTS, setting))
        try:
            m = cas.generate(text, model.name, opts)
            m.simplify(opts)
            built[setting] = m
        except Exception as e:
            built[setting] = e
    base = built[DEFAULT]
    if isinstance(base, Exception):
        return {"viol": [("default-raises:%s:%s" % (fam, common.exc_sig(base)), "default options do not generate: %r\n%s" % (base, text), case)], "n": 0}
    viol = []
    snap0 = snapshot(base)
    points = [c11.values_for(model, p, seed) for p in range(3)]
    try:
        vals0 = [evaluate(base, env) for env in points]
    except Exception as e:
        return {"viol": [("default-eval-raises:" + fam, "cannot evaluate the default model: %r\n%s" % (e, text), case)], "n": 0}
    n = 0
    for setting, m in built.items():
        if setting == DEFAULT:
            continue
        tag = ",".join("%s=%s" % (o, v) for o, v in zip(OPTS, setting) if v != dict(zip(OPTS, DEFAULT))[o])
        if isinstance(m, Exception):
            viol.append(("option-raises:%s:%s:%s" % (fam, tag, common.exc_sig(m)), "with %s the model no longer generates: %r\n%s" % (tag, m, text), case))
            continue
        n += 1
        snap = snapshot(m)
        for k in snap0:
            if snap[k] != snap0[k]:
                viol.append(("variables-differ:%s:%s:%s" % (fam, tag, k), "with %s %s are %r, default %r\n%s" % (tag, k, snap[k], snap0[k], text), case))
        for env, v0 in zip(points, vals0):
            try:
                v = evaluate(m, env)
            except Exception as e:
                viol.append(("option-eval-raises:%s:%s" % (fam, tag), "with %s the functions cannot be evaluated: %r\n%s" % (tag, e, text), case))
                break
            bad = [k for k in v0 if not close(v[k], v0[k])]
            if bad:
                viol.append(("function-differs:%s:%s:%s" % (fam, tag, "+".join(bad)), "with %s %s gives %r, default gives %r\n%s" % (tag, bad[0], v[bad[0]], v0[bad[0]], text), case))
                break
    return {"viol": viol, "n": n}


def run(ctx):
    ms = models(ctx.tier)
    with common.Pool() as pool:
        res = pool.map(check, [(f, m, ctx.seed) for f, m in ms], chunksize=2)
    n = 0
    per = {}
    for (fam, m), r in zip(ms, res):
        n += r["n"]
        per[fam] = per.get(fam, 0) + 1
        for sig, msg, case in r["viol"]:
            ctx.violation(sig, msg, case)
    for k in (0, len(ms) // 2, len(ms) - 1):
        ctx.sample({"family": ms[k][0], "model": ms[k][1].text()})
    ctx.coverage.update(
        {
            "evaluations": n * 3,
            "programs": len(ms),
            "distinct_nontrivial": len({m.text() for _, m in ms}),
            "configurations_per_program": 8,
            "per_family": per,
            "exhaustive": True,
            "rule": "all 8 settings of (unroll_loops, inline_functions, expand_mx) for every for-equation and function model of the C11 "
            "families plus loop-with-function-call, delay and delay-in-loop models; each non-default setting is compared with the "
            "default: variable lists/order/types/attributes/outputs/delay states identical, dae_residual, initial_residual, "
            "variable_metadata and delay_arguments functions equal on 3 grid points. Every model has a loop, a call or a delay.",
        }
    )


def replay(case):
    for fam, m in models("thorough"):
        if m.text() == case["text"]:
            r = check((fam, m, 0))
            print(case["text"], [x[1].split("\n")[0] for x in r["viol"]] or "ok")
            return not r["viol"]
    return True
