"""C27 -- assembling a library from several files is order-independent.

E4/E1: a small package library (package-level constant, nested package with its own constant, models that
use each other as component type / base class and the constants by dotted reference) is generated from a
base + a bounded number of feature deviations.  For each library EVERY split into 2-4 files is enumerated
(every choice of nested classes moved out into `within` files, every grouping of the moved classes of one
package into files, every grouping of the top-level classes into files without `within`; a package's own
file keeps its constants / imports) and for every split EVERY permutation of the files is merged through

  extend     parser.parse of each file + ast.Tree.extend, in that order (the first tree receives the others),
  parse_all  tools.compiler.parse_all on a directory / on an explicit file list (discovery order made to be
             the permutation), which extends an empty root tree by every file,
  api        pymoca.backends.casadi.api.transfer_model -> _compile_model's os.walk over a private model
             folder (+ library folders), cache off.

Oracle: for every class of the library the canonical flat model (pymoca.tree.flatten, symbols by name,
per-file declaration counters dropped) or the exception type is the same for every permutation and equals
that of the unsplit one-file library; for the api route the generated CasADi model (variables by name with
their attributes, DAE and initial residual on a grid) is compared in the same way.
"""
import hashlib
import itertools
import json
import os
import pickle
import shutil

from vf.core import cas, common

LEVEL = "exploration"


# ---------------------------------------------------------------------------------------------------------
# our own description of a library: a tree of classes, printed by us


class K:
    """One class.  elems: element lines (imports, constants, extends, components); kids: nested classes;
    body: equation / algorithm lines; short: right-hand side of a short class definition."""

    def __init__(self, kind, name, elems=(), body=(), kids=(), section="equation", short=None, prefix=""):
        self.kind, self.name, self.elems, self.body, self.kids = kind, name, list(elems), list(body), list(kids)
        self.section, self.short, self.prefix = section, short, prefix

    def own(self):
        """Does the class have content of its own besides nested classes?"""
        return bool(self.elems or self.body or self.short or self.prefix)


def walk(tops, prefix=()):
    """(path tuple, K) of all classes, depth first, source order."""
    for k in tops:
        p = prefix + (k.name,)
        yield p, k
        yield from walk(k.kids, p)


def cls_text(k, path, omit, ind=""):
    head = (k.prefix + " " if k.prefix else "") + k.kind + " " + k.name
    if k.short is not None:
        return ["%s%s = %s;" % (ind, head, k.short)]
    out = [ind + head]
    for e in k.elems:
        out.append(ind + "  " + e)
    for kid in k.kids:
        if path + (kid.name,) not in omit:
            out += cls_text(kid, path + (kid.name,), omit, ind + "  ")
    if k.body:
        out.append(ind + k.section)
        for e in k.body:
            out.append(ind + "  " + e)
    out.append("%send %s;" % (ind, k.name))
    return out


def file_text(tops, within, paths, omit):
    """A stored definition: optional within clause + the classes `paths` (all children of `within`), each
    printed without the nested classes in `omit`."""
    index = dict(walk(tops))
    out = []
    if within:
        out.append("within %s;" % ".".join(within))
    for p in paths:
        out += cls_text(index[p], p, omit)
    return "\n".join(out) + "\n"


# ---- the alphabet: base library + feature deviations ------------------------------------------------------

# Package constants carry distinct last identifiers, so the value a generated model reports for a constant
# named `<instance prefix>.<...>.<ident>` can be checked against this table (independent of pymoca).
CONSTANTS = {"c": 3.0, "d": 5.0, "kl": 7.0, "n": 2, "e": 11.0, "s": 13.0}

FEATURES = (
    "top-model",  # a model outside the package using P.B, P.Q.C and the constants by full name
    "import-class",  # P imports a model of a second top-level package L; B has a component of it
    "import-alias",  # P has `import LL = L;`, A refers to the constant LL.kl
    "nested-import",  # Q has `import LQ = L;`, C refers to LQ.kl (import of the nested package)
    "function",  # P has a function using P.c, A calls it
    "type-alias",  # P has `type T = Real(min = -1)`, A declares its variable with it
    "short-class",  # P has `model A2 = A(k = 2)`, B's component is an A2
    "dimension",  # P has `constant Integer n = 2`, A has an array of that size
    "start-attribute",  # B has a state whose start attribute is the nested package's constant
    "second-nested",  # a second nested package R with its own constant and a model using Q.C, R.e, Q.d
    "third-level",  # a package S inside Q with a constant and a model (within P.Q.S)
    "empty-nested",  # Q has no constant of its own: it can also exist only as a `within` placeholder
    "full-names",  # class references by full path (P.A, P.Q.d) instead of relative to the enclosing package
    "component-modification",  # B modifies its component with an expression over P.c (flatten only: CasADi rejects it)
    "encapsulated",  # Q is encapsulated: C's `extends A` must fail to resolve, in every order
    "protected-constant",  # Q's constant sits in a protected section
)
THOROUGH_ONLY = ("component-modification", "encapsulated", "protected-constant", "third-level")


def library(features):
    F = frozenset(features)
    full = "full-names" in F
    A = "P.A" if full else "A"
    qd = "P.c" if "empty-nested" in F else ("P.Q.d" if full else "Q.d")

    a_elems = [("T x;" if "type-alias" in F else "Real x;"), "parameter Real k = P.c;"]
    a_eq = "x = k + P.c"
    a_body = []
    if "import-alias" in F:
        a_eq += " + LL.kl"
    if "dimension" in F:
        a_elems.append("Real v[P.n];")
        a_body.append("v = {1, 2};")
    if "function" in F:
        a_elems.append("Real g;")
        a_body.append("g = %s(x);" % ("P.f" if full else "f"))
    ka = K("model", "A", a_elems, [a_eq + ";"] + a_body)

    comp_type = ("P.A2" if full else "A2") if "short-class" in F else A
    mod = "(k = 2 * P.c)" if "component-modification" in F else ""
    b_elems = ["%s a%s;" % (comp_type, mod), "Real y;"]
    b_eq = "y = a.x + " + qd
    b_body = []
    if "import-class" in F:
        b_elems.append("Leaf l;")
        b_eq += " + l.z"
    if "start-attribute" in F:
        b_elems.append("Real st(start = %s);" % qd)
        b_body.append("der(st) = -st;")
    kb = K("model", "B", b_elems, [b_eq + ";"] + b_body)

    c_eq = "q = x * %s + P.c" % qd
    if "nested-import" in F:
        c_eq += " + LQ.kl"
    kc = K("model", "C", ["extends %s;" % A, "Real q;"], [c_eq + ";"])
    q_elems = []
    if "nested-import" in F:
        q_elems.append("import LQ = L;")
    if "empty-nested" not in F:
        if "protected-constant" in F:
            q_elems += ["protected", "  constant Real d = 5;", "public"]
        else:
            q_elems.append("constant Real d = 5;")
    q_kids = [kc]
    if "third-level" in F:
        ke = K("model", "E", ["Real w;"], ["w = %s + P.c + %s;" % ("P.Q.S.s" if full else "S.s", qd)])
        q_kids.append(K("package", "S", ["constant Real s = 13;"], kids=[ke]))
    kq = K("package", "Q", q_elems, kids=q_kids, prefix="encapsulated" if "encapsulated" in F else "")

    p_elems = []
    if "import-class" in F:
        p_elems.append("import L.Leaf;")
    if "import-alias" in F:
        p_elems.append("import LL = L;")
    p_elems.append("constant Real c = 3;")
    if "dimension" in F:
        p_elems.append("constant Integer n = 2;")
    p_kids = []
    if "type-alias" in F:
        p_kids.append(K("type", "T", short="Real(min = -1)"))
    if "function" in F:
        p_kids.append(K("function", "f", ["input Real u;", "output Real r;"], ["r := u * P.c;"], section="algorithm"))
    p_kids.append(ka)
    if "short-class" in F:
        p_kids.append(K("model", "A2", short="%s(k = 2)" % A))
    p_kids += [kb, kq]
    if "second-nested" in F:
        kd = K("model", "D", ["%s qc;" % ("P.Q.C" if full else "Q.C"), "Real u;"], ["u = qc.q + %s + %s;" % ("P.R.e" if full else "R.e", qd)])
        p_kids.append(K("package", "R", ["constant Real e = 11;"], kids=[kd]))
    tops = []
    if F & {"import-class", "import-alias", "nested-import"}:
        l_kids = [K("model", "Leaf", ["Real z;"], ["z = 2 * L.kl;"])] if "import-class" in F else []
        tops.append(K("package", "L", ["constant Real kl = 7;"], kids=l_kids))
    tops.append(K("package", "P", p_elems, kids=p_kids))
    if "top-model" in F:
        tops.append(K("model", "M", ["P.B b;", "P.Q.C cc;", "Real w;"], ["w = b.y + cc.q + P.c * %s;" % ("P.c" if "empty-nested" in F else "P.Q.d")]))
    return tops


def libraries(tier):
    """Feature sets: the base library and every set of <= k deviations (k = 1 quick, 2 thorough)."""
    feats = [f for f in FEATURES if tier == "thorough" or f not in THOROUGH_ONLY]
    k = 1 if tier == "quick" else 2
    out = []
    for n in range(k + 1):
        for fs in itertools.combinations(feats, n):
            out.append(fs)
    return out


# ---- splits ----------------------------------------------------------------------------------------------


def partitions(items):
    """All set partitions of a list (blocks and items keep source order)."""
    items = list(items)
    if not items:
        yield []
        return
    first, rest = items[0], items[1:]
    for p in partitions(rest):
        yield [[first]] + p
        for i in range(len(p)):
            yield p[:i] + [[first] + p[i]] + p[i + 1 :]


def splits(tops, lo=2, hi=4):
    """Every split of the library into lo..hi files.

    Each nested class (all enclosing classes being packages) is either left inside its parent's text, or MOVED
    OUT into a file `within <parent>;`; a package without any content of its own whose nested classes are all
    moved out may also be DISSOLVED (no definition anywhere: it exists only as the placeholder pymoca makes for
    the `within` clauses naming it).  The moved classes of one parent are grouped into files in every way (set
    partitions), and so are the top-level classes (files without `within`).  A class is never cut in two.
    Returns a list of splits; a split is a list of files (within tuple, [class path, ...]) and the omit set."""
    classes = list(walk(tops))
    index = dict(classes)
    nested = [p for p, k in classes if len(p) > 1 and all(index[p[:i]].kind == "package" for i in range(1, len(p)))]
    out = []
    # state per class: 0 = stays in the parent's text (top level: in a root file), 1 = moved out, 2 = dissolved
    cand = [p for p, k in classes if len(p) == 1 or p in nested]

    def states(p):
        k = index[p]
        st = [0] if len(p) == 1 else [0, 1]
        if k.kind == "package" and not k.own() and k.kids:
            st.append(2)
        return st

    for choice in itertools.product(*[states(p) for p in cand]):
        st = dict(zip(cand, choice))
        ok = True
        for p in cand:
            if st[p] == 2:
                # every nested class must live elsewhere (moved out or dissolved), and at least one file names it
                kids = [p + (kid.name,) for kid in index[p].kids]
                if not all(st.get(q, 0) in (1, 2) for q in kids):
                    ok = False
            if len(p) > 1 and st.get(p[:-1], 0) == 2 and st[p] == 0:
                ok = False  # parent has no text to stay in
        if not ok:
            continue
        omit = frozenset(p for p in cand if len(p) > 1 and st[p] in (1, 2))
        moved = {}
        for p in cand:
            if len(p) > 1 and st[p] == 1:
                moved.setdefault(p[:-1], []).append(p)
        roots = [p for p in cand if len(p) == 1 and st[p] == 0]
        nmin = (1 if roots else 0) + len(moved)
        if nmin > hi:
            continue
        groups = [list(partitions(roots))] + [list(partitions(v)) for _, v in sorted(moved.items())]
        keys = [()] + [w for w, _ in sorted(moved.items())]
        for combo in itertools.product(*groups):
            files = []
            for w, blocks in zip(keys, combo):
                for b in blocks:
                    files.append((w, b))
            if lo <= len(files) <= hi:
                out.append({"files": files, "omit": omit})
    return out


def split_texts(tops, sp):
    return [file_text(tops, w, paths, sp["omit"]) for w, paths in sp["files"]]


def collisions(sp, perm):
    """(after, shared): `shared` = packages to which at least two files of the ordered merge contribute (through
    a `within` clause naming them, or by holding their definition) -- there Class._extend meets a class present
    on both sides; `after` = those whose own definition is merged AFTER a file that declares classes within
    them (the case the statement singles out).  Dotted names, sorted."""
    order = [sp["files"][i] for i in perm]
    defined_at = {}
    for i, (w, paths) in enumerate(order):
        for p in paths:
            defined_at[p] = i

    def home(q):
        """Index of the file holding q's own definition; None if q is dissolved (placeholder only)."""
        if q in defined_at:
            return defined_at[q]
        if q in sp["omit"] or len(q) == 1:
            return None
        return home(q[:-1])

    touch = {}
    for i, (w, paths) in enumerate(order):
        for j in range(1, len(w) + 1):
            touch.setdefault(w[:j], set()).add(i)
    after, shared = [], []
    for pk, idx in touch.items():
        h = home(pk)
        if h is not None:
            idx = idx | {h}
        if len(idx) >= 2:
            shared.append(".".join(pk))
            if h is not None and h > min(idx):
                after.append(".".join(pk))
    return sorted(after), sorted(shared)


# ---------------------------------------------------------------------------------------------------------
# running pymoca


def _strip(j):
    """Drop the per-file declaration counter `order` of symbols (it restarts in every file, so it differs
    between a split and the unsplit library by construction and carries no meaning across classes)."""
    if isinstance(j, dict):
        return {k: _strip(v) for k, v in j.items() if k != "order"}
    if isinstance(j, list):
        return [_strip(v) for v in j]
    return j


def flat_canon(tree, cls):
    from pymoca import ast as past
    from pymoca import tree as ptree

    try:
        flat = ptree.flatten(tree, past.ComponentRef.from_string(cls))
    except RecursionError:
        return ("exc", "RecursionError")
    except Exception as e:
        return ("exc", type(e).__name__)
    return ("ok", json.dumps(_strip(past.Node.to_json(flat)), sort_keys=True, default=repr))


def grid_value(name, point, seed):
    """Deterministic, hash-free value for a variable name."""
    h = 0
    for ch in name:
        h = (h * 131 + ord(ch)) % 1000003
    base = (0.37, -1.3, 2.1, 0.9, -0.55, 1.7, 3.3)
    return base[(h + point + seed) % 7] + 0.01 * ((h // 7 + 3 * point) % 23)


def model_canon(m, seed):
    """Variables by name (group, type, shape, attributes), DAE / initial residual at 3 grid points."""
    import numpy as np

    vars_ = {}
    for g in cas.GROUPS:
        for v in getattr(m, g):
            vars_[v.symbol.name()] = [g, v.python_type.__name__, list(v.symbol.shape)] + [repr(getattr(v, a)) for a in ("value", "start", "min", "max", "nominal", "fixed")]
    res = []
    for point in range(3):
        values = {n: grid_value(n, point, seed) for n in vars_}
        for initial in (False, True):
            r = cas.residual(m, values, initial=initial, time=0.5 + point, default=None)
            res.append([round(float(x), 9) for x in np.asarray(r, dtype=float)])
    return json.dumps({"vars": vars_, "residuals": res, "outputs": sorted(m.outputs)}, sort_keys=True)


# ---- state abstraction: structurally identical merged trees are evaluated once per worker ------------------
#
# Merging is always done for real.  What is skipped is flattening / generating from a merged tree whose complete
# structural dump (every attribute of every node, dict orders included, i.e. also the order in which classes were
# inserted) equals that of a tree already evaluated in this worker, and whose parent pointers are all consistent
# with the containment (so they carry no extra information).  flatten / generate read nothing else.

_MEMO = {}
_STATS = {"evaluated": 0, "memo_hits": 0}


def fingerprint(tree):
    from pymoca import ast as past

    ok = [tree.parent is None]

    def rec(c):
        for sub in c.classes.values():
            if sub.parent is not c:
                ok[0] = False
            rec(sub)

    rec(tree)
    if not ok[0]:
        return None  # stale parent pointers: evaluate for real, never memoise
    return hashlib.sha1(json.dumps(past.Node.to_json(tree), default=repr).encode()).hexdigest()


def eval_flat(tree, classes):
    fp = fingerprint(tree)
    key = ("flat", fp, tuple(classes))
    if fp is not None and key in _MEMO:
        _STATS["memo_hits"] += 1
        return _MEMO[key]
    _STATS["evaluated"] += 1
    res = {c: _digest(flat_canon(tree, c)) for c in classes}
    if fp is not None:
        _MEMO[key] = res
    return res


def _digest(outcome):
    """('ok', sha1 of the canonical text) | ('exc', type name): all the comparison needs (keeps the memo small)."""
    if outcome[0] == "ok":
        return ("ok", hashlib.sha1(outcome[1].encode()).hexdigest())
    return outcome[:2]


def pin_version():
    """pymoca bypasses its parse cache when its version ends in `.dirty` (uncommitted edits, e.g. a scratch tree
    with a candidate patch).  parse_all and the api parse through that cache; pin a clean synthetic version (as
    pymoca's own cache tests do) so that the same code path runs on an edited tree.  The cache folder is private
    to this worker and this run, so no entry written by other code can be served."""
    import pymoca

    if pymoca.__version__.endswith(".dirty"):
        pymoca.__version__ = pymoca.__version__[: -len(".dirty")] + ".c27"


_PARSED = {}


def fresh_tree(text):
    """An independent tree for a file text: the real parser (cache bypassed) once per distinct text and worker,
    afterwards a pickle round trip of that result (exactly what pymoca's own parse cache hands out)."""
    from pymoca import parser

    if text not in _PARSED:
        t = parser.parse(text, bypass_cache=True)
        if t is None:
            raise SyntaxError("pymoca reports a syntax error in a generated file:\n" + text)
        _PARSED[text] = pickle.dumps(t, protocol=-1)
        return t
    return pickle.loads(_PARSED[text])


def merge_extend(texts):
    """Route `extend`: the first parsed tree receives the others (as the CasADi api and the tests do)."""
    tree = None
    for t in texts:
        ft = fresh_tree(t)
        if tree is None:
            tree = ft
        else:
            tree.extend(ft)
    return tree


def _write_in_discovery_order(folder, texts, lister):
    """Create len(texts) empty .mo files in `folder`, ask `lister` (the subject's own discovery primitive) in
    which order it finds them, then write texts[i] into the i-th discovered file."""
    names = ["%s.mo" % n for n in ("Beta", "alpha", "Gamma", "delta")][: len(texts)]
    for n in names:
        open(os.path.join(folder, n), "w").close()
    found = lister(folder)
    if sorted(found) != sorted(os.path.join(folder, n) for n in names):
        raise RuntimeError("file discovery does not list the files created: %r" % (found,))
    for path, t in zip(found, texts):
        with open(path, "w", encoding="utf-8") as f:
            f.write(t)
    if lister(folder) != found:
        raise RuntimeError("file discovery order changed after writing the files")
    return found


def _list_compiler(folder):
    from pathlib import Path

    import tools.compiler as comp

    return [str(p) for p in comp.list_modelica_files([Path(folder)])]


def _list_walk(folder):
    import fnmatch

    out = []
    for root, _d, files in os.walk(folder, followlinks=True):
        for item in fnmatch.filter(files, "*.mo"):
            out.append(os.path.join(root, item))
    return out


def merge_parse_all(texts, mode):
    """Route `parse_all`.  mode 'dir': one directory argument, discovery order == texts order; mode 'files':
    explicit file arguments in texts order (named against that order)."""
    from pathlib import Path

    import tools.compiler as comp
    from pymoca import ast as past

    d = common.new_scratch("c27pa")
    try:
        if mode == "dir":
            want = _write_in_discovery_order(d, texts, _list_compiler)
            args = [Path(d)]
        else:
            want = []
            for i, t in enumerate(texts):
                p = os.path.join(d, "f%d.mo" % (len(texts) - i))
                with open(p, "w", encoding="utf-8") as f:
                    f.write(t)
                want.append(p)
            args = [Path(p) for p in want]
        tree = past.Tree(name="ModelicaTree")
        files, errors = comp.parse_all(args, tree)
        if [str(p) for p in files] != want:
            raise RuntimeError("parse_all visited %r, intended %r" % (files, want))
        if errors:
            raise SyntaxError("parse_all reports parse errors in generated files %r" % (errors,))
        return tree
    finally:
        shutil.rmtree(d, ignore_errors=True)


class _Known(Exception):
    """Raised by the seam below instead of generating from a merged tree that was evaluated before."""


class _GeneratorSeam:
    """Stands in for the module global `generator` of pymoca.backends.casadi.api during the first
    transfer_model call of a merge: it sees the tree _compile_model has just assembled."""

    def __init__(self, real, known):
        self.real, self.known, self.fp = real, known, None

    def generate(self, tree, name, options):
        self.fp = fingerprint(tree)
        if self.fp is not None and self.known(self.fp):
            raise _Known()
        return self.real.generate(tree, name, options)

    def __getattr__(self, a):
        return getattr(self.real, a)


def _api_one(api, folder, opts, c, seed, full=False):
    try:
        m = api.transfer_model(folder, c, dict(opts))
    except _Known:
        raise
    except RecursionError:
        return ("exc", "RecursionError")
    except Exception as e:
        return ("exc", type(e).__name__)
    if full:
        return ("ok", model_canon(m, seed), {v.symbol.name(): repr(v.value) for v in m.constants})
    return _digest(("ok", model_canon(m, seed)))


def api_models(texts, classes, mode, seed, full=False):
    """Route `api`: {class: digest of the canonical CasADi model | exception type} through transfer_model (cache
    off); full=True: the canonical text itself and the constants' values, never memoised.
    mode 'walk': all files in the model folder, os.walk order == texts order; mode 'libs': the first file in
    the model folder, the others each in a library folder of its own (some one level down), in texts order."""
    from pymoca.backends.casadi import api

    d = common.new_scratch("c27api")
    try:
        if mode == "walk":
            _write_in_discovery_order(d, texts, _list_walk)
            folder, opts = d, {"cache": False}
        else:
            dirs = []
            for i, t in enumerate(texts):
                top = os.path.join(d, "z%d" % (len(texts) - i))
                sub = os.path.join(top, "nested") if i % 2 else top
                os.makedirs(sub, exist_ok=True)
                with open(os.path.join(sub, "part.mo"), "w", encoding="utf-8") as f:
                    f.write(t)
                dirs.append(top)
            folder, opts = dirs[0], {"cache": False, "library_folders": dirs[1:]}
        if full:
            return {c: _api_one(api, folder, opts, c, seed, full=True) for c in classes}
        key = lambda fp: ("api", fp, tuple(classes), seed)  # noqa: E731
        seam = _GeneratorSeam(api.generator, lambda fp: key(fp) in _MEMO)
        out = {}
        api.generator = seam
        try:
            out[classes[0]] = _api_one(api, folder, opts, classes[0], seed)
        except _Known:
            _STATS["memo_hits"] += 1
            return _MEMO[key(seam.fp)]
        finally:
            api.generator = seam.real
        _STATS["evaluated"] += 1
        for c in classes[1:]:
            out[c] = _api_one(api, folder, opts, c, seed)
        if seam.fp is not None:
            _MEMO[key(seam.fp)] = out
        return out
    finally:
        shutil.rmtree(d, ignore_errors=True)


ROUTES = ("extend", "parse_all:dir", "parse_all:files", "api:walk", "api:libs")


def run_route(route, texts, classes, seed):
    """{class: outcome} for one ordered list of file texts."""
    if route == "extend":
        return eval_flat(merge_extend(texts), classes)
    if route.startswith("parse_all"):
        return eval_flat(merge_parse_all(texts, route.split(":")[1]), classes)
    if route.startswith("api"):
        return api_models(texts, classes, route.split(":")[1], seed)
    raise ValueError(route)


_REF = {}
_SPLITS = {}


def lib_splits(features):
    if features not in _SPLITS:
        tops = library(features)
        _SPLITS[features] = (tops, splits(tops))
    return _SPLITS[features]


def reference(features, kind, seed):
    """(unsplit text, class names, {class: outcome}) for the one-file library, observed as the route observes."""
    key = (tuple(features), kind, seed)
    if key not in _REF:
        tops = library(features)
        text = file_text(tops, (), [(k.name,) for k in tops], frozenset())
        classes = [".".join(p) for p, _ in walk(tops)]
        if kind == "flat":
            tree = fresh_tree(text)
            ref = {c: _digest(flat_canon(tree, c)) for c in classes}
        else:
            ref = api_models([text], classes, "walk", seed, full=True)
            # alphabet sanity, independent of the comparison: every constant a model of the unsplit library
            # reports carries the value our generator gave the package constant of that (last) name
            for c, r in ref.items():
                if r[0] == "ok":
                    for name, val in r[2].items():
                        want = CONSTANTS.get(name.split(".")[-1])
                        if want is None or (_is_number(val) and float(val) != float(want)):
                            raise AssertionError("unsplit library: %s reports constant %s = %s, declared %r\n%s" % (c, name, val, want, text))
            ref = {c: _digest(r) for c, r in ref.items()}
        _REF[key] = (text, classes, ref)
    return _REF[key]


def _is_number(s):
    try:
        float(s)
        return True
    except ValueError:
        return False


_DEP = {}


def dependent(features):
    """Classes whose reference flat model is NOT obtained from the class's own text alone (under its within
    clause): their outcome depends on what the merge brings together."""
    if features not in _DEP:
        tops = library(features)
        _text, classes, ref = reference(features, "flat", 0)
        index = dict(walk(tops))
        dep = set()
        for c in classes:
            p = tuple(c.split("."))
            omit = frozenset(p + (kid.name,) for kid in index[p].kids)
            if _digest(flat_canon(fresh_tree(file_text(tops, p[:-1], [p], omit)), c)) != ref[c]:
                dep.add(c)
        _DEP[features] = dep
    return _DEP[features]


def check_split(job):
    """One (library, split): every permutation through every requested route."""
    features, si, routes, seed = job
    tops, sps = lib_splits(features)
    sp = sps[si]
    texts = split_texts(tops, sp)
    dep = dependent(features)
    n = len(texts)
    perms = list(itertools.permutations(range(n)))
    rot = seed % len(perms)
    perms = perms[rot:] + perms[:rot]
    coll = {perm: collisions(sp, perm) for perm in perms}
    out = {"viol": [], "suppressed": 0, "files": n, "routes": {}, "nontrivial_ids": [], "own_after_ids": []}
    for perm in perms:
        after, shared = coll[perm]
        if shared:
            h = hashlib.sha1("\0".join(texts[i] for i in perm).encode()).hexdigest()[:16]
            out["nontrivial_ids"].append(h)
            if after:
                out["own_after_ids"].append(h)
    before_stats = dict(_STATS)
    for route in routes:
        kind = "api" if route.startswith("api") else "flat"
        unsplit, classes, ref = reference(features, kind, seed)
        results = {}
        for perm in perms:
            got = run_route(route, [texts[i] for i in perm], classes, seed)
            results[perm] = {c: got[c][:2] for c in classes}
        st = out["routes"].setdefault(route, {"ordered_merges": 0, "class_evaluations": 0, "nontrivial_class_evaluations": 0})
        seen = set()
        for perm in perms:
            after, shared = coll[perm]
            st["ordered_merges"] += 1
            st["class_evaluations"] += len(classes)
            if shared:
                st["nontrivial_class_evaluations"] += len(dep)
            for c in classes:
                got = results[perm][c]
                want = ref[c][:2]
                if got == want:
                    continue
                same_everywhere = all(results[q][c] == got for q in perms)
                clause = "differs-from-unsplit-in-every-order" if same_everywhere else "order-dependent"
                trigger = ("own-file-after-within:" + "+".join(after)) if after else "no-own-file-after-within"
                sig = "%s:%s:%s:%s" % (route.split(":")[0], clause, trigger, _outcome(want, got))
                if sig in seen:
                    out["suppressed"] += 1
                    continue
                seen.add(sig)
                other = "" if same_everywhere else "; another order gives %s" % _short(next(results[q][c] for q in perms if results[q][c] != got))
                msg = "library %s, route %s, files merged in order %s: class %s gives %s; the unsplit library gives %s%s\n%s" % (
                    "+".join(features) or "base",
                    route,
                    list(perm),
                    c,
                    _short(got),
                    _short(want),
                    other,
                    "\n".join("--- file %d ---\n%s" % (i, texts[i]) for i in perm),
                )
                case = {"features": list(features), "route": route, "files": [texts[i] for i in perm], "unsplit": unsplit, "cls": c, "seed": seed}
                out["viol"].append((sig, msg, case))
    out["evaluated"] = _STATS["evaluated"] - before_stats["evaluated"]
    out["memo_hits"] = _STATS["memo_hits"] - before_stats["memo_hits"]
    return out


def _outcome(want, got):
    if got[0] == "exc":
        return "raises-" + got[1]
    if want[0] == "exc":
        return "succeeds-where-unsplit-raises-" + want[1]
    return "different-model"


def _short(r):
    if r[0] == "exc":
        return "exception " + r[1]
    return "a model with digest " + r[1][:8]


def full_outcomes(case):
    """(merged, unsplit) outcome of the recorded class with the canonical texts, nothing memoised."""
    route, cls, seed = case["route"], case["cls"], case.get("seed", 0)
    if route.startswith("api"):
        want = api_models([case["unsplit"]], [cls], "walk", seed, full=True)[cls][:2]
        got = api_models(case["files"], [cls], route.split(":")[1], seed, full=True)[cls][:2]
    else:
        want = flat_canon(fresh_tree(case["unsplit"]), cls)
        tree = merge_extend(case["files"]) if route == "extend" else merge_parse_all(case["files"], route.split(":")[1])
        got = flat_canon(tree, cls)
    return got, want


def explain(got, want, limit=12):
    """Where two canonical texts differ (paths into the JSON), for the human reader."""
    if got[0] != "ok" or want[0] != "ok":
        return "merged: %s / unsplit: %s" % (got[0] if got[0] == "ok" else got[1], want[0] if want[0] == "ok" else want[1])
    out = []

    def rec(a, b, path):
        if len(out) >= limit:
            return
        if isinstance(a, dict) and isinstance(b, dict):
            for k in sorted(set(a) | set(b)):
                if k not in a:
                    out.append("%s/%s only in the unsplit library" % (path, k))
                elif k not in b:
                    out.append("%s/%s only in the merged files" % (path, k))
                else:
                    rec(a[k], b[k], path + "/" + k)
        elif isinstance(a, list) and isinstance(b, list) and len(a) == len(b):
            for i, (x, y) in enumerate(zip(a, b)):
                rec(x, y, "%s/%d" % (path, i))
        elif a != b:
            out.append("%s: merged %s, unsplit %s" % (path, json.dumps(a)[:80], json.dumps(b)[:80]))

    rec(json.loads(got[1]), json.loads(want[1]), "")
    return "; ".join(out[:limit]) or "identical"


QUICK_ALL_ROUTES = ((), ("top-model",))


def plan(tier):
    """[(features, routes)]: which routes are run on which library.

    quick: base library and base + top-level model through all five routes, the other single deviations through
    Tree.extend only (the routes differ in how they find, order and start merging the files, not in the merge).
    thorough: <= 1 deviation through all five routes, pairs of deviations through one variant of each route."""
    out = []
    for fs in libraries(tier):
        if tier == "quick":
            out.append((fs, ROUTES if fs in QUICK_ALL_ROUTES else ("extend",)))
        else:
            out.append((fs, ROUTES if len(fs) <= 1 else ("extend", "parse_all:dir", "api:walk")))
    return out


def run(ctx):
    pl = plan(ctx.tier)
    rot = ctx.seed % len(pl)
    pl = pl[rot:] + pl[:rot]
    jobs = []
    per_lib = {}
    for fs, routes in pl:
        tops, sps = lib_splits(fs)
        per_lib["+".join(fs) or "base"] = {"classes": len(list(walk(tops))), "splits": len(sps), "routes": len(routes)}
        for si in range(len(sps)):
            jobs.append((fs, si, routes, ctx.seed))
    # jobs stay grouped by library and a worker takes a run of neighbouring splits: their merged trees repeat
    pin_version()
    with common.Pool(init=pin_version) as pool:
        res = pool.map(check_split, jobs, chunksize=max(1, min(24, len(jobs) // (pool.jobs * 6))))
    per_route = {}
    nontrivial, own_after = set(), set()
    evaluated = hits = suppressed = 0
    explained = {}
    by_files = {}
    for job, r in zip(jobs, res):
        nontrivial.update(r["nontrivial_ids"])
        own_after.update(r["own_after_ids"])
        evaluated += r["evaluated"]
        hits += r["memo_hits"]
        suppressed += r["suppressed"]
        by_files[str(r["files"])] = by_files.get(str(r["files"]), 0) + 1
        for route, st in r["routes"].items():
            pr = per_route.setdefault(route, {})
            for k, v in st.items():
                pr[k] = pr.get(k, 0) + v
        for sig, msg, case in r["viol"]:
            if sig not in explained:
                # the first case of every signature is re-run here, in another process and without the memo; it must
                # show the same disagreement, otherwise the finding is not reproducible and nothing may be reported
                got, want = full_outcomes(case)
                if _digest(got) == _digest(want):
                    raise RuntimeError("a disagreement found by a worker does not reproduce in the parent process: %s\n%s" % (sig, msg))
                explained[sig] = explain(got, want)
                msg = msg.split("\n", 1)[0] + "\ndifference: " + explained[sig] + "\n" + msg.split("\n", 1)[1]
            ctx.violation(sig, msg, case)
    for k in (0, len(jobs) // 2, len(jobs) - 1):
        fs, si, routes, _ = jobs[k]
        tops, sps = lib_splits(fs)
        ctx.sample({"library": "+".join(fs) or "base", "routes": list(routes), "files": split_texts(tops, sps[si])})
    ndev = 1 if ctx.tier == "quick" else 2
    nfeat = len([f for f in FEATURES if ctx.tier == "thorough" or f not in THOROUGH_ONLY])
    ctx.coverage.update(
        {
            "evaluations": sum(pr["class_evaluations"] for pr in per_route.values()),
            "ordered_merges": sum(pr["ordered_merges"] for pr in per_route.values()),
            "distinct_nontrivial": len(nontrivial),
            "distinct_orders_with_own_file_after_within": len(own_after),
            "libraries": len(pl),
            "splits": len(jobs),
            "splits_by_number_of_files": by_files,
            "per_library": per_lib,
            "per_route": per_route,
            "merged_trees_evaluated": evaluated,
            "merged_trees_identical_to_an_evaluated_one": hits,
            "further_violating_cases_not_listed": suppressed,
            "exhaustive": True,
            "rule": "libraries = base + every set of <= %d feature deviations out of %d; for each library every split into 2-4 "
            "files (every subset of nested classes moved out into `within` files, every set partition of the moved classes of one "
            "package and of the top-level classes into files, packages without own content optionally dissolved into a `within` "
            "placeholder); for each split every permutation of the files through the routes listed per library; every class of the "
            "library is flattened / generated and compared with the unsplit library. distinct_nontrivial = distinct ordered file "
            "lists in which at least two files contribute to one package, i.e. Class._extend meets a class present on both sides "
            "(the only place where content can get lost); distinct_orders_with_own_file_after_within = those where a package's own "
            "file follows a file declaring classes within it; nontrivial_class_evaluations counts, over such merges, the classes whose "
            "flat model cannot be obtained from their own text alone (measured per library)." % (ndev, nfeat),
        }
    )
    ctx.assumptions.append(
        "constants are referenced by dotted names (P.c, Q.d, LL.kl): pymoca does not resolve an unqualified reference to a constant of "
        "an enclosing package; package inheritance (package P extends ...) is not supported by pymoca and is excluded"
    )
    ctx.assumptions.append(
        "flat models are compared by meaning: symbols by name, the per-file declaration counter `order` dropped; CasADi models by "
        "variable name, group, type, shape, attributes and DAE / initial residual values on a 3-point grid (variable order inside a "
        "group is not compared)"
    )
    ctx.assumptions.append(
        "a class definition is never cut in two; `within` names packages only; duplicate definitions of a class are not generated; "
        "flattening / generation is skipped for a merged tree whose full structural dump (dict orders included, parent pointers "
        "verified consistent) equals that of a tree already evaluated in the same worker"
    )


def replay(case):
    common.isolate_process()
    pin_version()
    got, want = full_outcomes(case)
    same = got == want
    print("route %s, class %s: the files merged in the recorded order give %s, the unsplit library gives %s" % (case["route"], case["cls"], _short(_digest(got)), _short(_digest(want))))
    if not same:
        print("difference: " + explain(got, want))
    return same
