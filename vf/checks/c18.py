"""C18 -- vector expansion is a faithful renaming to scalars.

E4, differential: every program of a bounded feature space is generated twice by the real backend --
without and with `expand_vectors` (the latter with expand_mx off and on) -- and the expanded model must be
the unexpanded one under the renaming `name -> name with 1-based indices at the path element that carries
the dimension` computed here from the program's own declarations (never from pymoca's shape bookkeeping):

  names      every group of the expanded model is the unexpanded group with each array variable replaced,
             in place and row-major (the order tests test_array_3d / test_array_expand /
             test_expand_vectors_derivative_naming pin), by its scalars c[i].x[j] / der(c[i].x[j]);
  attributes element (i, j) of value/min/max/start/fixed/nominal of the array (numbers, nested lists, DM,
             MX evaluated as functions of the parameters on a grid) sits on scalar (i, j);
  outputs    the renamed list; delay states: the same scalars appear in `inputs` and `delay_states`, and
             delay argument k is element k of the unexpanded delay expression with the same duration;
  residuals  dae_residual_function / initial_residual_function of the expanded model at the renamed grid
             point (distinct value per element, so a row/column-major mix-up shows) equal the unexpanded
             ones entry by entry;
  no-raise   expansion raising on a model that generates without it is a violation.

A program is a subject variable `x` (category, shape/path, attributes, equations) plus helpers; the space is
all programs within <= k deviations from the per-category base program (k = 2 quick, 3 thorough).  One deviation
(`sibs`) declares one or two further vectors y[n] / u[n] of the same kind before / after x (sizes 1, 2, 3 mixed, every
declaration order; for outputs also of the other differentiation status) that carry every feature of x -- output,
attributes, equation / der / delay forms, each with its own values and helpers -- so that every list in which the
expansion replaces entries by position (outputs, delay_states / delay_arguments, the groups, the substitution lists)
holds two and three arrays of different sizes.

The statement speaks of expand_vectors, not of it in isolation: the same comparison (same options on both sides,
expansion off vs on) is also made under every single other simplification switch that moves, removes or rewrites
variables before a late / after an early expansion (CONTEXTS; pairs of switches in the thorough tier), on the
programs on which the switch acts and acts on whole arrays (its family).

Two families of genuine defects get fixed signatures (KNOWN_TRIGGERS): a failing program is charged to one only if its
smallest failing sub-program carries the family's trigger features and stops failing when exactly those are removed.
"""
import itertools
import math
import re

import numpy as np

from vf.core import cas, common

LEVEL = "exploration"

ATTRS = ("value", "min", "max", "start", "fixed", "nominal")
GROUPS = ("states", "der_states", "alg_states", "inputs", "parameters", "constants")
KINDS = ("alg", "state", "input", "parameter", "constant")

# ---- shapes: path of (component name, dims); the last element is the elementary variable ------------------------------

SHAPES = {
    "x[2]": [("x", (2,))],
    "x[1]": [("x", (1,))],
    "x[3]": [("x", (3,))],
    "x[2,2]": [("x", (2, 2))],
    "x[2,3]": [("x", (2, 3))],
    "x[1,2]": [("x", (1, 2))],
    "x[2,1]": [("x", (2, 1))],
    "c[2].x": [("c", (2,)), ("x", ())],
    "c[2].x[3]": [("c", (2,)), ("x", (3,))],
    "c[2].x[2]": [("c", (2,)), ("x", (2,))],
    "c[1].x[2]": [("c", (1,)), ("x", (2,))],
    "b.x[2]": [("b", ()), ("x", (2,))],
    "c[2,2].x": [("c", (2, 2)), ("x", ())],
    "d.c[2].x": [("d", ()), ("c", (2,)), ("x", ())],
    "c[2].b.x": [("c", (2,)), ("b", ()), ("x", ())],
    "d.c[2].x[3]": [("d", ()), ("c", (2,)), ("x", (3,))],
    "c[2].b.x[3]": [("c", (2,)), ("b", ()), ("x", (3,))],
}
BASE_SHAPE = "x[2]"
CLASS_NAMES = ("A", "Bb", "Cc")

# ---- siblings: further array variables of the same kind as x ---------------------------------------------------------
# _expand_vectors keeps positional bookkeeping while it expands (outputs.index / pop / insert, delay_states.index / pop /
# append with the parallel delay_arguments, the new list of each group, the parallel symbols / values lists of the
# substitution, the zipped substitution list of the attributes): a position computed before an insertion is only seen to be
# stale when a *second* array of the same kind follows one with a number of elements != 1.  A sibling is a top-level vector
# y[n] / u[n] declared before or after x that carries every feature of x (see build); the configurations are all
# declaration orders of two arrays (n = 1, 3 next to the x[2] of the base program; the shape deviation varies x) and of
# three arrays of mixed sizes, and -- for the one list
# that mixes two groups, `outputs` (differentiated outputs first, then algebraic ones) -- the same with siblings of the
# other differentiation status (`~`: a state next to an algebraic x and vice versa).
SIB_NAMES = ("y", "u")
SIBS_SAME = (
    "y[1],x", "y[3],x", "x,y[1]", "x,y[3]",
    "y[1],x,u[3]", "y[3],x,u[1]", "y[1],u[3],x", "y[3],u[1],x", "x,y[1],u[3]", "x,y[3],u[1]",
)  # fmt: skip
SIBS_FLIP = (
    "~y[1],x", "~y[3],x", "x,~y[1]", "x,~y[3]",
    "~y[3],x,u[1]", "y[3],x,~u[1]", "~y[1],x,~u[3]", "x,~y[3],~u[1]", "y[1],~u[3],x", "x,y[3],~u[1]",
)  # fmt: skip


def full_dims(path):
    return tuple(d for _, dims in path for d in dims)


def whole_ref(path):
    return ".".join(n for n, _ in path)


def elem_ref(path, idx, pre="", post=""):
    """Reference / expanded name of element idx (0-based tuple over full_dims): 1-based indices at the path element
    that declares the dimension.  This is the check's own namer."""
    out, k = [], 0
    for n, dims in path:
        if dims:
            out.append("%s[%s]" % (n, ",".join(str(idx[k + t] + 1) for t in range(len(dims)))))
            k += len(dims)
        else:
            out.append(n)
    return pre + ".".join(out) + post


def row_ref(path, i):
    """Reference to row i (0-based) of a variable with two dimensions (x[i, :] or c[i].x)."""
    out, used = [], False
    for n, dims in path:
        if dims and not used:
            used = True
            if len(dims) == 2:
                out.append("%s[%d, :]" % (n, i + 1))
            else:
                out.append("%s[%d]" % (n, i + 1))
        else:
            out.append(n)
    return ".".join(out)


def loop_ref(path, var, last):
    """Reference inside `for var` over the first dimension; a second dimension is fixed to `last` (0-based)."""
    out, k = [], 0
    for n, dims in path:
        if dims:
            subs = []
            for _ in dims:
                subs.append(var if k == 0 else str(last + 1))
                k += 1
            out.append("%s[%s]" % (n, ",".join(subs)))
        else:
            out.append(n)
    return ".".join(out)


def lit(dims, base, step=1.0, fmt=None):
    """Nested Modelica array literal with distinct entries base + k*step in row-major order."""
    fmt = fmt or (lambda v: repr(float(v)))
    vals = [base + k * step for k in range(int(np.prod(dims)))]
    if len(dims) == 1:
        return "{%s}" % ", ".join(fmt(v) for v in vals)
    r, c = dims
    return "{%s}" % ", ".join("{%s}" % ", ".join(fmt(v) for v in vals[i * c : (i + 1) * c]) for i in range(r))


# ---- attribute forms --------------------------------------------------------------------------------------------------
# form -> text of the modification on the declaration of x.  For nested paths the declaration sits inside a class, so an
# array value there spans only the inner dimensions, and only names of that class are in scope: the forms that use the
# model's parameter p (each-p, mx-arr, list-mx) are top-level only, each-k uses a parameter k of the class itself (its
# value then spans the *outer*, component-array dimensions) and param-arr declares q next to x.  mod-* forms are
# modifications on the outermost component in M (mod-full with the full shape).

NUM_FORMS = ("each-lit", "arr-lit", "dm-fill", "dm-scaled", "each-p", "mx-arr", "param-arr", "list-mx", "each-k", "mod-full", "mod-each", "mod-each-p")
MOD_FORMS = ("mod-full", "mod-each", "mod-each-p")
FIXED_FORMS = ("each-true", "arr-bool")
VALUE_FORMS = ("arr-lit", "dm-fill", "dm-scaled", "mx-arr", "each-lit")


def _ifmt(integer):
    return (lambda v: str(int(v))) if integer else None


def attr_text(attr, form, dims, integer, salt, nested=False):
    """(modification text, helper parameter needed: None / "q" / "k") for a declaration of x with `dims` (() = scalar)."""
    b = {"start": 1.5, "min": -7.5, "max": 11.5, "nominal": 2.5, "value": 0.75}[attr] + salt
    if integer:
        b = float(int(b) + (1 if attr != "min" else 0))
    f = _ifmt(integer)
    one = (f or (lambda v: repr(float(v))))(b)
    each = "each " if dims else ""
    if form == "each-lit":
        return "%s%s = %s" % (each, attr, one), None
    if form == "each-p" and not nested:
        return "%s%s = %s * p" % (each, attr, one), None
    if form == "each-k" and nested:
        return "%s%s = %s * k" % (each, attr, one), "k"
    if not dims:
        return None, None
    if form == "arr-lit":
        return "%s = %s" % (attr, lit(dims, b, 1.0, f)), None
    if form == "dm-fill":
        return "%s = fill(%s, %s)" % (attr, one, ", ".join(map(str, dims))), None
    if form == "dm-scaled" and len(dims) == 1:  # (scalar * matrix literal: NotImplementedError in the unexpanded backend)
        return "%s = 2 * %s" % (attr, lit(dims, b, 1.0, f)), None
    if form == "mx-arr" and len(dims) == 1 and not nested:
        return "%s = p * %s" % (attr, lit(dims, b, 1.0, f)), None
    if form == "param-arr":
        return "%s = q" % attr, "q"
    if form == "list-mx" and len(dims) == 1 and not nested:
        return "%s = {%s}" % (attr, ", ".join("%s * p" % (f or (lambda v: repr(float(v))))(b + k) for k in range(dims[0]))), None
    return None, None


# ---- programs ---------------------------------------------------------------------------------------------------------

DEFAULT = {
    "shape": BASE_SHAPE,
    "start": None,
    "min": None,
    "max": None,
    "nominal": None,
    "fixed": None,
    "value": "arr-lit",  # only meaningful for parameter / constant
    "output": False,
    "eq": "whole",
    "der": "whole",  # only meaningful for state
    "delay": None,
    "integer": False,
    "neighbours": False,
    "sibs": None,
}

ALTS = {
    "shape": [s for s in SHAPES if s != BASE_SHAPE],
    "start": list(NUM_FORMS),
    "min": list(NUM_FORMS),
    "max": list(NUM_FORMS),
    "nominal": list(NUM_FORMS),
    "fixed": list(FIXED_FORMS),
    "value": [f for f in VALUE_FORMS if f != "arr-lit"],
    "output": [True],
    "eq": ["elem", "rows", "loop", "init", "none", "const", "zero", "alias", "negalias", "revalias"],
    "der": ["elem", "loop", "init", "first"],
    "delay": ["whole", "loop", "elem"],
    "integer": [True],
    "neighbours": [True],
    "sibs": list(SIBS_SAME + SIBS_FLIP),
}


def spec_of(kind, devs):
    s = dict(DEFAULT)
    s["kind"] = kind
    for k, v in devs:
        s[k] = v
    return s


def valid(spec):
    """Structural validity of a feature combination (what can be written down at all)."""
    kind, path = spec["kind"], SHAPES[spec["shape"]]
    nested = len(path) > 1
    leaf = path[-1][1]
    D = full_dims(path)
    if kind not in ("parameter", "constant") and spec["value"] != "arr-lit":
        return False
    if kind != "state" and spec["der"] != "whole":
        return False
    if spec["output"] and (kind not in ("alg", "state") or nested):
        return False
    if nested and kind == "input":
        return False  # pymoca strips input from nested symbols: the same program as kind alg
    if spec["integer"] and kind == "state":
        return False
    for a in ("start", "min", "max", "nominal", "value"):
        f = spec[a]
        if f is None or (a == "value" and kind not in ("parameter", "constant")):
            continue
        if spec["integer"] and f in ("each-p", "mx-arr", "param-arr", "list-mx", "each-k", "mod-each-p"):
            return False
        if f in MOD_FORMS:
            # (modifications through two component levels raise IndexError in pymoca's flattener: C08's business)
            if len(path) != 2 or a == "value":
                return False
            continue
        if attr_text(a, f, leaf, spec["integer"], 0.0, nested)[0] is None:
            return False
    if spec["fixed"] == "arr-bool" and not leaf:
        return False
    if spec["eq"] == "rows" and len(D) == 1 and (D[0] < 2 or not leaf):
        return False  # a slice needs >= 2 elements; slices over a component array (c[1:2].x) are not supported
    if spec["delay"] is not None and spec["integer"]:
        return False
    if spec["eq"] in ("const", "zero") and kind != "alg":
        return False  # an equation `x = <constant>` next to der(x) / on an input / parameter / constant is not a model
    if spec["sibs"] is not None:
        sib = [(n, flip) for name, n, flip in sib_layout(spec["sibs"]) if name != "x"]
        if any(flip for _, flip in sib):
            # a sibling of the other differentiation status: only `outputs` lists states and algebraic variables together
            if kind not in ("alg", "state") or not spec["output"] or spec["integer"] or spec["eq"] in ("const", "zero"):
                return False
        if spec["eq"] == "rows" and any(n < 2 for n, _ in sib):
            return False  # (a slice needs >= 2 elements)
    return True


def flipped(kind):
    return {"alg": "state", "state": "alg"}[kind]


def sib_layout(sibs):
    """Declaration order of the subject variables: [(name, n, other differentiation status)], x has n = None."""
    if sibs is None:
        return [("x", None, False)]
    out = []
    for tok in sibs.split(","):
        flip = tok.startswith("~")
        tok = tok.lstrip("~")
        if tok == "x":
            out.append(("x", None, False))
        else:
            m = re.match(r"^([a-z])\[(\d)\]$", tok)
            out.append((m.group(1), int(m.group(2)), flip))
    return out


def build(spec):
    """Program text, declared table {unexpanded name: (path, is_der, attributes spanning the outer dims)} for every
    variable the program declares, and the number of elements of x."""
    kind, path = spec["kind"], SHAPES[spec["shape"]]
    table = {"p": ([("p", ())], False, ())}
    classes, decls, eqs, init = [], ["parameter Real p = 2;"], [], []
    for name, n, flip in sib_layout(spec["sibs"]):
        if name == "x":
            _subject(spec, kind, path, "", 0, classes, decls, eqs, init, table)
        else:
            # a sibling: a top-level vector that carries every feature of x (category -- or the other differentiation
            # status --, output, attributes in the same forms with its own values, equation / der / delay forms with its
            # own helpers w<name>, z<name>, q<name>) that can be written for a top-level vector
            _subject(spec, flipped(kind) if flip else kind, [(name, (n,))], name, 1 + SIB_NAMES.index(name), classes, decls, eqs, init, table)
    lines = classes + ["model M"] + ["  " + s for s in decls]
    if init:
        lines += ["initial equation"] + ["  " + s for s in init]
    lines += ["equation"] + ["  " + s for s in eqs] + ["end M;"]
    return "\n".join(lines) + "\n", table, int(np.prod(full_dims(path)))


def _subject(spec, kind, path, sfx, rank, lines, decls, eqs, init, table):
    """Declarations and equations of one subject variable (x: rank 0, sfx ""; siblings: rank 1, 2, sfx = their name).
    Attribute values, equation coefficients and delay durations depend on the rank, so that two subjects never agree."""
    sibling = rank > 0
    integer = spec["integer"]
    typ = "Integer" if integer else "Real"
    nested = len(path) > 1
    leaf_name, leaf = path[-1]
    D = full_dims(path)
    X = whole_ref(path)
    Wn, Zn, Qn = "w" + sfx, "z" + sfx, "q" + sfx
    dimtxt = lambda dims: "[%s]" % ", ".join(map(str, dims)) if dims else ""  # noqa: E731
    need = set()
    lead = set()  # attributes of x whose value spans the outer (component array) dimensions

    # -- the leaf declaration
    mods, topmods = [], []
    salt = 10.0 * rank
    for a in ("start", "min", "max", "nominal"):
        f = spec[a]
        salt += 0.25
        if f is None:
            continue
        if f in MOD_FORMS:
            if sibling:
                continue  # (a modification through a component: x only)
            if f == "mod-full":
                topmods.append("%s = %s" % (a, lit(D, {"start": 1.5, "min": -7.5, "max": 11.5, "nominal": 2.5}[a] + salt, 1.0, _ifmt(integer))))
            elif f == "mod-each":
                topmods.append("each %s = %s" % (a, (_ifmt(integer) or (lambda v: repr(float(v))))(3.5 + salt)))
            elif f == "mod-each-p":
                topmods.append("each %s = %s * p" % (a, repr(3.5 + salt)))
        else:
            t, q = attr_text(a, f, leaf, integer, salt, nested)
            if t is None and sibling:
                continue  # (a form of the component class: x only)
            mods.append(t.replace(" = q", " = " + Qn) if q == "q" else t)
            if q:
                need.add(q)
            if q == "k":
                lead.add(a)
    if spec["fixed"] == "each-true":
        mods.append(("each " if leaf else "") + "fixed = true")
    elif spec["fixed"] == "arr-bool":
        n = int(np.prod(leaf))
        vals = ["true" if k % 2 == 0 else "false" for k in range(n)]
        if len(leaf) == 1:
            mods.append("fixed = {%s}" % ", ".join(vals))
        else:
            mods.append("fixed = {%s}" % ", ".join("{%s}" % ", ".join(vals[i * leaf[1] : (i + 1) * leaf[1]]) for i in range(leaf[0])))
    prefix = {"alg": "", "state": "", "input": "input ", "parameter": "parameter ", "constant": "constant "}[kind]
    if spec["output"]:
        prefix = "output " + prefix
    val = ""
    if kind in ("parameter", "constant"):
        f = spec["value"]
        if not leaf:
            val = " = %s" % ("2" if integer else "0.75")
        else:
            t, _ = attr_text("value", f, leaf, integer, 10.0 * rank, nested)
            t = t.replace("each ", "")
            val = " = " + t.split(" = ", 1)[1]
    leaf_decl = "%s%s %s%s%s%s;" % (prefix, typ, leaf_name, dimtxt(leaf), "(%s)" % ", ".join(mods) if mods else "", val)

    # -- classes for nested paths (innermost first)
    scope = path[:-1]  # where x is declared
    here = lambda n: ".".join([c for c, _ in scope] + [n])  # noqa: E731
    local = []
    if "k" in need:
        local.append("parameter Real k = 3;")
        table[here("k")] = (scope + [("k", ())], False, ())
    if "q" in need:
        local.append("parameter Real %s%s = %s;" % (Qn, dimtxt(leaf), lit(leaf, 3.0 + 10.0 * rank, 2.0)))
        table[here(Qn)] = (scope + [(Qn, leaf)], False, ())
    npre = prefix.replace("output ", "")
    nval = lambda v: (" = " + v) if kind in ("parameter", "constant") else ""  # noqa: E731
    neighbours = spec["neighbours"] and not sibling  # (the surroundings of x; a sibling is itself a neighbour)
    if neighbours:
        # an array before and a scalar after x in the same scope and category (for nested paths both are scalars in the
        # class, i.e. arrays over the component dimensions: a third dimension is outside the unexpanded backend)
        if nested:
            local.append("%s%s v%s;" % (npre, typ, nval("7")))
            table[here("v")] = (scope + [("v", ())], False, ())
        else:
            local.append("%s%s v[3]%s;" % (npre, typ, nval("{7, 8, 9}")))
            table["v"] = ([("v", (3,))], False, ())
    local.append(leaf_decl)
    if neighbours:
        local.append("%s%s t%s;" % (npre, typ, nval("4")))
        table[here("t")] = (scope + [("t", ())], False, ())
    if nested:
        inner = local
        for level in range(len(path) - 2, -1, -1):
            cname = CLASS_NAMES[len(path) - 2 - level]
            lines += ["model " + cname] + ["  " + s for s in inner] + ["end %s;" % cname]
            comp, cdims = path[level]
            m = ""
            if level == 0 and topmods:
                # modification of x through every intermediate component
                chain = "%s(%s)" % (leaf_name, ", ".join(topmods))
                for mid, _ in reversed(path[1:-1]):
                    chain = "%s(%s)" % (mid, chain)
                m = "(%s)" % chain
            inner = ["%s %s%s%s;" % (cname, comp, dimtxt(cdims), m)]
        x_decls = inner
    else:
        x_decls = local
    table[X] = (path, False, tuple(sorted(lead)))

    decls += x_decls
    decls.append("Real %s%s;" % (Wn, dimtxt(D)))
    # (with `x = w` alias detection hands x's attributes to w: they span what they span on x)
    table[Wn] = ([(Wn, D)], False, tuple(sorted(lead)), leaf) if spec["eq"] == "revalias" else ([(Wn, D)], False, ())

    idxs = list(np.ndindex(*D))
    coef = lambda k: repr(1.5 + k + 10.0 * rank)  # noqa: E731
    W = [(Wn, D)]
    two = len(D) == 2
    e = spec["eq"]
    if e in ("whole", "init", "const", "zero"):
        eqs.append("%s = %d * %s;" % (Wn, 2 + rank, X))
    if e == "const":
        # the whole array assigned a constant: a literal with distinct entries (1-D; the unexpanded backend rejects a
        # nested literal in an equation) or fill()
        if len(D) == 1:
            eqs.append("%s = %s;" % (X, lit(D, 1.5 + 10.0 * rank, 1.0, _ifmt(integer))))
        else:
            eqs.append("%s = fill(%s, %s);" % (X, "2" if integer else "1.5", ", ".join(map(str, D))))
    if e == "zero":
        eqs.append("%s = fill(%s, %s);" % (X, "0" if integer else "0.0", ", ".join(map(str, D))))
    if e == "alias":
        eqs.append("%s = %s;" % (Wn, X))
    if e == "negalias":
        eqs.append("%s = -%s;" % (Wn, X))
    if e == "revalias":
        eqs.append("%s = %s;" % (X, Wn))
    if e == "init":
        init.append("%s = %d * %s;" % (Wn, 3 + rank, X))
        init.append("%s = %s;" % (elem_ref(W, idxs[-1]), elem_ref(path, idxs[0])))
    if e == "elem":
        for k, ix in enumerate(idxs):
            eqs.append("%s = %s * %s;" % (elem_ref(W, ix), coef(k), elem_ref(path, ix)))
    if e == "rows":
        if two:
            for i in range(D[0]):
                eqs.append("%s = %s * %s;" % ("%s[%d, :]" % (Wn, i + 1), coef(i), row_ref(path, i)))
        else:
            eqs.append("%s[1:%d] = %d * %s[2:%d];" % (Wn, D[0] - 1, 3 + rank, X if not nested else elem_ref(path, (0,)).rsplit("[", 1)[0], D[0]))
            eqs.append("%s[%d] = %s;" % (Wn, D[0], elem_ref(path, (0,))))
    if e == "loop":
        last = D[1] - 1 if two else 0
        eqs.append("for i in 1:%d loop" % D[0])
        eqs.append("  %s = %s * %s;" % (loop_ref(W, "i", last), "i" if not rank else "%d * i" % (1 + rank), loop_ref(path, "i", last)))
        eqs.append("end for;")
    if kind == "state":
        d = spec["der"]
        neg = "-" if not rank else "-%d * " % (1 + rank)
        if d in ("whole", "init"):
            eqs.append("der(%s) = %s%s;" % (X, neg, X))
        if d == "init":
            init.append("der(%s) = 0;" % elem_ref(path, idxs[-1]))
        if d == "elem":
            for k, ix in enumerate(idxs):
                eqs.append("der(%s) = -%s * %s;" % (elem_ref(path, ix), coef(k), elem_ref(path, ix)))
        if d == "first":
            eqs.append("der(%s) = %s%s;" % (elem_ref(path, idxs[0]), neg, elem_ref(path, idxs[-1])))
        if d == "loop":
            last = D[1] - 1 if two else 0
            eqs.append("for j in 1:%d loop" % D[0])
            eqs.append("  der(%s) = %sj * %s;" % (loop_ref(path, "j", last), neg, loop_ref(path, "j", last)))
            eqs.append("end for;")
        table["der(%s)" % X] = (path, True, ())
    dl = spec["delay"]
    dur = lambda m: "p" if m * (1 + 2 * rank) == 1 else "%d * p" % (m * (1 + 2 * rank))  # noqa: E731
    if dl == "whole":
        decls.append("Real %s%s;" % (Zn, dimtxt(D)))
        table[Zn] = ([(Zn, D)], False, ())
        eqs.append("%s = delay(%s, %s);" % (Zn, X, dur(1)))
    if dl == "loop":
        decls.append("Real %s%s;" % (Zn, dimtxt(D)))
        table[Zn] = ([(Zn, D)], False, ())
        last = D[1] - 1 if two else 0
        eqs.append("for k in 1:%d loop" % D[0])
        eqs.append("  %s = delay(%d * %s, %s);" % (loop_ref([(Zn, D)], "k", last), 3 + rank, loop_ref(path, "k", last), dur(1)))
        eqs.append("end for;")
    if dl == "elem":
        decls.append("Real %s;" % Zn)
        table[Zn] = ([(Zn, ())], False, ())
        eqs.append("%s = delay(%s, %s);" % (Zn, elem_ref(path, idxs[-1]), dur(2)))


# ---- running pymoca ---------------------------------------------------------------------------------------------------


def parse_blob(text):
    """Parse once (no cache); every generation below gets its own unpickled copy of the tree, which is how pymoca's own
    parse cache hands out trees, so no generation can see what another one did to its tree."""
    import pickle

    from pymoca import parser

    tree = parser.parse(text, bypass_cache=True)
    if tree is None:
        raise SyntaxError("pymoca reports a syntax error")
    return pickle.dumps(tree)


def generate(blob, options):
    """generate + simplify the way pymoca's own API (_compile_model) does."""
    import pickle

    from pymoca.backends.casadi import generator

    m = generator.generate(pickle.loads(blob), "M", dict(options))
    m.simplify(dict(options))
    return m


# ---- numeric helpers --------------------------------------------------------------------------------------------------


def same(a, b, tol=1e-9):
    a, b = float(a), float(b)
    if math.isnan(a) or math.isnan(b):
        return math.isnan(a) and math.isnan(b)
    if math.isinf(a) or math.isinf(b):
        return a == b
    return abs(a - b) <= tol * max(1.0, abs(a), abs(b))


def grid_value(k, point, seed):
    """Distinct, non-integer, both signs; k = running element number."""
    v = 1.25 + 0.37 * ((k * 7 + point * 13 + seed * 5) % 101) + 0.011 * k
    return -v if (k + point) % 3 == 1 else v


class Unreadable(Exception):
    pass


def numeric(model, val, pvals):
    """Numeric value (numpy array, ndim 0..2) of an attribute object: number / nested list / DM / ndarray / MX in the
    model's parameters and constants."""
    import casadi as ca

    if isinstance(val, ca.MX):
        vs = list(model.parameters) + list(model.constants)
        try:
            f = ca.Function("attr", [v.symbol for v in vs], [val])
            r = f.call([ca.DM(np.asarray(pvals[v.symbol.name()], dtype=float).reshape(v.symbol.shape)) for v in vs])[0]
        except Exception as e:
            raise Unreadable("%s: %s" % (type(e).__name__, str(e).split("\n")[0][:200]))
        return np.array(ca.DM(r))
    if isinstance(val, (list, tuple)):
        items = [numeric(model, x, pvals) for x in val]
        return np.array([float(x.ravel()[0]) if x.size == 1 and not isinstance(y, (list, tuple)) else x.tolist() for x, y in zip(items, val)], dtype=float)
    if isinstance(val, ca.DM):
        return np.array(val)
    a = np.asarray(val, dtype=float)
    return a


class Ambiguous(Exception):
    pass


def element(u, D, idx, leaf, leading=False):
    """Element idx (over the full dims D) of an attribute value u of the unexpanded array variable.  A value of size 1
    holds for every element; a value with the variable's full shape is indexed by idx.  Otherwise the variable sits in
    a component array and the value was written inside the class: an array value on the declaration spans the
    elementary variable's own dims `leaf` (trailing part of idx); with `leading` (the program says the value is an
    expression in a parameter of the class) it spans the component dims (leading part of idx)."""
    u = np.asarray(u, dtype=float)
    if u.size == 1:
        return float(u.ravel()[0])
    D, L = tuple(D), tuple(leaf)
    k = len(L)
    if leading and 0 < k < len(D):
        O = D[: len(D) - k]
        t = tuple(idx[: len(O)])
        if u.shape == O:
            return float(u[t])
        if len(O) == 1 and u.shape == (O[0], 1):
            return float(u[t[0], 0])
    if u.shape == D:
        return float(u[tuple(idx)])
    if len(D) == 1 and u.shape == (D[0], 1):
        return float(u[idx[0], 0])
    if 0 < k < len(D):
        t = tuple(idx[-k:])
        if u.shape == L:
            return float(u[t])
        if k == 1 and u.shape == (L[0], 1):
            return float(u[t[0], 0])
    raise Ambiguous("attribute value of shape %r on a variable with dims %r" % (u.shape, D))


DELAY_RE = re.compile(r"^(_pymoca_delay_\d+)(?:\[(\d+)(?:,(\d+))?\])?$")


def delay_names(name, shape, idx):
    """Accepted names of element idx of a delay state (an internal variable whose only shape is its MX shape)."""
    r, c = shape
    i, j = idx
    if c == 1:
        acc = {"%s[%d]" % (name, i + 1), "%s[%d,1]" % (name, i + 1)}
        if r == 1:
            acc.add(name)
        return acc
    return {"%s[%d,%d]" % (name, i + 1, j + 1)}


# ---- the oracle -------------------------------------------------------------------------------------------------------


def expectation(mu, table):
    """group -> list of entries (names accepted, unexpanded name, idx, D, leaf dims, is_delay) in the expected order."""
    # leaf dims of a delay state = its whole MX shape
    exp = {}
    delays = list(mu.delay_states)
    for g in GROUPS:
        out = []
        for v in getattr(mu, g):
            name = v.symbol.name()
            shape = tuple(v.symbol.shape)
            if name in delays:
                for idx in np.ndindex(*shape):
                    out.append((delay_names(name, shape, idx), name, idx, shape, shape, True))
                continue
            path, is_der = table[name][:2]  # KeyError = the harness does not know its own program
            attr_leaf = table[name][3] if len(table[name]) > 3 else path[-1][1]
            D = full_dims(path)
            want_shape = (1, 1) if not D else ((D[0], 1) if len(D) == 1 else D)
            if shape != want_shape:
                raise AssertionError("unexpanded symbol %s has MX shape %r, declared dims %r" % (name, shape, D))
            pre, post = ("der(", ")") if is_der else ("", "")
            if not D:
                out.append(({name}, name, (), (), (), False))
            else:
                for idx in np.ndindex(*D):
                    out.append(({elem_ref(path, idx, pre, post)}, name, idx, D, attr_leaf, False))
        exp[g] = out
    return exp


def compare(mu, me, table, seed, npoints, order=True):
    """List of (clause, detail) where the expanded model `me` is not the renamed unexpanded model `mu` (both generated
    with the same other options).  `order`: demand the in-place row-major order inside the groups."""
    import casadi as ca

    bad = []
    exp = expectation(mu, table)
    uvars = {v.symbol.name(): v for g in GROUPS for v in getattr(mu, g)}
    rename = {}  # (unexpanded name, idx) -> expanded name actually used
    names_ok = True
    for g in GROUPS:
        got = [v.symbol.name() for v in getattr(me, g)]
        want = exp[g]
        gotset = set(got)
        missing = [sorted(acc)[0] for acc, *_ in want if not (acc & gotset)]
        allowed = set().union(*[acc for acc, *_ in want]) if want else set()
        extra = [n for n in got if n not in allowed]
        if missing or extra or len(got) != len(want):
            names_ok = False
            bad.append(("names:" + g, "%s of the expanded model are %r; the unexpanded %r renamed are %r" % (g, got, [v.symbol.name() for v in getattr(mu, g)], [sorted(a)[0] for a, *_ in want])))
            continue
        if order and not all(n in acc for n, (acc, *_) in zip(got, want)):
            bad.append(("order:" + g, "%s of the expanded model are ordered %r; in place and row-major they are %r" % (g, got, [sorted(a)[0] for a, *_ in want])))
        for acc, uname, idx, D, leaf, isd in want:
            rename[(uname, idx)] = next(n for n in got if n in acc)
        for v in getattr(me, g):
            if tuple(v.symbol.shape) != (1, 1):
                bad.append(("not-scalar:" + g, "expanded variable %s has shape %r" % (v.symbol.name(), tuple(v.symbol.shape))))
                names_ok = False
    if not names_ok:
        return bad
    evars = {v.symbol.name(): v for g in GROUPS for v in getattr(me, g)}

    # -- grid points: one value per element, the same for both models
    def point(p):
        vu, ve, k = {}, {}, 0
        for g in GROUPS:
            byname = {}
            for acc, uname, idx, D, leaf, isd in exp[g]:
                val = grid_value(k, p, seed)
                k += 1
                ve[rename[(uname, idx)]] = val
                byname.setdefault(uname, (D, isd, {}))[2][idx] = val
            for uname, (D, isd, vals) in byname.items():
                if not D:
                    vu[uname] = vals[()]
                else:
                    a = np.zeros(D)
                    for idx, val in vals.items():
                        a[idx] = val
                    vu[uname] = a
        return vu, ve

    points = [point(p) for p in range(npoints)]

    # -- attributes
    for g in GROUPS:
        for acc, uname, idx, D, leaf, isd in exp[g]:
            ename = rename[(uname, idx)]
            for a in ATTRS:
                uval, evalue = getattr(uvars[uname], a), getattr(evars[ename], a)
                is_mx = isinstance(uval, (ca.MX, list)) or isinstance(evalue, (ca.MX, list))
                for vu, ve in points if is_mx else points[:1]:
                    try:
                        u = numeric(mu, uval, vu)
                    except Unreadable:
                        break  # the unexpanded attribute is not a function of parameters: outside the alphabet
                    leading = (not isd) and a in table[uname][2]
                    # (Ambiguous propagates: a harness error, the check does not know its own program)
                    want = element(u, D, idx, leaf, leading) if D else float(np.asarray(u, dtype=float).ravel()[0])
                    try:
                        e = numeric(me, evalue, ve)
                    except Unreadable as ex:
                        bad.append(("attribute-unreadable:" + a, "%s of %s is %r, not a function of the expanded model's parameters (%s)" % (a, ename, evalue, ex)))
                        break
                    if np.asarray(e).size != 1:
                        bad.append(("attribute-not-scalar:" + a, "%s of scalar %s is %r" % (a, ename, evalue)))
                        break
                    e = float(np.asarray(e, dtype=float).ravel()[0])
                    if not same(e, want):
                        bad.append(("attribute-element:" + a, "%s of %s is %r; element %r of %s.%s = %r is %r" % (a, ename, e, tuple(i + 1 for i in idx), uname, a, _short(uval), want)))
                        break

    # -- outputs: an output that is a variable of the unexpanded model (in whatever group the other options left it) is
    # renamed like the variable; an output whose variable the other options removed from the model altogether names
    # nothing in either model and is not judged (array name and scalar names both accepted)
    want_out, free = [], set()
    for n in mu.outputs:
        path = table[n][0]
        D = full_dims(path)
        scal = [elem_ref(path, idx) for idx in np.ndindex(*D)] if D else [n]
        if n in uvars:
            want_out += scal
        else:
            free.update(scal + [n])
    got_out = [n for n in me.outputs if n not in free]
    if sorted(got_out) != sorted(want_out):
        bad.append(("outputs", "outputs %r; the unexpanded outputs %r renamed are %r" % (list(me.outputs), list(mu.outputs), want_out)))
    else:
        stale = [n for n in got_out if n not in evars]
        if stale:
            bad.append(("outputs", "outputs %r are not variables of the expanded model" % stale))

    # -- delay states
    dwant = sorted(rename[(uname, idx)] for g in GROUPS for acc, uname, idx, D, leaf, isd in exp[g] if isd)
    if sorted(me.delay_states) != dwant:
        bad.append(("delay-states", "delay_states %r; the delay inputs are %r" % (list(me.delay_states), dwant)))
    elif dwant:
        if len(me.delay_arguments) != len(me.delay_states):
            bad.append(("delay-arguments", "%d delay arguments for %d delay states" % (len(me.delay_arguments), len(me.delay_states))))
        else:
            inv = {v: k for k, v in rename.items()}
            for p, (vu, ve) in enumerate(points):
                ou = cas.call(mu.delay_arguments_function, cas.arg_vectors(mu, vu, time=0.5 + p))
                try:
                    oe = cas.call(me.delay_arguments_function, cas.arg_vectors(me, ve, time=0.5 + p))
                except Exception as e:
                    bad.append(("delay-arguments-unreadable", "cannot evaluate the expanded delay_arguments_function: %s: %s" % (type(e).__name__, str(e).split("\n")[0][:300])))
                    break
                stop = False
                for k, dn in enumerate(me.delay_states):
                    uname, idx = inv[dn]
                    ku = list(mu.delay_states).index(uname)
                    eu, du = ou[2 * ku], ou[2 * ku + 1]
                    shape = tuple(uvars[uname].symbol.shape)
                    if eu.shape != shape:
                        if eu.T.shape == shape:
                            eu = eu.T
                        else:
                            raise Ambiguous("delay expression of %s has shape %r, the state %r" % (uname, eu.shape, shape))
                    ge, gd = oe[2 * k], oe[2 * k + 1]
                    if ge.size != 1 or not same(ge.ravel()[0], eu[idx]) or gd.size != 1 or not same(gd.ravel()[0], du.ravel()[0]):
                        bad.append(("delay-arguments", "delay argument of %s evaluates to (%r, %r); element %r of the unexpanded argument of %s is (%r, %r)" % (dn, ge.ravel().tolist(), gd.ravel().tolist(), tuple(i + 1 for i in idx), uname, float(eu[idx]), du.ravel().tolist())))
                        stop = True
                        break
                if stop:
                    break

    # -- residuals
    for initial in (False, True):
        tag = "initial-residual" if initial else "dae-residual"
        for p, (vu, ve) in enumerate(points):
            t = 0.5 + p
            ru = cas.residual(mu, vu, initial=initial, time=t)
            try:
                re_ = cas.residual(me, ve, initial=initial, time=t)
            except Exception as e:
                bad.append((tag + "-unreadable", "cannot evaluate the expanded %s: %s: %s" % (tag, type(e).__name__, str(e).split("\n")[0][:300])))
                break
            if len(ru) != len(re_):
                bad.append((tag + "-length", "expanded %s has %d entries, unexpanded %d" % (tag, len(re_), len(ru))))
                break
            diff = [k for k, (a, b) in enumerate(zip(ru, re_)) if not same(a, b, 1e-9)]
            if diff:
                bad.append((tag, "expanded %s %r; unexpanded at the same (renamed) point %r; entries %r differ" % (tag, [round(x, 9) for x in re_], [round(x, 9) for x in ru], diff)))
                break
    return bad


def _short(v):
    s = repr(v)
    return s if len(s) < 120 else s[:117] + "..."


# ---- the other simplification options ----------------------------------------------------------------------------------
# The statement speaks of expand_vectors, not of expand_vectors in isolation: the same comparison (same options, expansion
# off vs on) is made under every other switch of Model.simplify that moves variables between the groups, removes them or
# rewrites their metadata -- before the expansion when it runs late (expand_mx off), after it when it runs first
# (expand_mx on).  A switch is applied to its *family*: the programs on which it acts (`relevant`) and acts on whole
# arrays (`sound`) -- a pass that pattern-matches single equations may legitimately do more on the scalar equations of
# an early expansion than on the array equations of the unexpanded model (pymoca expands first "to detect more
# aliases"), and then the expanded model is not a renaming of the unexpanded one and nothing can be demanded.

P_FORMS = ("each-p", "mx-arr", "param-arr", "list-mx", "each-k", "mod-each-p")  # attribute depends on a parameter
ALIAS_EQS = ("alias", "negalias", "revalias")
CONST_EQS = ("const", "zero")
EVE_REGEX = r".*\b[xyu]\b"  # the subject variables (x under any path, siblings y / u); match() anchors at the start


def _p_attr(spec):
    return any(spec[a] in P_FORMS for a in ("start", "min", "max", "nominal"))


def _whole_array_equations(spec):
    # equations between single elements (`w[1] = 1 * x[1]` of the for-loop, `w[n] = x[1]` of the slices form, the scalar
    # delay states of a delay inside a for-loop) are aliases / assignments only after expansion
    return spec["eq"] not in ("loop", "rows") and spec["delay"] != "loop"


def _has_state(spec):
    """x or a sibling is a differentiated variable."""
    return spec["kind"] == "state" or (spec["sibs"] is not None and "~" in spec["sibs"] and spec["kind"] == "alg")


def _in_component_array(spec):
    path = SHAPES[spec["shape"]]
    return len(path) > 1 and bool(path[-1][1]) and any(d for _, d in path[:-1])


def _value_keeps_symbol_shape(spec, kinds):
    """False when a parameter / constant array declared inside a component array has an array value: the value then spans
    only the inner dimensions, and replace_*_values / resolve_parameter_values substitute it as it is for the whole
    (outer x inner) symbol -- the *unexpanded* model under these options pairs elements and values wrongly
    (c[2].x[1] gets the value of x[2]), so it is no reference.  (Reported; simplification's ground, not expansion's.)"""
    if not _in_component_array(spec):
        return True
    if spec["kind"] in kinds and spec["value"] in ("arr-lit", "dm-fill", "dm-scaled"):
        return False
    if "parameter" in kinds and any(spec[a] == "param-arr" for a in ("start", "min", "max", "nominal")):
        return False  # the helper parameter q declared next to x is such an array
    return True


CONTEXTS = {
    # name (= the option): (options, relevant, sound, broad)
    "eliminate_constant_assignments": (
        {"eliminate_constant_assignments": True},
        lambda s: s["kind"] == "alg" and s["eq"] in CONST_EQS,  # x moves from alg_states to constants
        lambda s: True,  # no other program has an equation `variable = constant`, expanded or not
        False,
    ),
    "replace_constant_values": (
        {"replace_constant_values": True},
        lambda s: s["kind"] == "constant",  # x is substituted by its value and leaves the model
        lambda s: _value_keeps_symbol_shape(s, ("constant",)),
        True,
    ),
    "replace_parameter_values": (
        {"replace_parameter_values": True},
        # x (numeric value) is substituted and leaves the model / p, q, k leave it and the attributes, the delay durations
        # and the values that mention them are rewritten
        lambda s: s["kind"] == "parameter" or _p_attr(s) or s["delay"] is not None or (s["kind"] == "constant" and s["value"] == "mx-arr"),
        lambda s: _value_keeps_symbol_shape(s, ("parameter",)),
        True,
    ),
    "replace_parameter_expressions": (
        {"replace_parameter_expressions": True},
        lambda s: s["kind"] == "parameter" and s["value"] == "mx-arr",  # x = p * {..} is substituted and leaves the model
        lambda s: True,
        False,
    ),
    "replace_constant_expressions": (
        {"replace_constant_expressions": True},
        lambda s: s["kind"] == "constant" and s["value"] == "mx-arr",
        lambda s: True,
        False,
    ),
    "resolve_parameter_values": (
        {"resolve_parameter_values": True},
        lambda s: _p_attr(s),  # metadata only: attribute expressions are rewritten to numbers
        # (a python list of expressions `{1.75 * p, 2.75 * p}` is not rewritten in the unexpanded model, only its scalars
        # in the expanded one are: equal at the declared value of p only, and the grid moves p)
        lambda s: _value_keeps_symbol_shape(s, ("parameter", "constant")) and not any(s[a] == "list-mx" for a in ("start", "min", "max", "nominal")),
        True,
    ),
    "detect_aliases": (
        {"detect_aliases": True},
        # w = x / w = -x: w leaves the model; x = w: x leaves it and hands its attributes to w; z = delay(..): z is an alias
        # of the delay state
        lambda s: s["eq"] in ALIAS_EQS or s["delay"] in ("whole", "elem"),
        _whole_array_equations,
        False,
    ),
    "eliminable_variable_expression": (
        {"eliminable_variable_expression": EVE_REGEX},  # (pymoca demands expand_mx with it)
        # x = <constant> / x = w / w = (-)x: x is substituted and leaves the model
        lambda s: s["kind"] == "alg" and s["eq"] in CONST_EQS + ALIAS_EQS,
        # (a state would be eliminated through its derivative equation; element equations as above)
        lambda s: not _has_state(s) and _whole_array_equations(s),
        False,
    ),
}
CONTEXT_ORDER = tuple(CONTEXTS)


def in_family(ctx, spec):
    """ctx: tuple of context names (() = default options).  The program is in the family of the combination when every
    switch is sound on it and at least one acts on it."""
    if not ctx:
        return True
    return all(CONTEXTS[c][2](spec) for c in ctx) and any(CONTEXTS[c][1](spec) for c in ctx)


def ctx_options(ctx):
    o = {}
    for c in ctx:
        o.update(CONTEXTS[c][0])
    return o


def ctx_modes(ctx):
    return (True,) if "eliminable_variable_expression" in ctx else (False, True)


# ---- one program ------------------------------------------------------------------------------------------------------

UNEXPANDED = {"expand_vectors": False}


def _ready(m):
    m.dae_residual_function
    m.initial_residual_function
    if m.delay_states:
        m.delay_arguments_function


def fingerprint(m):
    """What the other options can change in a model, as text (to measure whether a context acted on a program)."""
    return (
        tuple((g, tuple((v.symbol.name(), tuple(str(getattr(v, a)) for a in ATTRS)) for v in getattr(m, g))) for g in GROUPS),
        tuple(str(e) for e in m.equations),
        tuple(str(e) for e in m.initial_equations),
        tuple(str(d.expr) + "@" + str(d.duration) for d in m.delay_arguments),
    )


def evaluate(spec, seed, npoints, ctx=()):
    """status 'unsupported' (the unexpanded backend rejects the program: not judged) or 'judged' with the failing
    clauses [(clause, expand_mx, detail)].  ctx: names of the other simplification options switched on (in both the
    unexpanded and the expanded generation)."""
    text, table, n_el = build(spec)
    ctx = tuple(ctx)
    opts = ctx_options(ctx)
    out = {"status": "judged", "text": text, "clauses": [], "arrays": 0, "delays": 0, "acted": False}
    try:
        blob = parse_blob(text)
        mu0 = generate(blob, UNEXPANDED)
        _ready(mu0)
    except Exception as e:
        return {"status": "unsupported", "why": common.exc_sig(e), "text": text, "clauses": [], "arrays": 0}
    arrays = sum(1 for g in GROUPS for v in getattr(mu0, g) if v.symbol.shape[0] * v.symbol.shape[1] >= 2)
    out["arrays"], out["delays"] = arrays, len(mu0.delay_states)
    # (declared with dimensions, whatever their size: what the expansion replaces in `outputs`)
    out["array_outputs"] = sum(1 for n in mu0.outputs if full_dims(table[n][0]))
    clauses = out["clauses"]
    for mx in ctx_modes(ctx):
        if ctx:
            # the reference is the unexpanded model under the same options
            try:
                mu = generate(blob, dict(opts, expand_vectors=False, expand_mx=mx))
                _ready(mu)
            except Exception as e:
                out.setdefault("unsupported_modes", []).append((mx, common.exc_sig(e)))
                continue
            if not out["acted"] and fingerprint(mu) != fingerprint(mu0):
                out["acted"] = True
        else:
            mu = mu0  # (nothing below mutates it)
        try:
            me = generate(blob, dict(opts, expand_vectors=True, expand_mx=mx))
        except Exception as e:
            clauses.append(("expansion-raises", mx, "%s: %s [%s]" % (type(e).__name__, str(e).split("\n")[0][:200], common.exc_sig(e))))
            continue
        # In-place row-major order inside the groups is what the expansion does to the groups it finds.  When it runs
        # first (expand_mx) and another switch then moves scalars between groups it moves them in equation order
        # (column-major inside a matrix equation), which nothing pins: order is then not demanded.
        bad = compare(mu, me, table, seed, npoints, order=not (ctx and mx))
        for clause, detail in bad:
            clauses.append((clause, mx, detail))
    if len(out.get("unsupported_modes", ())) == len(ctx_modes(ctx)):
        out["status"], out["why"] = "unsupported", out["unsupported_modes"][0][1]
    return out


def deviations(spec):
    return [(k, spec[k]) for k in ALTS if spec[k] != DEFAULT[k]]


# array-valued forms written inside the class: the value has only the inner dims when x sits in a component array
# (with param-arr it is the value of the helper parameter q, declared next to x, that is such an inner array)
ARRAY_FORMS = ("arr-lit", "dm-fill", "dm-scaled", "param-arr")


def inner_array_attribute(spec):
    """Trigger of the known defect: an array-valued (not `each`) attribute or value declared on an array that sits inside
    a component array, so the value spans only the inner dimensions.  Returns the spec with exactly those features
    removed, or None when the trigger is absent."""
    path = SHAPES[spec["shape"]]
    if not (len(path) > 1 and path[-1][1] and any(d for _, d in path[:-1])):
        return None
    s, hit = dict(spec), False
    for a in ("start", "min", "max", "nominal"):
        if s[a] in ARRAY_FORMS:
            s[a], hit = None, True
    if s["fixed"] == "arr-bool":
        s["fixed"], hit = None, True
    if s["kind"] in ("parameter", "constant") and s["value"] in ARRAY_FORMS:
        s["value"], hit = "each-lit", True
    return s if hit else None


def component_parameter_attribute(spec):
    """Trigger of the second known defect: an attribute of an array inside a component array given as an expression in
    a parameter of the component class (its value spans only the outer dimensions)."""
    path = SHAPES[spec["shape"]]
    if not (len(path) > 1 and path[-1][1] and any(d for _, d in path[:-1])):
        return None
    s, hit = dict(spec), False
    for a in ("start", "min", "max", "nominal"):
        if s[a] == "each-k":
            s[a], hit = "each-lit", True
    return s if hit else None


KNOWN_TRIGGERS = (
    ("inner-array-attribute-in-component-array", inner_array_attribute),
    ("component-parameter-attribute-in-component-array", component_parameter_attribute),
)


def minimal(spec, clause, seed, npoints, ctx=()):
    """Smallest sub-program (subset of the deviations, then kind alg if possible) in the family of the same options on
    which `clause` still fails."""
    devs = deviations(spec)

    def fails(s):
        if not valid(s) or not in_family(ctx, s):
            return False
        r = evaluate(s, seed, npoints, ctx)
        return any(c == clause for c, _, _ in r["clauses"])

    for k in range(len(devs) + 1):
        for sub in itertools.combinations(devs, k):
            for kind in (["alg"] if spec["kind"] != "alg" else []) + [spec["kind"]]:
                s = spec_of(kind, sub)
                if fails(s):
                    return s
    return spec


def check_one(spec, seed, npoints, ctx):
    r = evaluate(spec, seed, npoints, ctx)
    out = {"ctx": ctx, "status": r["status"], "why": r.get("why"), "acted": r.get("acted", False), "viol": []}
    out["text"], out["arrays"], out["delays"] = r["text"], r["arrays"], r.get("delays", 0)
    out["array_outputs"] = r.get("array_outputs", 0)
    by = {}
    for clause, mx, detail in r["clauses"]:
        by.setdefault(clause, []).append((mx, detail))
    allmodes = list(ctx_modes(ctx))
    for clause, hits in by.items():
        modes = sorted({mx for mx, _ in hits})
        sig = None
        m = minimal(spec, clause, seed, npoints, ctx)
        if clause == "expansion-raises":
            # known defect families: the smallest failing sub-program carries the trigger and stops raising when exactly
            # the trigger features are removed (same options)
            for name, trigger in KNOWN_TRIGGERS:
                removed = trigger(m)
                if removed is not None and all("expansion-raises" != c for c, _, _ in evaluate(removed, seed, npoints, ctx)["clauses"]):
                    sig = "expansion-raises:" + name
                    break
        if sig is None:
            feats = ["%s=%s" % kv for kv in deviations(m)] or ["base"]
            sig = "%s:%s:%s" % (clause, m["kind"], "+".join(feats))
            if ctx:
                sig += ":with=" + "+".join(ctx)
            if modes != allmodes:
                sig += ":expand_mx-only" if modes == [True] else ":no-expand_mx-only"
        msg = "%s (%sexpand_mx %s): %s\n%s" % (clause, "options %s, " % ", ".join(ctx) if ctx else "", "/".join("on" if m_ else "off" for m_ in modes), hits[0][1], r["text"])
        out["viol"].append((sig, msg, {"spec": spec, "text": r["text"], "clause": clause, "ctx": list(ctx)}))
    return out


def check(job):
    spec, seed, npoints, ctxs = job
    return [check_one(spec, seed, npoints, tuple(c)) for c in ctxs]


def programs(tier):
    K = 2 if tier == "quick" else 3
    dims = list(ALTS)
    out = []
    for kind in KINDS:
        for k in range(K + 1):
            for combo in itertools.combinations(dims, k):
                for vals in itertools.product(*[ALTS[d] for d in combo]):
                    s = spec_of(kind, list(zip(combo, vals)))
                    if valid(s):
                        out.append(s)
    return out, K


def contexts(tier):
    """[(ctx, deviation bound)]: the default options at K; every single other switch at K (K - 1 for the switches that
    act on every parameter / constant of every program: `broad`); in the thorough tier also every pair of switches, one
    deviation lower."""
    K = 2 if tier == "quick" else 3
    out = [((), K)]
    for c in CONTEXT_ORDER:
        out.append(((c,), K - 1 if CONTEXTS[c][3] else K))
    if tier != "quick":
        for c1, c2 in itertools.combinations(CONTEXT_ORDER, 2):
            out.append(((c1, c2), K - 2 if CONTEXTS[c1][3] or CONTEXTS[c2][3] else K - 1))
    return out


def jobs_for(tier):
    specs, K = programs(tier)
    plan = contexts(tier)
    jobs = []
    for s in specs:
        nd = len(deviations(s))
        ctxs = [c for c, bound in plan if nd <= bound and in_family(c, s)]
        jobs.append((s, ctxs))
    return jobs, K, plan


def run(ctx):
    jobs, K, plan = jobs_for(ctx.tier)
    rot = ctx.seed % max(1, len(jobs))
    jobs = jobs[rot:] + jobs[:rot]
    npoints = 2
    with common.Pool() as pool:
        res = pool.map(check, [(s, ctx.seed, npoints, cs) for s, cs in jobs], chunksize=8)
    texts, nontrivial, unsupported = set(), set(), {}
    judged = evals = delays = 0
    multi = {"programs_with_sibling_arrays": 0, "with_2_array_outputs": 0, "with_3_array_outputs": 0, "with_2_delay_states": 0, "with_3_delay_states": 0}
    per = {}
    for (s, cs), rs in zip(jobs, res):
        for r in rs:
            c = "+".join(r["ctx"]) or "default"
            d = per.setdefault(c, {"programs": 0, "judged": 0, "options_acted_on_unexpanded_model": 0, "unsupported": 0})
            d["programs"] += 1
            if not r["ctx"]:
                texts.add(r["text"])
            if r["status"] == "unsupported":
                key = ("" if not r["ctx"] else c + ": ") + str(r["why"])
                unsupported[key] = unsupported.get(key, 0) + 1
                d["unsupported"] += 1
                continue
            d["judged"] += 1
            judged += 1
            evals += len(ctx_modes(r["ctx"])) * npoints
            if r["ctx"]:
                if r["acted"]:
                    d["options_acted_on_unexpanded_model"] += 1
                    if r["arrays"]:
                        nontrivial.add((c, r["text"]))
            else:
                if r["arrays"]:
                    nontrivial.add((c, r["text"]))
                if r["delays"]:
                    delays += 1
                if s["sibs"] is not None:
                    multi["programs_with_sibling_arrays"] += 1
                if r["array_outputs"] in (2, 3):
                    multi["with_%d_array_outputs" % r["array_outputs"]] += 1
                if r["delays"] in (2, 3):
                    multi["with_%d_delay_states" % r["delays"]] += 1
            for sig, msg, case in r["viol"]:
                ctx.violation(sig, msg, case)
    order = sorted(range(len(jobs)), key=lambda i: res[i][0]["text"])
    for i in (order[0], order[len(order) // 2], order[-1]):
        ctx.sample({"spec": jobs[i][0], "options": [list(c) for c in jobs[i][1]], "model": res[i][0]["text"]})
    ctx.coverage.update(
        {
            "evaluations": evals,
            "programs": len(jobs),
            "distinct_programs": len(texts),
            "program_option_combinations": sum(d["programs"] for d in per.values()),
            "judged": judged,
            "distinct_nontrivial": len(nontrivial),
            "unsupported_by_unexpanded_backend": unsupported,
            "programs_with_delay_states": delays,
            "several_arrays_of_one_kind": multi,
            "max_deviations": K,
            "per_option_set": per,
            "option_sets": ["+".join(c) or "default" for c, _ in plan],
            "grid_points": npoints,
            "exhaustive": True,
            "rule": "every program within <= %d deviations from the base program (x[2], no attributes, `w = 2 * x`) of each "
            "variable category (algebraic, state, input, parameter, constant) over the dimensions shape (%d: 1-D n=1..3, 2-D up "
            "to 2x3, component arrays holding scalars / arrays, arrays inside scalar components, two-level nesting), "
            "start/min/max/nominal (each literal, array literal, fill() DM, scaled-literal DM, each parameter expression, "
            "parameter * literal MX, array parameter, list of MX, component-level modification full / each), fixed, value "
            "form, output, equation form (whole / per element / rows+slices / for-loop / initial / none / x assigned a constant "
            "array / x assigned zeros / w = x / w = -x / x = w), der form (whole / per element / for-loop / initial / first "
            "element), delay (whole array / in for-loop / element), Integer, neighbours, siblings (%d configurations: one or two more "
            "vectors y[n], u[n] of x's kind -- or, for outputs, of the other differentiation status -- before / after x, sizes 1, 2, "
            "3 mixed, carrying x's output prefix, attributes, equation / der / delay forms with own values, coefficients and delay "
            "durations); each generated unexpanded and expanded "
            "with expand_mx off and on and compared clause by clause at %d grid points per mode.  The same comparison (same "
            "options, expand_vectors off vs on) under each single other simplification switch (%s) on the switch's family "
            "(programs on which it acts, and acts on whole arrays) within <= %d deviations (%d for the switches that act on "
            "every parameter / constant)%s.  Non-trivial = the unexpanded backend accepts the program, its model has an array "
            "variable with >= 2 elements (a renaming that can go wrong) and, for a non-default option set, the options "
            "measurably change the unexpanded model (groups, attributes, equations or delay arguments differ from the "
            "default-options model)."
            % (K, len(SHAPES), len(ALTS["sibs"]), npoints, ", ".join(CONTEXT_ORDER), K, K - 1, "" if ctx.tier == "quick" else "; every pair of switches within <= %d (%d) deviations" % (K - 1, K - 2)),
        }
    )
    ctx.assumptions += [
        "the unexpanded model generated with the same other options is the reference for groups, attribute values and residuals; "
        "only the renaming (names, element correspondence) comes from the check's own namer over the declared paths",
        "programs the unexpanded backend rejects are not judged (counted under unsupported_by_unexpanded_backend)",
        "delay states are internal variables without a Modelica shape: N[i] and N[i,1] (and N for a single element) are "
        "accepted for element i of an n x 1 delay state, provided inputs and delay_states agree",
        "order inside outputs and delay_states is not demanded (they are compared as multisets: every expected scalar name "
        "exactly once, no array name left, every name a variable of the expanded model; each delay state with the argument and "
        "duration of its own element); order inside the variable groups is (in place, row-major: "
        "test_array_3d, test_array_expand, test_expand_vectors_derivative_naming and the positional numeric comparisons pin it), "
        "except under another simplification switch with expand_mx, where that switch moves the already expanded scalars in "
        "equation order",
        "another simplification switch is only applied to programs on which it acts on whole arrays: on element equations "
        "(for-loops, slices) alias detection / elimination legitimately finds more after an early expansion than before",
        "an output whose variable the other options removed from the model (alias, eliminated, replaced constant) names nothing "
        "in either model: not judged",
        "python_type of the scalars, 3-D+ arrays (unexpanded backend rejects them), factor_and_simplify_equations and "
        "reduce_affine_expression (they rewrite the residual itself) and combinations of three or more switches are not covered",
    ]


def replay(case):
    spec = case["spec"]
    r = evaluate(spec, 0, 2, tuple(case.get("ctx", ())))
    print(r["text"])
    if case.get("ctx"):
        print("options: " + ", ".join(case["ctx"]))
    hits = [(c, mx, d) for c, mx, d in r["clauses"] if c == case.get("clause", c)]
    for c, mx, d in hits:
        print("%s (expand_mx=%s): %s" % (c, mx, d))
    if not hits:
        print("ok" if r["status"] == "judged" else "unexpanded backend rejects the program: " + str(r.get("why")))
    return not hits
