"""C20 -- the model cache is never used when stale.

E1: BFS to closure over histories of source edits (each with a strictly later mtime, set explicitly from a
logical clock), file additions, option changes, version changes and real transfer_model calls on one model
folder + one library folder.  Every transfer_model result is compared (vf.core.mcache.canon) with
_compile_model of the current sources under the current options.
"""
import os
import shutil

from vf.core import bfs, common, mcache

LEVEL = "model_checking"

MAIN = {
    "A": "model Main\n  extends LibBase;\n  Part prt;\n  parameter Real p = 2;\n  constant Real c = 4;\n  Real x(start = 1);\n  Real a;\n  Real z;\nequation\n  der(x) = -p * x + c;\n  a = x;\n  z = 3;\nend Main;\n",
    "B": "model Main\n  extends LibBase;\n  Part prt;\n  parameter Real p = 3;\n  constant Real c = 4;\n  Real x(start = 1);\n  Real a;\n  Real z;\nequation\n  der(x) = -p * x + c + 1;\n  a = x;\n  z = 3;\nend Main;\n",
}
PART = {
    "A": "model Part\n  Real w(max = 10);\nequation\n  w = 1;\nend Part;\n",
    "B": "model Part\n  Real w(max = 20);\nequation\n  w = 2 * time;\nend Part;\n",
}
LIB = {
    "A": "model LibBase\n  parameter Real k = 1;\n  Real y;\nequation\n  y = k;\nend LibBase;\n",
    "B": "model LibBase\n  parameter Real k = 5;\n  Real y(min = 0);\nequation\n  y = 2 * k;\nend LibBase;\n",
}
OTHER = "model Other\n  Real q;\nequation\n  q = 1;\nend Other;\n"
SWITCHES = [
    "detect_aliases", "replace_constant_values", "eliminate_constant_assignments", "replace_parameter_values",
    "expand_vectors", "replace_parameter_expressions", "replace_constant_expressions", "resolve_parameter_values",
    "factor_and_simplify_equations",
]  # fmt: skip
OPTIONS = {"plain": {}}
for _s in SWITCHES:
    OPTIONS[_s] = {_s: True}
QUICK_OPTIONS = ["plain", "detect_aliases", "replace_constant_values", "eliminate_constant_assignments"]
VERSIONS = ["1.0.0", "1.0.1"]
T0 = 1_700_000_000
_EXPECT = {}
_CFG = {}


class World:
    def __init__(self):
        self.root = common.new_scratch("c20")
        self.mdir = os.path.join(self.root, "model")
        self.ldir = os.path.join(self.root, "lib")
        self.tick = 0
        self.main, self.lib, self.part = "A", "A", "A"
        self.extras = frozenset()
        self.opt = "plain"
        self.ver = 0
        self.mode = "cache"
        self.cache = None  # description of what the cache file was built from
        self.dirty = False  # a source got a later mtime than the cache file
        self._write(self.mdir, "Main.mo", MAIN["A"])
        self._write(self.mdir, "Part.mo", PART["A"])
        self._write(self.ldir, "Lib.mo", LIB["A"])

    def now(self):
        self.tick += 1
        return T0 + self.tick

    def _write(self, folder, name, text):
        mcache.write_files(folder, {name: text}, mtime=self.now())

    def desc(self):
        return (self.main, self.part, self.lib, self.extras, self.opt, self.ver, self.mode)

    def options(self):
        o = dict(OPTIONS[self.opt])
        o[self.mode] = True
        o["library_folders"] = [self.ldir]
        return o

    def clone(self):
        w = World.__new__(World)
        w.__dict__.update(self.__dict__)
        w.root = common.new_scratch("c20")
        shutil.rmtree(w.root)
        shutil.copytree(self.root, w.root, copy_function=shutil.copy2)
        w.mdir = os.path.join(w.root, "model")
        w.ldir = os.path.join(w.root, "lib")
        return w

    def events(self):
        evs = [("T",)]
        evs += [("main", v) for v in "AB"] + [("part", v) for v in "AB"] + [("lib", v) for v in "AB"]
        evs += [("add", "model"), ("add", "lib")]
        names = list(OPTIONS) if _CFG.get("tier") == "thorough" else QUICK_OPTIONS
        evs += [("opt", o) for o in names if o != self.opt]
        evs += [("ver", i) for i in range(len(VERSIONS)) if i != self.ver]
        if _CFG.get("tier") == "thorough":
            evs += [("mode", m) for m in ("cache", "codegen") if m != self.mode]
        return evs

    def apply(self, ev):
        """Returns violations (only T can produce any)."""
        k = ev[0]
        if k == "main":
            self.main = ev[1]
            self._write(self.mdir, "Main.mo", MAIN[ev[1]])
            self.dirty = True
        elif k == "part":
            self.part = ev[1]
            self._write(self.mdir, "Part.mo", PART[ev[1]])
            self.dirty = True
        elif k == "lib":
            self.lib = ev[1]
            self._write(self.ldir, "Lib.mo", LIB[ev[1]])
            self.dirty = True
        elif k == "add":
            name = "Other_%s.mo" % ev[1]
            if (ev[1], name) in self.extras:
                return []
            self.extras = self.extras | {(ev[1], name)}
            self._write(self.mdir if ev[1] == "model" else self.ldir, name, OTHER.replace("Other", "Other_" + ev[1]))
            self.dirty = True
        elif k == "opt":
            self.opt = ev[1]
        elif k == "ver":
            self.ver = ev[1]
        elif k == "mode":
            self.mode = ev[1]
        elif k == "T":
            return self.transfer()
        return []

    def transfer(self):
        from pymoca.backends.casadi import api

        api.__version__ = VERSIONS[self.ver]
        cfile = os.path.join(self.mdir, "Main.pymoca_cache")
        before = os.stat(cfile).st_mtime_ns if os.path.exists(cfile) else None
        cwd = os.getcwd()
        os.chdir(self.mdir)
        try:
            try:
                m = api.transfer_model(self.mdir, "Main", self.options())
            except Exception as e:
                return [("transfer-raises:" + common.exc_sig(e), "transfer_model raised %r in state %r (cache built from %r)" % (e, self.desc(), self.cache))]
            after = os.stat(cfile).st_mtime_ns if os.path.exists(cfile) else None
            if after != before:
                # the cache file was (re)written: in real time that happens after every edit so far
                t = self.now()
                for f in os.listdir(self.mdir):
                    if not f.endswith(".mo"):
                        os.utime(os.path.join(self.mdir, f), (t, t))
                self.cache = self.desc()
                self.dirty = False
            if isinstance(m, api.CachedModel):
                # a cache that was *loaded* must have been written for the current version and options
                import pickle

                from pymoca.backends.casadi._options import _merge_default_options

                with open(cfile, "rb") as f:
                    db = pickle.load(f)
                cur = _merge_default_options(self.options())
                if cur.get("cache") and not cur.get("expand_mx"):
                    cur["expand_mx"] = True
                rec = {k: v for k, v in db["options"].items() if k != "library_folders"}
                cur = {k: v for k, v in cur.items() if k != "library_folders"}
                if db["version"] != VERSIONS[self.ver]:
                    return [("loaded-cache-of-other-version", "transfer_model loaded a cache written by version %r while running as %r" % (db["version"], VERSIONS[self.ver]))]
                if rec != cur:
                    bad = sorted(k for k in cur if rec.get(k) != cur[k])
                    return [("loaded-cache-of-other-options:" + "+".join(bad), "transfer_model loaded a cache written for options that differ in %r" % bad)]
            got = mcache.canon(m)
            exp = expected(self)
            d = mcache.diff(exp, got)
            if d:
                used = "the cache" if isinstance(m, api.CachedModel) else "a recompile"
                return [
                    (
                        "stale-or-wrong-model:%s" % d[0][0],
                        "transfer_model (%s) differs from compiling the current sources: %s; state %r, cache built from %r, edited since: %r"
                        % (used, d[0][1][:400], self.desc(), self.cache, self.dirty),
                    )
                ]
            return []
        finally:
            os.chdir(cwd)

    def key(self):
        return (self.desc(), self.cache, self.dirty)

    def drop(self):
        shutil.rmtree(self.root, ignore_errors=True)


def expected(w):
    """canon of _compile_model(current sources, current options) -- memoised per source/option description."""
    from pymoca.backends.casadi import api
    from pymoca.backends.casadi._options import _merge_default_options

    k = (w.main, w.part, w.lib, w.extras, w.opt)
    if k not in _EXPECT:
        o = _merge_default_options(w.options())
        o["expand_mx"] = True  # caching implies expanding to SX (transfer_model sets it)
        if o.get("cache") and o.get("codegen"):
            o["cache"] = False
        m = api._compile_model(w.mdir, "Main", o)
        _EXPECT[k] = mcache.canon(m)
    return _EXPECT[k]


def _init(tier):
    _CFG["tier"] = tier


def build(hist):
    w = World()
    for ev in hist:
        w.apply(tuple(ev))
    return w


def expand(hist):
    out = []
    base = build(hist)
    for ev in base.events():
        w = base.clone()
        viol = w.apply(ev)
        out.append({"ev": list(ev), "key": w.key(), "viol": viol, "stop": bool(viol)})
        w.drop()
    base.drop()
    return out


def run(ctx):
    _init(ctx.tier)
    depth = 5 if ctx.tier == "quick" else 7
    with common.Pool(init=_init, initargs=(ctx.tier,)) as pool:
        w0 = build(())
        k0 = w0.key()
        w0.drop()
        st = bfs.search(ctx, pool, expand, init_key=k0, max_depth=depth)
    ctx.coverage.update(st)
    ctx.coverage.update(
        {
            "traces_validated_against_impl": st["transitions"],
            "evaluations": st["transitions"],
            "distinct_nontrivial": max(0, st["states"] - 1),
            "exhaustive": True,
            "bound": {"history_length": depth, "closed_before_bound": bool(st["closed"])},
            "rule": "BFS over {transfer_model; rewrite Main.mo with variant A|B; rewrite the library file with variant A|B; add an "
            "unrelated .mo file to the model / library folder; rewrite Part.mo (a second file in the model folder that Main uses); switch between single-switch option sets (4 quick, 10 thorough); switch the pymoca version"
            + ("; switch cache/codegen" if ctx.tier == "thorough" else "")
            + "}; every edit gets the next tick of a logical clock as mtime, the cache file gets the next tick when it is written; "
            "state = (source variants, extra files, options, version, what the cache was built from, edited-since flag); "
            "every transfer_model result is compared with _compile_model of the current sources/options.",
        }
    )
    ctx.assumptions += [
        "every edit has a strictly later mtime than the cache (the property's premise); mtime_check=False and pointing library_folders at older files are outside it",
    ]


def replay(case):
    _init("thorough")
    w = World()
    ok = True
    for ev in case["history"]:
        v = w.apply(tuple(ev))
        print(ev, "->", [m for _, m in v] or "ok")
        ok = ok and not v
    w.drop()
    return ok
