"""C20 -- the model cache is never used when stale.

E1: BFS over histories of source edits (each with a strictly later mtime, set explicitly from a logical
clock), file additions that change the flattened model, option changes (Boolean switches AND value changes of
the non-Boolean options), version changes and real transfer_model calls on one model folder + library folders.
Every transfer_model result is compared (vf.core.mcache.canon) with _compile_model of the current sources under
the current options.

Process state is part of the explored state: a history is replayed *in one process against one folder path*
(the way an application uses pymoca; every history gets a folder path of its own, never reused), and the
abstract state records what the cache code of this process has been through for that folder ("proc": nothing /
compiled only / last load attempt hit / missed).  So anything pymoca remembers per process about a folder, a
file or a cache between two transfer_model calls is exercised.  transfer_model is the only event that runs
pymoca code and is evaluated after its siblings, so sibling transitions cannot disturb each other.
"""
import hashlib
import os
import pickle
import shutil
import traceback

from vf.core import bfs, common, mcache

LEVEL = "model_checking"

# The model uses one top-level constant package per "slot" (C0..C3, all k = 1, defined in the library).  An
# added file `within P; package C<i> ... k = <i+2>` puts P.C<i> in front of it, so *adding* that file changes
# the flattened model of P.Main without touching any existing file.
_MAIN = """package P
  model Main
    extends LibBase;
    Part prt;
    parameter Real p = %(p)s;
    parameter Real q = 2 * p;
    constant Real c = 4;
    Real x(start = 1);
    Real a;
    Real z;
    Real a_aux;
    Real b_aux;
    Real v[2];
    Real s;
    Real dx;
    Real g[2];
    Real f0;
    Real f1;
    Real fz;
    Real fh;
  equation
    f0 = 0;
    f1 = 1;
    f0 = fz - fh;
    fh = f1;
    der(x) = -p * x + c + a_aux + b_aux%(extra)s;
    a = x;
    z = 3 * C0.k + 5 * C1.k + 7 * C2.k + 11 * C3.k;
    a_aux = 2 * x;
    b_aux = 3 * x + 1;
    v[1] = x;
    v[2] = 2 * x + v[1];
    s = sq(x) + q;
    dx = der(x);
    for i in 1:2 loop
      g[i] = i * x;
    end for;
  end Main;
end P;
"""
MAIN = {"A": _MAIN % {"p": "2", "extra": ""}, "B": _MAIN % {"p": "3", "extra": " + 1"}}
PART = {
    "A": "model Part\n  Real w(max = 10);\nequation\n  w = 1;\nend Part;\n",
    "B": "model Part\n  Real w(max = 20);\nequation\n  w = 2;\nend Part;\n",
}
_LIB = "model LibBase\n  parameter Real k = %s;\n  Real y%s;\nequation\n  y = %s;\nend LibBase;\nfunction sq\n  input Real u;\n  output Real r;\nalgorithm\n  r := 2 * u + 1;\nend sq;\n"
LIB = {"A": _LIB % ("1", "", "k"), "B": _LIB % ("5", "(min = 0)", "2 * k"), "C": _LIB % ("7", "(min = -1)", "3 * k")}
NSLOT = 4
CONSTS = "".join("package C%d\n  constant Real k = 1;\nend C%d;\n" % (i, i) for i in range(NSLOT))
SHADOW = "within P;\npackage C%d\n  constant Real k = %d;\nend C%d;\n"
# pymoca's code generation cannot handle a qualified model name (CasADi's CodeGenerator takes ".Main_dae_residual" for
# a file suffix and writes no ".c" file), so the codegen profile compiles this top-level class instead.  A class
# that extends P.Main from outside P does not see the shadowing packages (pymoca looks the inherited names up from
# the extending class), hence no model-changing additions in that profile.
TOP = "model Top\n  extends P.Main;\nend Top;\n"
OTHER = "model Other_%s\n  Real q;\nequation\n  q = 1;\nend Other_%s;\n"
# addable files: id -> (folder, relative path, text).  0..3 change the model (top level / new subfolder of the
# model folder / of the library folder), U0 / U1 are unrelated to the model.
ADDS = {
    0: ("model", "PC0.mo", SHADOW % (0, 2, 0)),
    1: ("lib", os.path.join("sub", "PC1.mo"), SHADOW % (1, 3, 1)),
    2: ("model", os.path.join("sub", "PC2.mo"), SHADOW % (2, 4, 2)),
    3: ("lib", "PC3.mo", SHADOW % (3, 5, 3)),
    "U0": ("model", "Other_model.mo", OTHER % ("model", "model")),
    "U1": ("lib", "Other_lib.mo", OTHER % ("lib", "lib")),
}
# Option sets.  Every option of _options.py:
#   Boolean, default False -> one set switching it on; Boolean, default True -> one set switching it off;
#   eliminable_variable_expression (str | None) -> two different regular expressions (they eliminate different
#     variables of Main; the option demands expand_mx, which caching implies anyway);
#   allow_derivative_aliases only acts under detect_aliases -> combined set;
#   library_folders (list) -> separate event "libs" (two folders holding different libraries);
#   cache / codegen -> "mode" event; mtime_check=False is the user opting out (outside the property).
# Observable in the compiled model of Main (by value): expand_vectors, resolve_parameter_values,
# replace_parameter_expressions, eliminate_constant_assignments, replace_parameter_values, replace_constant_values,
# detect_aliases, detect_aliases+allow_derivative_aliases=False, both regular expressions (and they differ from
# each other).  Not observable in the model (verbose, check_balanced, unroll_loops, inline_functions, expand_mx,
# replace_constant_expressions, factor_and_simplify_equations, reduce_affine_expression give an equal model here):
# for those only the second clause (a loaded cache was written for the current options) can fail.
SWITCH_ON = [
    "detect_aliases", "replace_constant_values", "eliminate_constant_assignments", "replace_parameter_values",
    "expand_vectors", "replace_parameter_expressions", "replace_constant_expressions", "resolve_parameter_values",
    "factor_and_simplify_equations", "reduce_affine_expression", "verbose", "expand_mx",
]  # fmt: skip
SWITCH_OFF = ["check_balanced", "unroll_loops", "inline_functions"]
OPTIONS = {"plain": {}}
for _s in SWITCH_ON:
    OPTIONS[_s] = {_s: True}
for _s in SWITCH_OFF:
    OPTIONS["no_" + _s] = {_s: False}
OPTIONS["aliases_no_der"] = {"detect_aliases": True, "allow_derivative_aliases": False}
OPTIONS["elim_a"] = {"eliminable_variable_expression": "a_.*", "expand_mx": True}
OPTIONS["elim_b"] = {"eliminable_variable_expression": "b_.*", "expand_mx": True}
# iterative_simplification is honoured by Model.simplify but is not in the table of default options: "simp" and
# "simp_iter" differ in that key only, and the chain f0 = 0; f1 = 1; f0 = fz - fh; fh = f1 is reduced further by iterating
_SIMP = {"detect_aliases": True, "eliminate_constant_assignments": True, "replace_constant_values": True, "replace_constant_expressions": True, "factor_and_simplify_equations": True}
OPTIONS["simp"] = dict(_SIMP)
OPTIONS["simp_iter"] = dict(_SIMP, iterative_simplification=True)
QUICK_OPTIONS = ["plain", "simp", "simp_iter", "elim_a", "elim_b"]
# An exploration profile = an alphabet + a bound.  The quick tier is the profile "base"; the thorough tier runs
# "base" one event deeper (and with process restarts) and then widens one dimension at a time over it.
#   files: which of the three existing files are rewritten; touch: also with their present content;
#   adds: which files can be added; opts: option sets; libs / ver / mode / restart: whether those events exist.
_BASE = dict(files=("main", "part", "lib"), touch=False, adds=(0, 1), opts=tuple(QUICK_OPTIONS), libs=True, ver=True, mode=False, restart=False)
PROFILES = {
    "quick": [dict(_BASE, name="base", depth=5)],
    "thorough": [
        dict(_BASE, name="base+restart", depth=6, restart=True),
        dict(_BASE, name="options", depth=5, files=("main",), adds=(), opts=tuple(o for o in OPTIONS if o != "expand_mx")),
        dict(_BASE, name="files", depth=5, touch=True, adds=(0, 1, 2, 3, "U0", "U1"), opts=("plain", "elim_a"), ver=False),
        dict(_BASE, name="codegen", depth=5, files=("main", "part"), adds=(), opts=("plain", "expand_mx", "elim_a", "elim_b"), libs=False, mode=True, init=(("top",),)),
    ],
}
REPLAY_PROFILE = dict(_BASE, name="replay", depth=None, mode=True, restart=True, touch=True, adds=tuple(ADDS), opts=tuple(OPTIONS))
# versions that a sloppy comparison could identify: same release with and without a local build segment
VERSIONS = ["1.0.0", "1.0.0+3.gabc1234", "1.0.1"]
MODEL_NAME = "P.Main"
T0 = 1_700_000_000
_EXPECT = {}
_CFG = {}


def _in_child(fn, *args):
    """Run fn(*args) in a fork of the calling process and return its (pickled) result."""
    r, w = os.pipe()
    pid = os.fork()
    if pid == 0:
        code = 0
        try:
            os.close(r)
            try:
                out = ("ok", fn(*args))
            except BaseException:
                out = ("err", traceback.format_exc())
            with os.fdopen(w, "wb") as f:
                pickle.dump(out, f, protocol=-1)
        except BaseException:
            code = 1
        finally:
            os._exit(code)
    os.close(w)
    with os.fdopen(r, "rb") as f:
        data = f.read()
    os.waitpid(pid, 0)
    if not data:
        raise RuntimeError("C20: forked evaluation of %s died without a result" % fn.__name__)
    kind, val = pickle.loads(data)
    if kind == "err":
        raise RuntimeError("C20: forked evaluation of %s failed:\n%s" % (fn.__name__, val))
    return val


class World:
    def __init__(self):
        self.root = common.new_scratch("c20")
        self.mdir = os.path.join(self.root, "model")
        # the model folder's path is a string prefix of the library folders' paths (and one library's of the other's)
        self.ldirs = [os.path.join(self.root, "model_lib"), os.path.join(self.root, "model_lib2")]
        self.tick = 0
        self.main, self.lib, self.part = "A", "A", "A"
        self.extras = frozenset()
        self.opt = "plain"
        self.ver = 0
        self.mode = "cache"
        self.libsel = 0  # library_folders = [ldirs[libsel]]
        self.cache = None  # description of what the cache file was built from
        self.dirty = False  # a source got a later mtime than the cache file
        # what the cache code has been through *in this process*: "none" (no transfer_model yet), "compiled"
        # (only calls that found no cache file), "hit" / "miss" (outcome of the latest call that found one)
        self.proc = "none"
        self.model = MODEL_NAME
        self.ref_in_child = False  # replay: keep the reference compile out of the observed process
        self.dry = False  # only compute the successor's description, leave the folder alone
        self._write(self.mdir, "P.mo", MAIN["A"])
        self._write(self.mdir, "Part.mo", PART["A"])
        self._write(self.ldirs[0], "Lib.mo", LIB["A"])
        self._write(self.ldirs[0], "Consts.mo", CONSTS)
        self._write(self.ldirs[1], "Lib.mo", LIB["C"])
        self._write(self.ldirs[1], "Consts.mo", CONSTS)

    def now(self):
        self.tick += 1
        return T0 + self.tick

    def _write(self, folder, name, text):
        t = self.now()
        if not self.dry:
            mcache.write_files(folder, {name: text}, mtime=t)

    def successor_key(self, ev):
        """Abstract state after a non-transfer event (such events never run pymoca code: they only write files)."""
        assert ev[0] != "T"
        w = World.__new__(World)
        w.__dict__.update(self.__dict__)
        w.dry = True
        w.apply(ev)
        return w.key()

    def desc(self):
        return (self.main, self.part, self.lib, tuple(sorted(self.extras, key=str)), self.opt, self.ver, self.mode, self.libsel)

    def options(self):
        o = dict(OPTIONS[self.opt])
        o[self.mode] = True
        o["library_folders"] = [self.ldirs[self.libsel]]
        return o

    def events(self):
        pr = _CFG["profile"]
        evs = [("T",)]
        # rewriting a file with its present content (a pure touch) can only cause a recompile of the same model
        same = pr["touch"]
        for f in pr["files"]:
            if f != "lib" or self.libsel == 0:  # edits / additions go to the library in use
                evs += [(f, v) for v in "AB" if same or v != getattr(self, f)]
        for a in pr["adds"]:
            if a not in self.extras and (ADDS[a][0] == "model" or self.libsel == 0):
                evs.append(("add", a))
        evs += [("opt", o) for o in pr["opts"] if o != self.opt]
        if pr["libs"]:
            evs += [("libs", i) for i in range(len(self.ldirs)) if i != self.libsel]
        if pr["ver"]:
            evs += [("ver", i) for i in range(len(VERSIONS)) if i != self.ver]
        if pr["mode"]:
            evs += [("mode", m) for m in ("cache", "codegen") if m != self.mode]
        if pr["restart"] and self.proc != "none":
            evs.append(("restart",))
        return evs

    def apply(self, ev, check=True):
        """Returns violations (only T can produce any)."""
        k = ev[0]
        if k == "main":
            self.main = ev[1]
            self._write(self.mdir, "P.mo", MAIN[ev[1]])
            self.dirty = True
        elif k == "part":
            self.part = ev[1]
            self._write(self.mdir, "Part.mo", PART[ev[1]])
            self.dirty = True
        elif k == "lib":
            self.lib = ev[1]
            self._write(self.ldirs[0], "Lib.mo", LIB[ev[1]])
            self.dirty = True
        elif k == "add":
            if ev[1] in self.extras:
                return []
            where, rel, text = ADDS[ev[1]]
            self.extras = self.extras | {ev[1]}
            self._write(self.mdir if where == "model" else self.ldirs[0], rel, text)
            self.dirty = True
        elif k == "libs":
            # library_folders now names another folder, whose files are later than the cache (a library that was
            # just installed / updated): the property's premise; the folder left behind is not touched.
            self.libsel = ev[1]
            t = self.now()
            for d, _dirs, files in os.walk(self.ldirs[self.libsel]) if not self.dry else ():
                for f in files:
                    if f.endswith(".mo"):
                        os.utime(os.path.join(d, f), (t, t))
            self.dirty = True
        elif k == "opt":
            self.opt = ev[1]
        elif k == "ver":
            self.ver = ev[1]
        elif k == "mode":
            self.mode = ev[1]
        elif k == "top":
            # set-up pseudo-event (first in every history of the codegen profile): the model is the top-level class Top
            self.model = "Top"
            self._write(self.mdir, "Top.mo", TOP)
        elif k == "restart":
            self.proc = "none"  # the caller continues in a process that has not used pymoca yet
        elif k == "T":
            return self.transfer(check)
        return []

    def transfer(self, check=True):
        from pymoca.backends.casadi import api

        api.__version__ = VERSIONS[self.ver]
        cfile = os.path.join(self.mdir, self.model + ".pymoca_cache")
        before = os.stat(cfile).st_mtime_ns if os.path.exists(cfile) else None
        cwd = os.getcwd()
        os.chdir(self.mdir)
        try:
            try:
                m = api.transfer_model(self.mdir, self.model, self.options())
            except Exception as e:
                return [("transfer-raises:" + common.exc_sig(e), "transfer_model raised %r in state %r (cache built from %r)" % (e, self.desc(), self.cache))]
            after = os.stat(cfile).st_mtime_ns if os.path.exists(cfile) else None
            if before is None:
                self.proc = "compiled" if self.proc in ("none", "compiled") else self.proc
            else:
                self.proc = "hit" if isinstance(m, api.CachedModel) else "miss"
            if after != before:
                # the cache file was (re)written: in real time that happens after every edit so far
                t = self.now()
                for f in os.listdir(self.mdir):
                    if not f.endswith(".mo") and os.path.isfile(os.path.join(self.mdir, f)):
                        os.utime(os.path.join(self.mdir, f), (t, t))
                self.cache = self.desc()
                self.dirty = False
            if not check:
                return []
            if isinstance(m, api.CachedModel):
                # a cache that was *loaded* must have been written for the current version and options
                from pymoca.backends.casadi._options import _merge_default_options

                with open(cfile, "rb") as f:
                    db = pickle.load(f)
                cur = _merge_default_options(self.options())
                if cur.get("cache") and not cur.get("expand_mx"):
                    cur["expand_mx"] = True
                rec = {k: v for k, v in db["options"].items() if k != "library_folders"}
                cur = {k: v for k, v in cur.items() if k != "library_folders"}
                if db["version"] != VERSIONS[self.ver]:
                    return [("loaded-cache-of-other-version", "transfer_model loaded a cache written by version %r while running as %r" % (db["version"], VERSIONS[self.ver]))]
                if rec != cur:
                    bad = sorted(k for k in cur if rec.get(k) != cur[k])
                    return [("loaded-cache-of-other-options:" + "+".join(bad), "transfer_model loaded a cache written for options that differ in %r" % bad)]
            got = mcache.canon(m)
            exp = _in_child(expected, self) if self.ref_in_child else expected(self)
            d = mcache.diff(exp, got)
            if d:
                used = "the cache" if isinstance(m, api.CachedModel) else "a recompile"
                return [
                    (
                        "stale-or-wrong-model:%s" % d[0][0],
                        "transfer_model (%s) differs from compiling the current sources: %s; state %r, cache built from %r, edited since: %r, this process before the call: see history"
                        % (used, d[0][1][:400], self.desc(), self.cache, self.dirty),
                    )
                ]
            return []
        finally:
            os.chdir(cwd)

    def key(self):
        return (self.desc(), self.cache, self.dirty, self.proc)

    def drop(self):
        shutil.rmtree(self.root, ignore_errors=True)


def expected(w):
    """canon of _compile_model(current sources, current options) -- memoised per source/option description (in
    this process, and for the run in a directory shared by the workers).  Only called as the last thing a forked
    evaluation does, so the reference compile never runs in a process whose later behaviour is observed."""
    from pymoca.backends.casadi import api
    from pymoca.backends.casadi._options import _merge_default_options

    k = (w.model, w.main, w.part, w.lib, tuple(sorted(w.extras, key=str)), w.opt, w.libsel)
    if k in _EXPECT:
        return _EXPECT[k]
    shared = _CFG.get("expect_dir")
    path = os.path.join(shared, hashlib.sha1(repr(k).encode()).hexdigest() + ".pkl") if shared else None
    if path and os.path.exists(path):
        with open(path, "rb") as f:
            _EXPECT[k] = pickle.load(f)
        return _EXPECT[k]
    o = _merge_default_options(w.options())
    o["expand_mx"] = True  # caching implies expanding to SX (transfer_model sets it); equal by value otherwise
    if o.get("cache") and o.get("codegen"):
        o["cache"] = False
    m = api._compile_model(w.mdir, w.model, o)
    _EXPECT[k] = mcache.canon(m)
    if path:
        tmp = "%s.%d.tmp" % (path, os.getpid())
        with open(tmp, "wb") as f:
            pickle.dump(_EXPECT[k], f, protocol=-1)
        os.replace(tmp, path)
    return _EXPECT[k]


def _init(profile, expect_dir=None, warm=True):
    _CFG["profile"] = profile
    _CFG["expect_dir"] = expect_dir
    # import (only import) everything the forked evaluations need, so that a fork starts with the modules loaded
    import pymoca.backends.casadi.api  # noqa: F401
    import pymoca.parser  # noqa: F401

    from vf.core import cas  # noqa: F401

    if warm and profile.get("restart"):
        _warm_up()


def _warm_up():
    """One reference compile of every source text in a folder of its own (never the cache code): fills this
    process's parse cache and the parser's / CasADi's lazily built tables, so that forks do not start cold."""
    from pymoca.backends.casadi import api
    from pymoca.backends.casadi._options import _merge_default_options

    root = common.new_scratch("c20warm")
    try:
        for i, (m, p, lib) in enumerate([("A", "A", "A"), ("B", "B", "B"), ("A", "A", "C")]):
            md, ld = os.path.join(root, "m%d" % i), os.path.join(root, "l%d" % i)
            mcache.write_files(md, {"P.mo": MAIN[m], "Part.mo": PART[p]})
            mcache.write_files(ld, {"Lib.mo": LIB[lib], "Consts.mo": CONSTS})
            for a, (where, rel, text) in ADDS.items():
                if i == 1:
                    mcache.write_files(md if where == "model" else ld, {rel: text})
            o = _merge_default_options({"library_folders": [ld], "expand_mx": True})
            mcache.canon(api._compile_model(md, MODEL_NAME, o))
    finally:
        shutil.rmtree(root, ignore_errors=True)


def _segments(hist):
    """Split a history at ("restart",) events: each segment runs in its own fresh process."""
    segs = [[]]
    for ev in hist:
        ev = tuple(ev)
        segs[-1].append(ev)
        if ev[0] == "restart":
            segs.append([])
    return segs


def _replay_segment(w, seg):
    for ev in seg:
        w.apply(ev, check=False)
    return w


def _expand_last(w, seg, only_t):
    """Runs in the process that carries the history's tail: replay it, describe the successor of every enabled
    non-transfer event (they do not involve pymoca), and finally evaluate the one event that does: transfer_model."""
    _replay_segment(w, seg)
    out = []
    for ev in [] if only_t else w.events():
        if ev[0] != "T":
            out.append({"ev": list(ev), "key": w.successor_key(ev), "viol": [], "stop": False})
    viol = w.apply(("T",))
    out.insert(0, {"ev": ["T"], "key": w.key(), "viol": viol, "stop": bool(viol)})
    return out


def expand(hist):
    """One history = one fresh folder path, replayed in the calling (long-lived worker) process, so that whatever
    pymoca remembers per process about a folder or a file is carried from one transfer_model call to the next.
    The siblings cannot disturb each other: transfer_model is the only event that runs pymoca code and it is
    evaluated last.  A history with ("restart",) events runs each segment in a process of its own (a fork of the
    worker, which has never seen this path)."""
    segs = _segments(hist)
    w = World()
    try:
        # a history of maximal length can only violate through a final transfer_model
        depth = _CFG["profile"]["depth"]
        only_t = depth is not None and len([e for e in hist if e[0] != "top"]) + 1 >= depth
        if len(segs) == 1:
            return _expand_last(w, segs[0], only_t)
        for seg in segs[:-1]:
            w = _in_child(_replay_segment, w, seg)
        return _in_child(_expand_last, w, segs[-1], only_t)
    finally:
        w.drop()


def run(ctx):
    expect_dir = os.path.join(common.scratch_root(), "c20_expect")
    os.makedirs(expect_dir, exist_ok=True)
    tot = {"states": 0, "transitions": 0}
    per, closed = [], True
    profiles = PROFILES[ctx.tier]
    only = os.environ.get("VERIF_C20_PROFILES")  # development aid: run a subset of the tier's profiles
    if only:
        profiles = [pr for pr in profiles if pr["name"] in only.split(",")]
        ctx.cap("only the profiles %s of the %s tier were run (VERIF_C20_PROFILES)" % (only, ctx.tier))
    for pr in profiles:
        _init(pr, expect_dir, warm=False)
        with common.Pool(init=_init, initargs=(pr, expect_dir)) as pool:
            w0 = World()
            for ev in pr.get("init", ()):
                w0.apply(ev)
            k0 = w0.key()
            w0.drop()
            st = bfs.search(ctx, pool, expand, init_key=k0, max_depth=pr["depth"], init_hist=pr.get("init", ()))
        per.append(dict(st, profile={k: (list(v) if isinstance(v, tuple) else v) for k, v in pr.items()}))
        tot["states"] += st["states"]
        tot["transitions"] += st["transitions"]
        closed = closed and bool(st["closed"])
    nexp = len([f for f in os.listdir(expect_dir) if f.endswith(".pkl")])
    ctx.coverage.update(
        {
            "states": tot["states"],
            "transitions": tot["transitions"],
            "closed": closed,
            "profiles": per,
            "traces_validated_against_impl": tot["transitions"],
            "evaluations": tot["transitions"],
            "distinct_nontrivial": max(0, tot["states"] - len(per)),
            "reference_compiles": nexp,
            "exhaustive": True,
            "bound": {"history_length": [pr["depth"] for pr in profiles], "closed_before_bound": closed},
            "rule": "BFS, per profile (alphabet + history length, listed under 'profiles'), over {transfer_model; rewrite P.mo (model P.Main), "
            "Part.mo (second file of the model folder) or the library file with the other variant (touch: or the same one); add a .mo "
            "file that changes the flattened model (a package shadowing one the model uses: 0 = model folder, 1 = new subfolder of the "
            "library folder, 2 = new subfolder of the model folder, 3 = library folder) or an unrelated one (U0, U1); switch between option "
            "sets (every Boolean option of _options.py switched away from its default, eliminable_variable_expression 'a_.*' and "
            "'b_.*', detect_aliases with allow_derivative_aliases off); point library_folders at another folder whose files are later "
            "than the cache; switch the pymoca version; switch cache/codegen; restart the process}; every edit gets the next tick "
            "of a logical clock as mtime, the cache file gets the next tick when it is written; a history runs in ONE process on ONE "
            "folder path of its own; state = (source variants, extra files, options, library folder, version, "
            "mode, what the cache was built from, edited-since flag, what this process's cache code has been through: nothing | compiled "
            "| last load hit | missed); the last event of a history of maximal length is always transfer_model (nothing else can "
            "violate); every transfer_model result is compared with _compile_model of the current sources/options, and a cache that was "
            "loaded must have been written for the current version and options.",
        }
    )
    ctx.assumptions += [
        "every edit has a strictly later mtime than the cache (the property's premise); mtime_check=False and pointing library_folders at older files are outside it",
        "files are only added or rewritten, never removed or renamed (the statement lists edits and additions)",
    ]


def replay(case):
    _init(REPLAY_PROFILE)
    w = World()
    w.ref_in_child = True
    ok = True
    try:
        for seg in _segments(case["history"]):
            w, res = _in_child(_replay_checked, w, seg)
            for ev, v in res:
                print(ev, "->", [m for _, m in v] or "ok")
                ok = ok and not v
    finally:
        w.drop()
    return ok


def _replay_checked(w, seg):
    res = []
    for ev in seg:
        res.append((list(ev), w.apply(ev)))
    return w, res
