"""C11 -- the DAE residual (and initial residual) equals lhs - rhs of every flat equation under Modelica
semantics.

E4: bounded-exhaustive families of single-class models (so the flat equations are the source equations):
scalar expression trees as right-hand sides, array / subscript / slice forms, for-equations, if-equations,
initial equations, der() as an independent input, user functions with algorithm sections.  The residual
functions of the generated CasADi model are evaluated on a grid and compared, top-level equation by
top-level equation, with the reference evaluator (vf.ref.mast).
"""
import itertools

import numpy as np

from vf.checks import c03, c11x
from vf.core import cas, common
from vf.ref import expr as X
from vf.ref import mast as M
from vf.ref.mast import B, N, V, Decl, Func, Model

LEVEL = "exploration"
_CFG = {}


# ---- grid -------------------------------------------------------------------------------------------------

PRIMES = [2.5, -1.5, 3.25, 0.75, -2.25, 1.75, 4.5, -0.5, 5.5, -3.75, 6.25, 0.25, -4.25, 7.5, 1.25, -5.75, 8.25, 2.75, -6.5, 9.5]


def _wide(i):
    """PRIMES continued without repetition (4 rounds, each shifted by a further sixteenth): all-distinct values for wide models."""
    return PRIMES[i % len(PRIMES)] + ((i // len(PRIMES)) % 4) / 16.0


def values_for(model, point, seed, pins=None, wide=False):
    """env for one grid point: distinct non-integer values of both signs per scalar / array element,
    Booleans from the bits of `point`, parameters and constants from their declarations.
    pins: {name: value} fixed afterwards; wide: Real values do not repeat within the first 80 elements."""
    env = _values_for(model, point, seed, _wide if wide else (lambda i: PRIMES[i % len(PRIMES)]))
    env.update(pins or {})
    return env


def _values_for(model, point, seed, prime):
    env = {}
    tie = point == 1
    k = (point * 7 + seed * 3) % len(PRIMES)
    bit = 0
    funcs = {f.name: f for f in model.funcs}
    for d in model.decls:
        if d.prefix in ("parameter", "constant") and d.value is not None:
            env[d.name] = M.evn(d.value, env, funcs)
            continue
        dims = tuple(int(M.evn(x, env, funcs)) if isinstance(x, tuple) else int(x) for x in d.dims)
        n = int(np.prod(dims)) if dims else 1
        if d.type == "Boolean":
            vals = [float((point >> ((bit + i) % 3)) & 1) for i in range(n)]
            bit += n
        elif d.type == "Integer":
            vals = [float(int(PRIMES[(k + i) % len(PRIMES)])) for i in range(n)]
            k += n
        elif tie:
            vals = [1.5] * n  # the tie point: every Real equal, so <, <=, ==, <> and min/max part company
        else:
            vals = [prime(k + i) for i in range(n)]
            k += n
        env[d.name] = np.array(vals).reshape(dims) if dims else vals[0]
        # a value for the derivative too (used only if the variable turns out to be differentiated)
        dv = [PRIMES[(k + 5 + i) % len(PRIMES)] * 0.5 for i in range(n)]
        env["der(%s)" % d.name] = np.array(dv).reshape(dims) if dims else dv[0]
    env["time"] = 0.5 + point
    return env


# ---- families ---------------------------------------------------------------------------------------------


def fam_scalar(tier):
    """Expression trees as right-hand sides, packed 12 per model."""
    full = dict(un=["-", "+"], rbin=["+", "-", "*", "/", "^"], rel=["<", "<=", ">", ">=", "==", "<>"], calls=["sin", "abs", "max", "min"], bif=False)
    core = dict(un=["-"], rbin=["+", "-", "*", "/", "^"], rel=["<", ">="], calls=[], bif=False)
    plans = [(full, 2), (core, 3)] if tier == "thorough" else [(full, 2)]
    seen, trees = set(), []
    for ops, nmax in plans:
        memo = {}
        for n in range(1, nmax + 1):
            for t in ("R", "B"):
                for tr in c03.gen(t, n, ops, memo):
                    b = _bind_calls(c03.bind(tr))
                    if b not in seen:
                        seen.add(b)
                        trees.append((t, b))
    out = []
    for i in range(0, len(trees), 12):
        chunk = trees[i : i + 12]
        decls = [Decl(x) for x in "abcd"] + [Decl(x, "Boolean") for x in "pq"]
        eqs = []
        for j, (t, tr) in enumerate(chunk):
            decls.append(Decl("v%d" % j, "Real" if t == "R" else "Boolean"))
            eqs.append(("eq", V("v%d" % j), tr))
        out.append(("scalar-expression", Model("M", decls, eqs)))
    return out


def _bind_calls(t):
    return t


def fam_arrays(tier):
    out = []
    x3, y3, z3 = Decl("x", dims=(3,)), Decl("y", dims=(3,)), Decl("z", dims=(3,))
    a, s = Decl("a"), Decl("s")
    A23, B32, C23 = Decl("A", dims=(2, 3)), Decl("Bm", dims=(3, 2)), Decl("C", dims=(2, 3))
    forms = [
        ([x3], ("eq", V("x"), ("arr", (N(1), N(2.5), N(3))))),
        ([x3, y3, z3], ("eq", V("x"), B("+", V("y"), V("z")))),
        ([x3, y3, z3], ("eq", V("x"), B("-", V("y"), V("z")))),
        ([x3, y3, z3], ("eq", V("x"), B(".*", V("y"), V("z")))),
        ([x3, y3, z3], ("eq", V("x"), B(".+", V("y"), V("z")))),
        ([x3, y3, z3], ("eq", V("x"), B("./", V("y"), V("z")))),
        ([x3, y3, a], ("eq", V("x"), B("*", V("a"), V("y")))),
        ([x3, y3, a], ("eq", V("x"), B("/", V("y"), V("a")))),
        ([x3, y3, a], ("eq", V("x"), B(".+", V("y"), V("a")))),
        ([x3, y3], ("eq", V("x"), ("un", "-", V("y")))),
        ([x3, y3], ("eq", V("x"), ("call", "sin", (V("y"),)))),
        ([x3, s], ("eq", V("s"), ("call", "sum", (V("x"),)))),
        ([x3], ("eq", V("x"), ("call", "ones", (N(3),)))),
        ([x3], ("eq", V("x"), ("call", "zeros", (N(3),)))),
        ([x3, a], ("eq", V("x"), ("call", "fill", (V("a"), N(3))))),
        ([A23, B32], ("eq", V("A"), ("call", "transpose", (V("Bm"),)))),
        ([A23, C23], ("eq", V("A"), B("+", V("C"), V("C")))),
        ([A23, x3, Decl("w", dims=(2,))], ("eq", V("w"), B("*", V("A"), V("x")))),
    ]
    for decls, eq in forms:
        out.append(("array-equation", Model("M", decls, [eq])))
    # subscripts and slices, every valid position
    for n in (1, 2, 3):
        xs = Decl("x", dims=(n,))
        for i in range(1, n + 1):
            out.append(("subscript", Model("M", [xs, a], [("eq", V("a"), ("idx", "x", (N(i),)))])))
            out.append(("subscript-lhs", Model("M", [xs, a], [("eq", ("idx", "x", (N(i),)), V("a"))])))
        for lo in range(1, n + 1):
            for hi in range(lo, n + 1):
                zs = Decl("z", dims=(hi - lo + 1,))
                out.append(("slice", Model("M", [xs, zs], [("eq", V("z"), ("idx", "x", (("slice", N(lo), N(hi)),)))])))
                out.append(("slice-lhs", Model("M", [xs, zs], [("eq", ("idx", "x", (("slice", N(lo), N(hi)),)), V("z"))])))
        out.append(("slice", Model("M", [xs, Decl("z", dims=(n,))], [("eq", V("z"), ("idx", "x", (("all",),)))])))
    for r, c in ((2, 2), (2, 3)):
        Am = Decl("A", dims=(r, c))
        for i in range(1, r + 1):
            out.append(("subscript-2d", Model("M", [Am, Decl("z", dims=(c,))], [("eq", V("z"), ("idx", "A", (N(i), ("all",))))])))
            for j in range(1, c + 1):
                out.append(("subscript-2d", Model("M", [Am, a], [("eq", V("a"), ("idx", "A", (N(i), N(j))))])))
        for j in range(1, c + 1):
            out.append(("subscript-2d", Model("M", [Am, Decl("z", dims=(r,))], [("eq", V("z"), ("idx", "A", (("all",), N(j))))])))
    # parameter-sized arrays and parameter subscripts
    n3 = Decl("n", "Integer", "parameter", value=N(3))
    out.append(("subscript-parameter", Model("M", [n3, Decl("x", dims=(V("n"),)), a], [("eq", V("a"), ("idx", "x", (B("-", V("n"), N(1)),)))])))
    out.append(("subscript-parameter", Model("M", [n3, Decl("x", dims=(V("n"),)), Decl("z", dims=(2,))], [("eq", V("z"), ("idx", "x", (("slice", N(2), V("n")),)))])))
    return out


def fam_for(tier):
    out = []
    a = Decl("b")
    for n in (1, 2, 3, 4):
        x, y = Decl("x", dims=(n,)), Decl("y", dims=(n,))
        i = V("i")
        bodies = [
            [("eq", ("idx", "x", (i,)), B("+", i, V("b")))],
            [("eq", ("idx", "x", (i,)), B("*", ("idx", "y", (i,)), N(2)))],
            [("eq", ("idx", "x", (i,)), B("*", i, ("idx", "y", (i,))))],
            [("eq", ("idx", "x", (i,)), B("-", ("idx", "y", (i,)), V("b"))), ("eq", ("idx", "y", (i,)), B("*", i, i))],
            [("eq", ("idx", "x", (i,)), ("call", "sin", (("idx", "y", (i,)),)))],
            [("eq", ("idx", "x", (i,)), ("if", B(">", ("idx", "y", (i,)), N(0)), ("idx", "y", (i,)), V("b")))],
        ]
        for body in bodies:
            out.append(("for-equation", Model("M", [x, y, a], [("for", "i", N(1), N(n), body)])))
        if n >= 2:
            out.append(("for-shifted", Model("M", [x, y, a], [("for", "i", N(1), N(n - 1), [("eq", ("idx", "x", (B("+", i, N(1)),)), B("+", ("idx", "x", (i,)), N(1)))])])))
            out.append(("for-shifted", Model("M", [x, y, a], [("for", "i", N(2), N(n), [("eq", ("idx", "x", (i,)), ("idx", "y", (B("-", i, N(1)),)))])])))
            out.append(("for-subrange", Model("M", [x, y, a], [("for", "i", N(2), N(n), [("eq", ("idx", "x", (i,)), B("+", i, V("b")))])])))
        pn = Decl("n", "Integer", "parameter", value=N(n))
        out.append(("for-parameter-bound", Model("M", [pn, Decl("x", dims=(V("n"),)), a], [("for", "i", N(1), V("n"), [("eq", ("idx", "x", (i,)), B("*", i, V("b")))])])))
        out.append(("for-der", Model("M", [x, y, a], [("for", "i", N(1), N(n), [("eq", ("der", ("idx", "x", (i,))), B("*", ("idx", "y", (i,)), V("b")))])])))
    for n in (2, 3):
        W = Decl("w", dims=(2, n))
        i = V("i")
        out.append(("for-2d", Model("M", [W, a], [("for", "i", N(1), N(n), [("eq", ("idx", "w", (N(1), i)), i), ("eq", ("idx", "w", (N(2), i)), B("*", N(2), i))])])))
        U = Decl("u", dims=(n, 2))
        out.append(("for-2d", Model("M", [U, a], [("for", "i", N(1), N(n), [("eq", ("idx", "u", (i, N(1))), B("+", i, V("b"))), ("eq", ("idx", "u", (i, N(2))), V("b"))])])))
    return out


def fam_if(tier):
    out = []
    decls = [Decl("x"), Decl("y"), Decl("z"), Decl("k")]
    conds = [B(">", V("x"), N(1)), B("<", V("x"), N(0)), B("and", B(">", V("x"), N(0)), B("<", V("k"), N(1))), B(">=", V("x"), V("k"))]
    e1 = ("eq", V("y"), B("+", V("k"), N(1)))
    e2 = ("eq", V("y"), B("*", V("k"), V("x")))
    e3 = ("eq", V("y"), N(0))
    f1 = ("eq", V("z"), N(100))
    f2 = ("eq", V("z"), ("un", "-", V("x")))
    f3 = ("eq", V("z"), B("-", V("k"), V("x")))
    for c1 in conds:
        out.append(("if-equation", Model("M", decls, [("ifeq", [(c1, [e1])], [e3])])))
        out.append(("if-equation", Model("M", decls, [("ifeq", [(c1, [e1, f1])], [e3, f3])])))
        for c2 in conds:
            if c2 is not c1:
                out.append(("if-equation-elseif", Model("M", decls, [("ifeq", [(c1, [e1]), (c2, [e2])], [e3])])))
                out.append(("if-equation-elseif", Model("M", decls, [("ifeq", [(c1, [e1, f1]), (c2, [e2, f2])], [e3, f3])])))
    return out


def fam_initial_der(tier):
    out = []
    x, y, a = Decl("x"), Decl("y"), Decl("a")
    out.append(("der", Model("M", [x, a], [("eq", ("der", V("x")), B("*", ("un", "-", V("a")), V("x")))])))
    out.append(("der-in-expression", Model("M", [x, y, a], [("eq", V("y"), B("+", ("der", V("x")), V("a"))), ("eq", ("der", V("x")), V("a"))])))
    out.append(("der-in-expression", Model("M", [x, y, a], [("eq", B("*", N(2), ("der", V("x"))), B("-", V("y"), V("a"))), ("eq", V("y"), V("x"))])))
    out.append(("initial-equation", Model("M", [x, a], [("eq", ("der", V("x")), V("a"))], [("eq", V("x"), B("+", V("a"), N(1)))])))
    out.append(("initial-equation", Model("M", [x, y, a], [("eq", ("der", V("x")), V("a")), ("eq", V("y"), V("x"))], [("eq", V("x"), N(3)), ("eq", ("der", V("x")), B("*", V("y"), N(2)))])))
    out.append(("time", Model("M", [x, a], [("eq", V("x"), B("*", V("a"), ("call", "sin", (V("time"),))))])))
    return out


def fam_functions(tier):
    """functions with <= 3 statements from {assignment, if-statement with else, for-statement}."""
    out = []
    u, w = Decl("u"), Decl("w")
    y, z, t = Decl("y"), Decl("z"), Decl("t")
    assigns = [
        ("assign", V("y"), B("+", B("*", N(2), V("u")), N(1))),
        ("assign", V("y"), B("*", V("u"), V("u"))),
        ("assign", V("y"), B("-", V("u"), N(3))),
    ]
    ifs = [
        ("ifst", [(B(">", V("u"), N(1)), [("assign", V("y"), V("u"))])], [("assign", V("y"), B("*", N(2), V("u")))]),
        ("ifst", [(B("<", V("u"), N(0)), [("assign", V("y"), ("un", "-", V("u")))])], [("assign", V("y"), N(7))]),
    ]
    fors = [
        ("forst", "i", N(1), N(3), [("assign", V("y"), B("*", N(2), V("y")))]),
        ("forst", "i", N(1), N(2), [("assign", V("y"), B("+", V("y"), V("i")))]),
    ]
    mdecls = [Decl("r"), Decl("c")]
    call1 = [("eq", V("c"), ("call", "f", (V("r"),)))]
    for s in assigns + ifs:
        out.append(("function-1", Model("M", mdecls, call1, funcs=[Func("f", [u], [y], [], [s])])))
    for s1 in assigns:
        for s2 in fors + [("assign", V("y"), B("+", V("y"), V("u")))]:
            out.append(("function-2", Model("M", mdecls, call1, funcs=[Func("f", [u], [y], [], [s1, s2])])))
    # protected temporaries
    tmp = Decl("t", value=B("*", V("u"), N(2)))
    out.append(("function-protected", Model("M", mdecls, call1, funcs=[Func("f", [u], [y], [tmp], [("assign", V("y"), B("+", V("t"), N(1)))])])))
    out.append(("function-protected", Model("M", mdecls, call1, funcs=[Func("f", [u], [y], [t], [("assign", V("t"), B("*", V("u"), V("u"))), ("assign", V("y"), B("-", V("t"), V("u")))])])))
    # two inputs, several outputs
    md2 = [Decl("r"), Decl("q"), Decl("c"), Decl("e")]
    f2 = Func("g", [u, w], [y, z], [], [("assign", V("y"), B("-", V("u"), B("*", N(2), V("w")))), ("assign", V("z"), B("+", B("*", V("u"), V("w")), V("u")))])
    out.append(("function-multi-output", Model("M", md2, [("eq", ("tuple", (V("c"), V("e"))), ("call", "g", (V("r"), V("q"))))], funcs=[f2])))
    out.append(("function-in-expression", Model("M", md2, [("eq", V("c"), B("+", ("call", "f", (V("r"),)), ("call", "f", (V("q"),))))], funcs=[Func("f", [u], [y], [], [assigns[0]])])))
    if3 = ("ifst", [(B(">", V("u"), N(1)), [("assign", V("y"), N(1)), ("assign", V("z"), N(10))])], [("assign", V("y"), N(2)), ("assign", V("z"), V("u"))])
    out.append(("function-if-two-vars", Model("M", md2, [("eq", ("tuple", (V("c"), V("e"))), ("call", "g", (V("r"),)))], funcs=[Func("g", [u], [y, z], [], [if3])])))
    if tier == "thorough":
        for s1, s2, s3 in itertools.product(assigns, ifs + fors, assigns[:1] + fors):
            out.append(("function-3", Model("M", mdecls, call1, funcs=[Func("f", [u], [y], [], [s1, s2, s3])])))
    return out


FAMILIES = [fam_scalar, fam_arrays, fam_for, fam_if, fam_initial_der, fam_functions, c11x.fam_chains, c11x.fam_matrix, c11x.fam_matrix_power]


# ---- checking ---------------------------------------------------------------------------------------------


def segments(eqs, env, funcs):
    """One (values, ordered) pair per top-level equation.  A plain equation whose two sides have the same shape under
    Modelica semantics is lhs - rhs element by element, in column-major order (the layout of every array in the
    model's variable vectors and of veccat, which builds the residual vector): ordered = True.  For-equations,
    if-equations and tuple equations stay multisets (the unrolling order is incidental).  values = None with the
    length in its place when the reference is undefined for that equation at this point."""
    out = []
    for e in eqs:
        if e[0] == "eq" and e[1][0] != "tuple":
            sides = []
            for side in (e[1], e[2]):
                try:
                    sides.append(np.asarray(M.evn(side, env, funcs), dtype=float))
                except X.Undefined:
                    sides.append(None)
            l, r = sides
            if l is None and r is None:
                raise X.Undefined()
            if l is None or r is None:
                out.append((None, (r if l is None else l).size))
                continue
            if l.shape == r.shape:
                out.append(((l - r).flatten(order="F"), True))
                continue
        out.append((M.residuals([e], env, funcs)[0], False))
    return out


def same_ordered(a, b, rtol=1e-9):
    a, b = np.asarray(a, dtype=float).ravel(), np.asarray(b, dtype=float).ravel()
    if a.shape != b.shape:
        return False
    return bool(np.all(np.abs(a - b) <= rtol * np.maximum(1.0, np.maximum(np.abs(a), np.abs(b)))))


def model_points(model, seed, npoints):
    """The grid of one model: [(point index, pins)].  Models of the chain families carry the variable their conditions
    test; it is pinned to every region between the thresholds and to every threshold, one grid point each."""
    var = getattr(model, "pin_var", None)
    if var is None:
        return [(p, None) for p in range(npoints)]
    return [(p, {var: v}) for p, v in enumerate(c11x.chain_pins(seed))]


def check_model(job):
    fam, text_model, seed, npoints = job
    model = text_model
    text = model.text()
    try:
        cm = cas.generate(text, model.name)
        fres = cm.dae_residual_function
        fini = cm.initial_residual_function
        del fres, fini
    except Exception as e:
        return {"fam": fam, "viol": [("generate-raises:%s:%s" % (fam, common.exc_sig(e)), "%s model does not generate: %r\n%s" % (fam, e, text), {"text": text})], "points": 0}
    funcs = {f.name: f for f in model.funcs}
    viol = []
    points = 0
    stats = {"ordered": 0, "overlap": 0, "overlap_chains": set(), "skipped": 0, "asym": 0}
    for p, pins in model_points(model, seed, npoints):
        env = values_for(model, p, seed, pins=pins, wide=getattr(model, "wide", False))
        for j, conds in enumerate(getattr(model, "chains", ())):
            if sum(1 for c in conds if M.evn(c, env, funcs) != 0) >= 2:
                stats["overlap"] += 1
                stats["overlap_chains"].add(j)
        for initial, eqs in ((False, model.eqs), (True, model.init_eqs)):
            if initial and not eqs:
                continue
            try:
                segs = segments(eqs, env, funcs)
            except X.Undefined:
                continue
            try:
                got = cas.residual(cm, env, initial=initial, time=env["time"])
            except Exception as e:
                viol.append(("residual-eval-raises:%s" % fam, "cannot evaluate residual: %r\n%s" % (e, text), {"text": text}))
                break
            points += 1
            want_n = sum(s if v is None else len(v) for v, s in segs)
            if len(got) != want_n:
                viol.append(("residual-length:%s" % fam, "%sresidual has %d entries, the equations have %d\n%s" % ("initial " if initial else "", len(got), want_n, text), {"text": text}))
                break
            pos = 0
            for k, (s, ordered) in enumerate(segs):
                if s is None:  # reference undefined for this equation here (a pole); `ordered` holds its length
                    pos += ordered
                    stats["skipped"] += 1
                    continue
                g = got[pos : pos + len(s)]
                pos += len(s)
                if ordered and len(s) > 1:
                    stats["ordered"] += 1
                    stats["asym"] += _asymmetric(eqs[k], env, funcs)
                if not (same_ordered(g, s) if ordered else M.same_multiset(g, s)):
                    eqtxt = " ".join(x.strip() for x in M.peq(getattr(model, "printed", eqs)[k] if not initial else eqs[k]))
                    what = "residual-order" if ordered and M.same_multiset(g, s) else "residual-value"
                    viol.append(
                        (
                            "%s:%s" % (what, fam),
                            "%sequation `%s`: residual %r, Modelica gives %r%s at %s"
                            % (
                                "initial " if initial else "",
                                eqtxt,
                                [round(x, 9) for x in g],
                                [round(float(x), 9) for x in s],
                                " (column-major, element by element)" if ordered else " (as a multiset)",
                                _envstr(env),
                            ),
                            {"text": text, "equation": eqtxt},
                        )
                    )
                    break
            if viol:
                break
        if viol:
            break
    stats["overlap_chains"] = len(stats["overlap_chains"])
    return {"fam": fam, "viol": viol, "points": points, "neq": len(model.eqs) + len(model.init_eqs), "stats": stats}


def _asymmetric(eq, env, funcs):
    """1 if the equation is between square matrices and its right-hand side is not symmetric at this point (the case
    in which transposing one side changes the residual)."""
    r = np.asarray(M.evn(eq[2], env, funcs), dtype=float)
    return int(r.ndim == 2 and r.shape[0] == r.shape[1] and not np.allclose(r, r.T))


def _envstr(env):
    return {k: (v.tolist() if isinstance(v, np.ndarray) else v) for k, v in env.items() if not k.startswith("der(") or True}


def all_models(tier):
    out = []
    for f in FAMILIES:
        out += f(tier)
    return out


def run(ctx):
    models = all_models(ctx.tier)
    npoints = 4 if ctx.tier == "quick" else 8
    jobs = [(fam, m, ctx.seed, npoints) for fam, m in models]
    with common.Pool() as pool:
        res = pool.map(check_model, jobs, chunksize=2)
    per = {}
    points = neq = 0
    texts = set()
    stats = {"ordered": 0, "overlap": 0, "overlap_chains": 0, "skipped": 0, "asym": 0}
    nchains = 0
    for (fam, m), r in zip(models, res):
        per[fam] = per.get(fam, 0) + 1
        points += r["points"]
        neq += r.get("neq", 0)
        texts.add(m.text())
        nchains += len(getattr(m, "chains", ()))
        for k, v in r.get("stats", {}).items():
            stats[k] += v
        for sig, msg, case in r["viol"]:
            ctx.violation(sig, msg, case)
    for i in (0, len(models) // 3, 2 * len(models) // 3, len(models) - 1):
        ctx.sample({"family": models[i][0], "model": models[i][1].text()})
    nt = len(c11x.THRESHOLDS)
    ctx.coverage.update(
        {
            "evaluations": points,
            "programs": len(models),
            "distinct_nontrivial": len(texts),
            "equations": neq,
            "per_family": per,
            "grid_points_per_model": npoints,
            "grid_points_per_chain_model": 2 * nt + 1,
            "if_chains": nchains,
            "if_chains_with_overlap": stats["overlap_chains"],
            "chain_points_with_two_or_more_true_conditions": stats["overlap"],
            "array_equations_compared_in_order": stats["ordered"],
            "square_matrix_equations_with_asymmetric_rhs": stats["asym"],
            "equation_points_skipped_undefined": stats["skipped"],
            "exhaustive": True,
            "rule": "families enumerated completely within their bounds: all scalar expression trees with <= 2 (quick) / 3 (thorough, "
            "core operators) operator nodes over + - * / ^, unary +/-, six relations, not/and/or, if, sin/abs/max/min as right-hand "
            "sides; array equations; every valid subscript / slice of 1-D arrays of size 1..3 and 2x2, 2x3 matrices on either side; "
            "for-equations over sizes 1..4 with plain, shifted, sub-range, parameter-bound and der() bodies; if-equations with "
            "every ordered pair of 4 conditions; initial equations; der as input; functions with <= 2 (quick) / 3 statements; "
            "if / elseif / else chains with every ordered selection of 2..3 conditions from {>, <} (thorough: and >=, <=) x thresholds "
            "{1, 2, 3} on one variable, as if-statement of a function, if-equation, nested if-expression and elseif-expression (and "
            "with two assigned variables / equations per branch for the > chains), evaluated with that variable inside each of the "
            "4 regions between the thresholds and on each threshold; all well-shaped expression trees with <= 2 (quick) / 3 "
            "(thorough, core operators) operator nodes over unary -, + - .* ./, matrix product, transpose, scalar*matrix, "
            "matrix*scalar, matrix/scalar with matrices of 2..3 rows and columns and vectors of 2..3 entries as right-hand sides, the "
            "<= 1-operator ones also as der() equation, initial equation and with sides exchanged; shaped zeros/ones/fill, "
            "if-expressions between matrices, every row/column slice of those matrices on the left and on both sides. "
            "Each model's residual functions are compared with the reference on %d grid points (chains: 7), top-level equation by "
            "equation; every distinct model text counts as non-trivial (each has at least one operator, subscript or statement); "
            "the counts of chains / chain points at which two or more conditions hold and of square-matrix equations whose "
            "right-hand side is not symmetric at the point are measured." % npoints,
        }
    )
    ctx.assumptions += [
        "single-class models, so the flat equations are the source equations (flattening itself is C07-C09)",
        "a plain equation between sides of equal shape is compared element by element in column-major order (the layout of "
        "the variable vectors and of veccat); entries of for-equations, if-equations and tuple equations are compared as a multiset",
        "grid avoids poles; equations for which the reference is undefined at a point are skipped at that point",
        "matrix ^, matrix + scalar without dot, vector*matrix, vector*vector, identity / diagonal, array constructors with "
        "variable elements and literal matrices are outside the alphabet",
    ]


def replay(case):
    from pymoca import parser  # noqa

    text = case["text"]
    print(text)
    # re-find the model among the enumerated ones so the reference tree is available
    for tier in ("quick", "thorough"):
        for fam, m in all_models(tier):
            if m.text() == text:
                r = check_model((fam, m, 0, 8))
                print([x[1] for x in r["viol"]] or "ok")
                return not r["viol"]
    print("model not in the enumeration any more")
    return True
