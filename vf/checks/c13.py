"""C13 -- variable metadata reports the declared attributes.

E4: all single choices and all pairs of (attribute, expression form) on every variable kind; the
reference value of each attribute expression at every point of a parameter grid is compared with
(i) the attribute on the Variable object (MX attributes evaluated as functions of the model's
parameters) and (ii) the matching row / column of variable_metadata_function.
"""
import itertools
import math

import numpy as np

from vf.core import cas, common
from vf.ref import mast as M
from vf.ref.mast import B, N, V

LEVEL = "exploration"

ATTRS = ("value", "min", "max", "start", "fixed", "nominal")  # column order of the metadata function
DEFAULT = {"value": float("nan"), "min": -math.inf, "max": math.inf, "start": 0.0, "fixed": 0.0, "nominal": 0.0}
P, Q = V("p"), V("q")

FORMS = {
    "real-literal": N(1.5),
    "int-literal": N(2),
    "neg-p": ("un", "-", P),
    "affine": B("+", B("*", N(2), P), N(1)),
    "p-half": B("/", P, N(2)),
    "p-times-q": B("*", P, Q),
    "p-squared": B("^", P, N(2)),
    "sin-p": ("call", "sin", (P,)),
}
INT_FORMS = {"int-literal": N(2), "int-literal-3": N(3)}
GRID = [(2.0, 3.0), (-1.5, 0.5), (0.25, -4.0)]

# kind -> (declaration prefix, type, dims, own value text or None, equation making it what it is)
KINDS = {
    "alg-Real": ("", "Real", (), None, ""),
    "state-Real": ("", "Real", (), None, "der(x) = 1;"),
    "input-Real": ("input", "Real", (), None, ""),
    "parameter-Real": ("parameter", "Real", (), "value", ""),
    "constant-Real": ("constant", "Real", (), "value", ""),
    "alg-Integer": ("", "Integer", (), None, ""),
    "parameter-Integer": ("parameter", "Integer", (), "value", ""),
    "alg-Boolean": ("", "Boolean", (), None, ""),
    "alg-Real-1d": ("", "Real", (3,), None, ""),
    "state-Real-1d": ("", "Real", (3,), None, "der(x) = ones(3);"),
    "alg-Real-2d": ("", "Real", (2, 2), None, ""),
    "alg-Real-output": ("output", "Real", (), None, ""),
    "state-Real-output": ("output", "Real", (), None, "der(x) = 1;"),
    "alg-Real-discrete": ("discrete", "Real", (), None, ""),
}


def cases(tier):
    """(kind, {attr: (form name, expr, each?)})"""
    out = []
    num_attrs = ("min", "max", "start", "nominal")
    for kind, (pre, typ, dims, own, _) in KINDS.items():
        forms = FORMS if typ == "Real" else INT_FORMS
        out.append((kind, {}))
        if typ == "Boolean":
            for st, fx in itertools.product((None, True, False), repeat=2):
                mods = {}
                if st is not None:
                    mods["start"] = ("bool", ("bool", st), False)
                if fx is not None:
                    mods["fixed"] = ("bool", ("bool", fx), False)
                out.append((kind, mods))
            continue
        attrs = num_attrs + (("value",) if own else ())
        for a in attrs:
            for fn, fe in forms.items():
                if dims:
                    out.append((kind, {a: (fn, fe, True)}))
                else:
                    out.append((kind, {a: (fn, fe, False)}))
        for fx in (True, False):
            out.append((kind, {"fixed": ("bool", ("bool", fx), bool(dims))}))
        if dims:
            lit = ("arr", tuple(N(i + 1.5) for i in range(dims[0]))) if len(dims) == 1 else ("arr", (("arr", (N(1), N(2))), ("arr", (N(3), N(4)))))
            for a in num_attrs:
                out.append((kind, {a: ("array-literal", lit, False)}))
        # pairs
        pair_forms = ["real-literal", "affine", "p-times-q"] if typ == "Real" else list(forms)
        if kind in ("alg-Real", "state-Real", "parameter-Real", "alg-Integer", "alg-Real-1d") or tier == "thorough":
            for a1, a2 in itertools.combinations(attrs, 2):
                for f1, f2 in itertools.product(pair_forms, repeat=2):
                    out.append((kind, {a1: (f1, forms[f1], bool(dims)), a2: (f2, forms[f2], bool(dims))}))
    return out


def text_of(kind, mods):
    pre, typ, dims, own, eq = KINDS[kind]
    m = dict(mods)
    val = m.pop("value", None)
    s = (pre + " " if pre else "") + typ + " x"
    if dims:
        s += "[%s]" % ", ".join(map(str, dims))
    if m:
        s += "(%s)" % ", ".join(("each " if each else "") + "%s = %s" % (a, M.pe(e)) for a, (fn, e, each) in m.items())
    if own:
        if val is not None:
            s += " = " + M.pe(val[1])
        elif typ == "Integer":
            s += " = 7"
        else:
            s += " = 0.75"
    decl = ["parameter Real p = 2;", "parameter Real q = 3;", s + ";"]
    lines = ["model M"] + ["  " + d for d in decl] + ["equation"]
    if eq:
        lines.append("  " + eq)
    return "\n".join(lines + ["end M;"]) + "\n"


def reference(kind, mods, p, q):
    """attr -> numpy array (element order: column-major of the symbol) of expected values."""
    pre, typ, dims, own, _ = KINDS[kind]
    n = int(np.prod(dims)) if dims else 1
    env = {"p": p, "q": q}
    out = {}
    for a in ATTRS:
        if a in mods:
            v = M.evn(mods[a][1], env)
            arr = np.asarray(v, dtype=float)
            if arr.ndim == 0:
                arr = np.full(n, float(arr))
            elif arr.ndim == 2:
                arr = arr.flatten(order="F")
            out[a] = arr
        elif a == "value" and own:
            out[a] = np.full(n, 7.0 if typ == "Integer" else 0.75)
        else:
            out[a] = np.full(n, DEFAULT[a])
    return out


def same(a, b):
    a, b = np.asarray(a, dtype=float).ravel(), np.asarray(b, dtype=float).ravel()
    if a.shape != b.shape:
        return False
    for x, y in zip(a, b):
        if math.isnan(x) or math.isnan(y):
            if not (math.isnan(x) and math.isnan(y)):
                return False
        elif math.isinf(x) or math.isinf(y):
            if x != y:
                return False
        elif abs(x - y) > 1e-9 * max(1.0, abs(x), abs(y)):
            return False
    return True


GROUP_OF = {"alg": "alg_states", "state": "states", "input": "inputs", "parameter": "parameters", "constant": "constants"}
MD_GROUPS = ["states", "alg_states", "inputs", "parameters", "constants"]


def attr_value(model, val, pvals):
    """Numeric value of an attribute object (number / list / DM / MX in the model's parameters)."""
    import casadi as ca

    if isinstance(val, ca.MX):
        syms = [v.symbol for v in model.parameters]
        f = ca.Function("attr", syms, [val])
        r = f(*[pvals[v.symbol.name()] for v in model.parameters])
        return np.array(ca.DM(r)).flatten(order="F")
    a = np.array(val, dtype=float)
    return a.flatten(order="F") if a.ndim == 2 else a.ravel()


def check(job):
    import casadi as ca

    kind, mods = job
    text = text_of(kind, mods)
    case = {"text": text}
    sigbase = "%s:%s" % (kind, "+".join("%s=%s%s" % (a, "each-" if mods[a][2] else "", mods[a][0]) for a in mods) or "defaults")
    try:
        m = cas.generate(text, "M")
        fmd = m.variable_metadata_function
    except Exception as e:
        return [("generate-raises:%s:%s" % (sigbase, common.exc_sig(e)), "does not generate: %r\n%s" % (e, text), case)]
    pre, typ, dims, own, _ = KINDS[kind]
    group = GROUP_OF[kind.split("-")[0]]
    vs = [v for v in getattr(m, group) if v.symbol.name() == "x"]
    if len(vs) != 1:
        return [("variable-missing:" + sigbase, "x not found in %s\n%s" % (group, text), case)]
    x = vs[0]
    n = int(np.prod(dims)) if dims else 1
    viol = []
    for p, q in GRID:
        ref = reference(kind, mods, p, q)
        pvals = {"p": p, "q": q}
        if group == "parameters":
            pvals["x"] = ref["value"] if n > 1 else float(ref["value"][0])
        # (i) the Variable object
        for a in ATTRS:
            try:
                got = attr_value(m, getattr(x, a), pvals)
            except Exception as e:
                viol.append(("attribute-unreadable:%s:%s" % (sigbase, a), "Variable.%s = %r cannot be evaluated: %r\n%s" % (a, getattr(x, a), e, text), case))
                continue
            if got.size == 1 and n > 1:
                got = np.full(n, float(got[0]))
            if not same(got, ref[a]):
                viol.append(("attribute-value:%s:%s" % (sigbase, a), "Variable.%s of x evaluates to %r at p=%r q=%r, declared value is %r\n%s" % (a, got.tolist(), p, q, ref[a].tolist(), text), case))
        # (ii) the metadata function
        pvec = []
        for v in m.parameters:
            pvec += cas.flat(pvals[v.symbol.name()], v.symbol.shape)
        outs = fmd(ca.DM(pvec))
        mat = np.array(ca.DM(outs[MD_GROUPS.index(group)]))
        row0 = 0
        for v in getattr(m, group):
            if v.symbol.name() == "x":
                break
            row0 += v.symbol.shape[0] * v.symbol.shape[1]
        rows = mat[row0 : row0 + n, :]
        for j, a in enumerate(ATTRS):
            if not same(rows[:, j], ref[a]):
                viol.append(("metadata-function:%s:%s" % (sigbase, a), "variable_metadata_function gives %s = %r for x at p=%r q=%r, declared value is %r\n%s" % (a, rows[:, j].tolist(), p, q, ref[a].tolist(), text), case))
        if viol:
            break
    # python types
    want_t = {"Real": float, "Integer": int, "Boolean": bool}[typ]
    if x.python_type is not want_t:
        viol.append(("python-type:" + sigbase, "python_type of x is %s, declared %s\n%s" % (x.python_type.__name__, typ, text), case))
    if typ in ("Integer", "Boolean"):
        for a in mods:
            val = getattr(x, a)
            lit_t = bool if mods[a][0] == "bool" else int
            if a == "fixed":
                continue
            if not isinstance(val, lit_t) or (lit_t is int and isinstance(val, bool)):
                viol.append(("literal-python-type:%s:%s" % (sigbase, a), "%s variable: attribute %s is %r (%s), expected a Python %s\n%s" % (typ, a, val, type(val).__name__, lit_t.__name__, text), case))
    return viol


def run(ctx):
    cs = cases(ctx.tier)
    with common.Pool() as pool:
        res = pool.map(check, cs, chunksize=8)
    for viol in res:
        for sig, msg, case in viol:
            ctx.violation(sig, msg, case)
    texts = {text_of(k, m) for k, m in cs}
    for k in (1, len(cs) // 2, len(cs) - 1):
        ctx.sample({"kind": cs[k][0], "model": text_of(*cs[k])})
    ctx.coverage.update(
        {
            "evaluations": len(cs) * len(GRID),
            "programs": len(cs),
            "distinct_nontrivial": len({t for t in texts if "(" in t.split("x", 1)[1].split(";")[0] or " = " in t.split(" x", 1)[1].split(";")[0]}),
            "grid": GRID,
            "exhaustive": True,
            "rule": "for each of %d variable kinds (Real/Integer/Boolean; scalar, 1-D, 2-D; algebraic/state/input/parameter/"
            "constant): defaults, every single (attribute, form) with forms real literal, integer literal, -p, 2*p+1, p/2, p*q, "
            "p^2, sin(p) (each-modified for arrays), array literals, fixed true/false, and all pairs of attributes with forms "
            "literal / affine / non-affine; each checked on the Variable object and in variable_metadata_function at %d "
            "parameter points. Non-trivial = the declaration carries at least one attribute or value." % (len(KINDS), len(GRID)),
        }
    )
    ctx.assumptions.append("array attributes with parameter-dependent *elements* ({p, 2*p}) are outside the alphabet")


def replay(case):
    for k, m in cases("thorough"):
        if text_of(k, m) == case["text"]:
            v = check((k, m))
            print(case["text"], [x[1].split("\n")[0] for x in v] or "ok")
            return not v
    return True
