"""C13 -- variable metadata reports the declared attributes.

E4: all single choices and all pairs of (attribute, expression form) on every variable kind (the forms include,
for each operation the metadata function accepts in an affine block, an affine and a non-affine instance, the
non-affine ones up to degree 4 in distinct parameters; for array variables, attributes whose elements differ and
depend on parameters -- an array parameter in several forms, array constructors); the
reference value of each attribute expression at every point of a parameter grid is compared with
(i) the attribute on the Variable object (MX attributes evaluated as functions of the model's
parameters) and (ii) the matching row / column of variable_metadata_function.

Histories: on a reduced set of models whose attributes depend on parameters, every sequence of at most 3
(quick) / 4 (thorough) events from {read the metadata function, read the Variable attributes, simplify(o) for
each metadata-rewriting option set o, among them expand_vectors and expand_vectors + expand_mx on array models with
element-wise different parameter-dependent attributes} is applied to ONE Model object; at every read and after the last event
both views must equal the reference state machine's attribute values for the variables the model still lists.
"""
import itertools
import math

import numpy as np

from vf.core import cas, common
from vf.ref import mast as M
from vf.ref.mast import B, N, V

LEVEL = "exploration"

ATTRS = ("value", "min", "max", "start", "fixed", "nominal")  # column order of the metadata function
DEFAULT = {"value": float("nan"), "min": -math.inf, "max": math.inf, "start": 0.0, "fixed": 0.0, "nominal": 0.0}
P, Q = V("p"), V("q")

FORMS = {
    "real-literal": N(1.5),
    "int-literal": N(2),
    "neg-p": ("un", "-", P),
    "affine": B("+", B("*", N(2), P), N(1)),
    "p-half": B("/", P, N(2)),
    "p-times-q": B("*", P, Q),
    "p-squared": B("^", P, N(2)),
    "sin-p": ("call", "sin", (P,)),
}
# variable_metadata_function decides per variable group whether the attribute block is affine in the parameters
# (every operation in {const, +, -, *, /, neg} and a zero second derivative) and, if every group is, rebuilds the
# function as A(0)*p + b(0).  The forms above reach the rebuild only with -p and p/2 (2*p is its own operation,
# outside the list).  WL_FORMS is the alphabet of that decision: for each listed operation an affine instance and a
# non-affine one -- the two non-affine cores p*q and q/p bare, negated, in a sum and in a difference, the other
# shapes of a quotient (literal / p, 1 / p, p / q, affine / p, p / affine) and the product p*p.  Each stands alone
# in its model (all other attributes literal), so nothing else switches the rebuild off.
WL_AFFINE = {
    "three-p": B("*", N(3), P),
    "p-plus-q": B("+", P, Q),
    "p-minus-q": B("-", P, Q),
    "affine-wl": B("-", B("+", B("*", N(3), P), B("/", Q, N(4))), N(1)),
}
WL_NONAFFINE = {
    "q-over-p": B("/", Q, P),
    "p-over-q": B("/", P, Q),
    "two-over-p": B("/", N(2), P),
    "one-over-p": B("/", N(1), P),
    "neg-p-times-q": ("un", "-", B("*", P, Q)),
    "neg-q-over-p": ("un", "-", B("/", Q, P)),
    "pq-plus-p": B("+", B("*", P, Q), P),
    "p-minus-q-over-p": B("-", P, B("/", Q, P)),
    "p-minus-q-times-p": B("*", B("-", P, Q), P),
    "sum-over-p": B("/", B("+", P, Q), P),
    "p-over-q-plus-1": B("/", P, B("+", Q, N(1))),
    "p-times-p": B("*", P, P),
}
# Degree: the forms above stop at degree 2, where the second derivative is a non-zero *constant*, so a decision that
# looks at the second derivative at a point (the place A and b of the rebuild are taken from) cannot be told from the
# structural one.  From degree 3 on it can: monomials in three and four distinct parameters (no squares, so only
# listed operations), a cubic next to an affine part, under a division by a literal, a cubic in two parameters
# written without a square, and a cubic centred at 1 instead of 0 (second derivative zero at p = q = s = 1 only).
# They need more parameters than p, q: s, t are declared in the models that mention them.
S, T_ = V("s"), V("t")
WL_DEGREE = {
    "p-q-s": B("*", B("*", P, Q), S),
    "p-q-s-plus-p": B("+", B("*", B("*", P, Q), S), P),
    "pqs-over-4-minus-q": B("-", B("/", B("*", B("*", P, Q), S), N(4)), Q),
    "p-q-s-t": B("*", B("*", B("*", P, Q), S), T_),
    "pq-times-p-minus-q": B("*", B("*", P, Q), B("-", P, Q)),
    "shifted-cubic": B("*", B("*", B("-", P, N(1)), B("-", Q, N(1))), B("-", S, N(1))),
}
WL_NONAFFINE.update(WL_DEGREE)
WL_FORMS = dict(WL_AFFINE, **WL_NONAFFINE)
FORMS.update(WL_FORMS)
# quick: the whitelist forms on one kind per variable group of the function (+ one array kind); thorough: every kind
WL_QUICK_KINDS = ("alg-Real", "state-Real", "input-Real", "parameter-Real", "constant-Real", "alg-Real-1d")
PAIR_FORMS = ["real-literal", "affine", "p-times-q", "affine-wl", "q-over-p"]
INT_FORMS = {"int-literal": N(2), "int-literal-3": N(3)}
GRID = [(2.0, 3.0), (-1.5, 0.5), (0.25, -4.0)]
GRID_ST = [(5.0, 7.0), (-0.5, 1.25), (1.5, -2.0)]  # s, t at the same three points (never 0, never 1)
GRID_A = [1.0, -0.5, 0.25]  # an array parameter a takes a[n] = (n + 1.5) * this (n: row-major position): all different
EXTRA_PARAMS = {"s": "parameter Real s = 5;", "t": "parameter Real t = 7;"}  # declared only where mentioned


def arr_node(dims, elem):
    """Array constructor node of the given dims; elem(n) is the node of the n-th element in row-major order."""
    if len(dims) == 1:
        return ("arr", tuple(elem(i) for i in range(dims[0])))
    return ("arr", tuple(("arr", tuple(elem(r * dims[1] + c) for c in range(dims[1]))) for r in range(dims[0])))


def arr_literal(dims, first=1.5):
    return arr_node(dims, lambda n: N(n + first))


A_ = V("a")


def array_forms(dims):
    """Attribute expressions whose *elements* differ and depend on parameters -- what expand_vectors has to hand out
    element by element and the metadata function has to lay out row by row: an array parameter `a` of the variable's
    shape as such, in an affine form of listed operations (rebuild), times a scalar parameter (bilinear), times two
    (degree 3), and array constructors of parameter expressions (all elements affine; literal / affine / bilinear)."""
    mixed = [lambda n: N(n + 1.5), lambda n: B("*", N(n + 3), P), lambda n: B("-", B("*", P, Q), N(n))]
    return {
        "arr-a": A_,
        "arr-three-a": B("*", N(3), A_),
        "arr-neg-p-a": ("un", "-", B("*", P, A_)),
        "arr-p-q-a": B("*", B("*", P, Q), A_),
        "arr-ctor-affine": arr_node(dims, lambda n: B("+", B("*", N(n + 3), P), Q)),
        "arr-ctor-mixed": arr_node(dims, lambda n: mixed[n % 3](n)),
    }


# kinds that get the array forms: quick a vector and a non-square matrix; thorough every group and the square matrix
ARR_QUICK_KINDS = ("alg-Real-1d", "alg-Real-2x3")
ARR_KINDS = ARR_QUICK_KINDS + ("state-Real-1d", "alg-Real-2d", "state-Real-2x3", "input-Real-2x3", "parameter-Real-2x3")

# kind -> (declaration prefix, type, dims, own value text or None, equation making it what it is)
KINDS = {
    "alg-Real": ("", "Real", (), None, ""),
    "state-Real": ("", "Real", (), None, "der(x) = 1;"),
    "input-Real": ("input", "Real", (), None, ""),
    "parameter-Real": ("parameter", "Real", (), "value", ""),
    "constant-Real": ("constant", "Real", (), "value", ""),
    "alg-Integer": ("", "Integer", (), None, ""),
    "parameter-Integer": ("parameter", "Integer", (), "value", ""),
    "alg-Boolean": ("", "Boolean", (), None, ""),
    "alg-Real-1d": ("", "Real", (3,), None, ""),
    "state-Real-1d": ("", "Real", (3,), None, "der(x) = ones(3);"),
    "alg-Real-2d": ("", "Real", (2, 2), None, ""),
    "alg-Real-2x3": ("", "Real", (2, 3), None, ""),
    "state-Real-2x3": ("", "Real", (2, 3), None, "der(x) = ones(2, 3);"),
    "input-Real-2x3": ("input", "Real", (2, 3), None, ""),
    "parameter-Real-2x3": ("parameter", "Real", (2, 3), "value", ""),
    "alg-Real-output": ("output", "Real", (), None, ""),
    "state-Real-output": ("output", "Real", (), None, "der(x) = 1;"),
    "alg-Real-discrete": ("discrete", "Real", (), None, ""),
}


THOROUGH_ONLY_KINDS = ("state-Real-2x3", "input-Real-2x3", "parameter-Real-2x3")


def own_default(kind):
    """The declared value of a parameter / constant kind when the case does not give one."""
    pre, typ, dims, own, _ = KINDS[kind]
    if dims:
        return arr_literal(dims, 0.75)
    return N(7) if typ == "Integer" else N(0.75)


def cases(tier):
    """(kind, {attr: (form name, expr, each?)})"""
    out = []
    num_attrs = ("min", "max", "start", "nominal")
    for kind, (pre, typ, dims, own, _) in KINDS.items():
        if kind in THOROUGH_ONLY_KINDS and tier != "thorough":
            continue
        forms = FORMS if typ == "Real" else INT_FORMS
        out.append((kind, {}))
        if typ == "Boolean":
            for st, fx in itertools.product((None, True, False), repeat=2):
                mods = {}
                if st is not None:
                    mods["start"] = ("bool", ("bool", st), False)
                if fx is not None:
                    mods["fixed"] = ("bool", ("bool", fx), False)
                out.append((kind, mods))
            continue
        attrs = num_attrs + (("value",) if own else ())
        for a in attrs:
            if a == "value" and dims:
                continue  # a scalar form is not the value of an array
            for fn, fe in forms.items():
                if fn in WL_FORMS and tier != "thorough" and kind not in WL_QUICK_KINDS:
                    continue
                if dims:
                    out.append((kind, {a: (fn, fe, True)}))
                else:
                    out.append((kind, {a: (fn, fe, False)}))
        for fx in (True, False):
            out.append((kind, {"fixed": ("bool", ("bool", fx), bool(dims))}))
        if dims:
            lit = arr_literal(dims) if len(dims) == 1 else arr_literal(dims, 1)
            for a in attrs:
                out.append((kind, {a: ("array-literal", lit, False)}))
            if kind in (ARR_KINDS if tier == "thorough" else ARR_QUICK_KINDS):
                for a in attrs:
                    for fn, fe in array_forms(dims).items():
                        out.append((kind, {a: (fn, fe, False)}))
        # pairs
        pair_forms = PAIR_FORMS if typ == "Real" else list(forms)
        if kind in ("alg-Real", "state-Real", "parameter-Real", "alg-Integer", "alg-Real-1d") or (tier == "thorough" and not (dims and own)):
            for a1, a2 in itertools.combinations(attrs, 2):
                for f1, f2 in itertools.product(pair_forms, repeat=2):
                    out.append((kind, {a1: (f1, forms[f1], bool(dims)), a2: (f2, forms[f2], bool(dims))}))
    return out


def decl_text(kind, mods):
    pre, typ, dims, own, eq = KINDS[kind]
    m = dict(mods)
    val = m.pop("value", None)
    s = (pre + " " if pre else "") + typ + " x"
    if dims:
        s += "[%s]" % ", ".join(map(str, dims))
    if m:
        s += "(%s)" % ", ".join(("each " if each else "") + "%s = %s" % (a, M.pe(e)) for a, (fn, e, each) in m.items())
    if own:
        if val is not None:
            s += " = " + M.pe(val[1])
        elif typ == "Integer":
            s += " = 7"
        elif dims:
            s += " = " + M.pe(own_default(kind))
        else:
            s += " = 0.75"
    return s + ";"


def mods_deps(mods):
    used = set()
    for fn, e, each in mods.values():
        used |= deps(e)
    return used


def text_of(kind, mods):
    eq = KINDS[kind][4]
    used = mods_deps(mods)
    decl = ["parameter Real p = 2;", "parameter Real q = 3;"] + [EXTRA_PARAMS[n] for n in ("s", "t") if n in used]
    if "a" in used:
        dims = KINDS[kind][2]
        decl.append("parameter Real a[%s] = %s;" % (", ".join(map(str, dims)), M.pe(arr_literal(dims))))
    decl.append(decl_text(kind, mods))
    lines = ["model M"] + ["  " + d for d in decl] + ["equation"]
    if eq:
        lines.append("  " + eq)
    return "\n".join(lines + ["end M;"]) + "\n"


def grid_env(i, dims=()):
    """Parameter values at grid point i: p, q, s, t and, for the variable's dims, the array parameter a."""
    env = {"p": GRID[i][0], "q": GRID[i][1], "s": GRID_ST[i][0], "t": GRID_ST[i][1]}
    if dims:
        env["a"] = (np.arange(int(np.prod(dims)), dtype=float).reshape(dims) + 1.5) * GRID_A[i]
    return env


def reference(kind, mods, env):
    """attr -> numpy array (element order: column-major of the symbol) of expected values."""
    pre, typ, dims, own, _ = KINDS[kind]
    n = int(np.prod(dims)) if dims else 1
    out = {}
    for a in ATTRS:
        if a in mods or (a == "value" and own):
            v = M.evn(mods[a][1] if a in mods else own_default(kind), env)
            arr = np.asarray(v, dtype=float)
            if arr.ndim == 0:
                arr = np.full(n, float(arr))
            elif arr.ndim == 2:
                arr = arr.flatten(order="F")
            out[a] = arr
        else:
            out[a] = np.full(n, DEFAULT[a])
    return out


def same(a, b):
    a, b = np.asarray(a, dtype=float).ravel(), np.asarray(b, dtype=float).ravel()
    if a.shape != b.shape:
        return False
    for x, y in zip(a, b):
        if math.isnan(x) or math.isnan(y):
            if not (math.isnan(x) and math.isnan(y)):
                return False
        elif math.isinf(x) or math.isinf(y):
            if x != y:
                return False
        elif abs(x - y) > 1e-9 * max(1.0, abs(x), abs(y)):
            return False
    return True


GROUP_OF = {"alg": "alg_states", "state": "states", "input": "inputs", "parameter": "parameters", "constant": "constants"}
MD_GROUPS = ["states", "alg_states", "inputs", "parameters", "constants"]


def _has_mx(val):
    import casadi as ca

    return isinstance(val, ca.MX) or (isinstance(val, list) and any(_has_mx(v) for v in val))


def attr_value(model, val, pvals):
    """Numeric value of an attribute object (number / nested list / DM / MX in the model's parameters; a nested list
    may hold MX entries), elements in column-major order."""
    import casadi as ca

    if isinstance(val, ca.MX):
        syms = [v.symbol for v in model.parameters]
        f = ca.Function("attr", syms, [val])
        args = []
        for v in model.parameters:
            x = np.asarray(pvals[v.symbol.name()], dtype=float)
            args.append(x.reshape(v.symbol.shape, order="F") if x.ndim == 1 and x.size > 1 else x)
        r = f(*args)
        return np.array(ca.DM(r)).flatten(order="F")
    if isinstance(val, list) and _has_mx(val):
        rows = [attr_value(model, v, pvals) for v in val]  # entries of a vector, or the rows of a matrix
        a = np.array(rows, dtype=float)
        return a.flatten(order="F") if isinstance(val[0], list) else a.ravel()
    a = np.array(val, dtype=float)
    return a.flatten(order="F") if a.ndim == 2 else a.ravel()


def check(job):
    import casadi as ca

    kind, mods = job
    text = text_of(kind, mods)
    case = {"text": text}
    sigbase = "%s:%s" % (kind, "+".join("%s=%s%s" % (a, "each-" if mods[a][2] else "", mods[a][0]) for a in mods) or "defaults")
    try:
        m = cas.generate(text, "M")
    except Exception as e:
        return [("generate-raises:%s:%s" % (sigbase, common.exc_sig(e)), "does not generate: %r\n%s" % (e, text), case)]
    try:
        fmd = m.variable_metadata_function
    except Exception as e:
        return [("metadata-function-raises:%s:%s" % (sigbase, common.exc_sig(e)), "variable_metadata_function raises %r\n%s" % (e, text), case)]
    pre, typ, dims, own, _ = KINDS[kind]
    group = GROUP_OF[kind.split("-")[0]]
    vs = [v for v in getattr(m, group) if v.symbol.name() == "x"]
    if len(vs) != 1:
        return [("variable-missing:" + sigbase, "x not found in %s\n%s" % (group, text), case)]
    x = vs[0]
    n = int(np.prod(dims)) if dims else 1
    viol = []
    for gi, (p, q) in enumerate(GRID):
        pvals = grid_env(gi, dims)
        ref = reference(kind, mods, pvals)
        if group == "parameters":
            pvals["x"] = ref["value"] if n > 1 else float(ref["value"][0])
        at = " ".join("%s=%r" % (v.symbol.name(), np.asarray(pvals[v.symbol.name()]).tolist()) for v in m.parameters if v.symbol.name() != "x")
        # (i) the Variable object
        for a in ATTRS:
            try:
                got = attr_value(m, getattr(x, a), pvals)
            except Exception as e:
                viol.append(("attribute-unreadable:%s:%s" % (sigbase, a), "Variable.%s = %r cannot be evaluated: %r\n%s" % (a, getattr(x, a), e, text), case))
                continue
            if got.size == 1 and n > 1:
                got = np.full(n, float(got[0]))
            if not same(got, ref[a]):
                viol.append(("attribute-value:%s:%s" % (sigbase, a), "Variable.%s of x evaluates to %r at %s, declared value is %r\n%s" % (a, got.tolist(), at, ref[a].tolist(), text), case))
        # (ii) the metadata function
        pvec = []
        for v in m.parameters:
            pvec += cas.flat(pvals[v.symbol.name()], v.symbol.shape)
        outs = fmd(ca.DM(pvec))
        mat = np.array(ca.DM(outs[MD_GROUPS.index(group)]))
        row0 = 0
        for v in getattr(m, group):
            if v.symbol.name() == "x":
                break
            row0 += v.symbol.shape[0] * v.symbol.shape[1]
        rows = mat[row0 : row0 + n, :]
        for j, a in enumerate(ATTRS):
            if not same(rows[:, j], ref[a]):
                viol.append(("metadata-function:%s:%s" % (sigbase, a), "variable_metadata_function gives %s = %r for x at %s, declared value is %r\n%s" % (a, rows[:, j].tolist(), at, ref[a].tolist(), text), case))
        if viol:
            break
    # python types
    want_t = {"Real": float, "Integer": int, "Boolean": bool}[typ]
    if x.python_type is not want_t:
        viol.append(("python-type:" + sigbase, "python_type of x is %s, declared %s\n%s" % (x.python_type.__name__, typ, text), case))
    if typ in ("Integer", "Boolean"):
        for a in mods:
            val = getattr(x, a)
            lit_t = bool if mods[a][0] == "bool" else int
            if a == "fixed":
                continue
            if not isinstance(val, lit_t) or (lit_t is int and isinstance(val, bool)):
                viol.append(("literal-python-type:%s:%s" % (sigbase, a), "%s variable: attribute %s is %r (%s), expected a Python %s\n%s" % (typ, a, val, type(val).__name__, lit_t.__name__, text), case))
    return viol


# =====================================================================================================
# Histories on ONE Model object.
#
# The statement speaks of the generated model's Variable objects and its metadata function.  Options are
# applied by Model.simplify(), which may be called again on a generated model (callers and the pinned
# test-suite do so), and both the Variable objects and the function may be read at any moment.  So the
# single "generate, read once" observation above is generalised to short histories of events
#       RF  read variable_metadata_function        RV  read every attribute of every Variable
#       simplify(o) for each metadata-rewriting option set o (OPTS)
# and after the history (and at every read inside it) both views must equal the reference: the declared
# attribute expressions of the variables the model still lists, evaluated with the parameters the model
# still has at the grid values and the eliminated / resolved ones at their declared values.
# =====================================================================================================
K, R = V("k"), V("r")
HFORMS = {
    "affine-p": B("+", B("*", N(2), P), N(1)),
    "p-times-q": B("*", P, Q),
    "sin-p": ("call", "sin", (P,)),
    "r-plus-k": B("+", R, K),
    "k-times-p": B("*", K, P),
    "sin-r": ("call", "sin", (R,)),
    "k-over-p": B("/", K, P),  # quotient, non-affine -> affine (k / 2) once p is inlined
    "p-over-k": B("/", P, K),  # quotient that stays non-affine (2 / k); thorough only
    "k-p-q": B("*", B("*", K, P), Q),  # degree 3 in distinct parameters -> affine (6 * k) once p, q are inlined
}
HFORMS_THOROUGH_ONLY = ("p-over-k",)
HFORMS_QUICK_ONE = ("k-p-q",)  # quick: on one attribute only, not as a parameter value
ROT_FORMS = ["affine-p", "r-plus-k", "p-times-q", "k-times-p"]  # all integer-valued on integers
# g: a free scalar parameter of the array models; an array parameter takes (n + 1.5) * its entry at row-major position n
HGRID = [
    {"p": 2.0, "q": 3.0, "k": 0.5, "r": -1.25, "c": 4.0, "x": 1.75, "g": -0.75, "a": 1.0},
    {"p": -1.5, "q": 0.5, "k": 2.0, "r": 3.0, "c": -2.0, "x": 0.6, "g": 1.5, "a": -0.5},
    {"p": 0.25, "q": -4.0, "k": -3.0, "r": 0.75, "c": 1.0, "x": -2.5, "g": 4.0, "a": 0.25},
]
G_ = V("g")


def harray_forms(dims):
    """Array-valued attribute expressions of the history models: the array parameter a as such, times a parameter with
    a value (bilinear until p is inlined), in an affine form, times the free parameter g, an array constructor with
    affine / literal / bilinear elements, a literal array."""
    elems = [lambda n: B("+", B("*", N(n + 3), P), G_), lambda n: N(n + 1.5), lambda n: B("-", B("*", G_, P), N(n))]
    return {
        "arr-a": A_,
        "arr-neg-p-a": ("un", "-", B("*", P, A_)),
        "arr-three-a": B("*", N(3), A_),
        "arr-g-a": B("*", G_, A_),
        "arr-ctor": arr_node(dims, lambda n: elems[n % 3](n)),
        "array-literal": arr_literal(dims, 10),
    }


HARR_ROTS = {  # attribute -> form, two rotations
    "A": {"max": "arr-a", "min": "arr-neg-p-a", "start": "array-literal", "nominal": "arr-three-a"},
    "B": {"max": "arr-ctor", "min": "arr-g-a", "start": "arr-a", "nominal": "array-literal"},
}
OPTS = {  # event name -> option sets given to Model.simplify, in the order pymoca applies them inside one call
    "RSV": ("resolve_parameter_values",),
    "RPE": ("replace_parameter_expressions",),
    "RCE": ("replace_constant_expressions",),
    "RPV": ("replace_parameter_values",),
    "RCV": ("replace_constant_values",),
    "EV": ("expand_vectors",),
    "DA": ("detect_aliases",),
    "EVX": ("expand_vectors", "expand_mx"),  # the option pair: vectors are expanded at another point of simplify()
    "PEV": ("replace_parameter_expressions", "replace_parameter_values"),  # thorough only
}
STEP_OF = {"resolve_parameter_values": "RSV", "replace_parameter_expressions": "RPE", "replace_constant_expressions": "RCE",
           "replace_parameter_values": "RPV", "replace_constant_values": "RCV", "expand_vectors": "EV", "detect_aliases": "DA",
           "expand_mx": "MX"}
READS = ("RF", "RV")
TYPES = {"Real": float, "Integer": int, "Boolean": bool}


def deps(e):
    """Names an expression of the reference AST mentions."""
    k = e[0]
    if k == "var":
        return {e[1]}
    if k in ("num", "bool"):
        return set()
    if k == "un":
        return deps(e[2])
    if k == "bin":
        return deps(e[2]) | deps(e[3])
    if k in ("call", "arr"):
        return set().union(*[deps(x) for x in e[-1]]) if e[-1] else set()
    raise ValueError(e)


def hmodels(tier):
    """(context, kind, mods): context 'min' declares p, q; 'full' also a free parameter k and r = 2*p + 1."""
    out = []

    def add(kind, mods):
        used = set()
        for fn, e, each in mods.values():
            used |= deps(e)
        out.append(("full" if used & {"k", "r"} else "min", kind, mods))

    num_attrs = ("min", "max", "start", "nominal")
    # one attribute, every form: each form's own transitions (non-affine -> constant, bilinear -> affine, ...)
    hforms = {fn: fe for fn, fe in HFORMS.items() if tier == "thorough" or fn not in HFORMS_THOROUGH_ONLY}
    for i, (fn, fe) in enumerate(hforms.items()):
        one = tier != "thorough" and fn in HFORMS_QUICK_ONE
        for a in num_attrs if tier == "thorough" else (num_attrs[i % 4], num_attrs[(i + 2) % 4])[: 1 if one else 2]:
            add("alg-Real", {a: (fn, fe, False)})
    for fn, fe in hforms.items():
        if tier == "thorough" or fn not in HFORMS_QUICK_ONE:
            add("parameter-Real", {"value": (fn, fe, False)})
    for fn in ("affine-p", "p-times-q", "r-plus-k"):
        add("constant-Real", {"value": (fn, HFORMS[fn], False)})
    # all attributes at once, forms rotated over the attributes, on the other kinds
    kinds = ["alg-Real", "state-Real", "input-Real", "parameter-Real", "constant-Real", "alg-Real-1d", "alg-Integer"]
    rots = (0, 2)
    if tier == "thorough":
        kinds += ["state-Real-1d", "alg-Real-2d", "alg-Real-output", "parameter-Integer"]
    for kind in kinds:
        pre, typ, dims, own, _ = KINDS[kind]
        for rot in rots:
            mods = {}
            for i, a in enumerate(num_attrs):
                fn = ROT_FORMS[(i + rot) % 4]
                mods[a] = (fn, HFORMS[fn], bool(dims))
            mods["fixed"] = ("bool", ("bool", True), bool(dims))
            if own:
                fn = ROT_FORMS[(3 + rot) % 4]
                mods["value"] = (fn, HFORMS[fn], False)
            if dims and rot == 2:  # one attribute given element by element
                lit = ("arr", tuple(N(i + 1.5) for i in range(dims[0]))) if len(dims) == 1 else ("arr", (("arr", (N(1), N(2))), ("arr", (N(3), N(4)))))
                mods["max"] = ("array-literal", lit, False)
            add(kind, mods)
    # array variables whose attributes differ element by element and depend on parameters: context 'arrv' declares
    # p = 2, a free g and an array parameter a of the variable's shape with a literal value, 'arrf' leaves a free
    akinds = [("alg-Real-2x3", "arrv", "A"), ("alg-Real-2x3", "arrf", "B"), ("alg-Real-1d", "arrv", "B"), ("alg-Real-1d", "arrf", "A")]
    if tier == "thorough":
        # (no parameter kind: what RSV / RPE / RPV make of a matrix parameter defined by an expression -- pymoca keeps
        # 3 * <inlined a> as an MX expression, neither a number nor removed -- is not C13's to decide)
        akinds = [(kind, c, r) for kind in ("alg-Real-2x3", "alg-Real-1d", "alg-Real-2d", "state-Real-2x3", "input-Real-2x3")
                  for c in ("arrv", "arrf") for r in ("A", "B")]
    for kind, ctxn, rot in akinds:
        pre, typ, dims, own, _ = KINDS[kind]
        forms = harray_forms(dims)
        mods = {a: (fn, forms[fn], False) for a, fn in HARR_ROTS[rot].items()}
        mods["fixed"] = ("bool", ("bool", True), True)
        if own:
            mods["value"] = ("arr-three-a", forms["arr-three-a"], False)
        out.append((ctxn, kind, mods))
    return out


def hkey(spec):
    ctxn, kind, mods = spec
    return "%s|%s|%s" % (ctxn, kind, "+".join("%s=%s%s" % (a, "each-" if mods[a][2] else "", mods[a][0]) for a in mods))


def hlabel(spec):
    """Kind of the history model for signatures; the array models also name what their attributes are made of."""
    ctxn, kind, mods = spec
    if ctxn in ("arrv", "arrf"):
        return "%s[%s]" % (kind, "arr-ctor" if any(fn == "arr-ctor" for fn, e, each in mods.values()) else "arr-param")
    return kind


def hdecls(spec):
    """The reference's view of the declarations: dicts name / group / typ / dims / attrs {a: expr} / value expr|None."""
    ctxn, kind, mods = spec
    pre, typ, dims, own, eq = KINDS[kind]
    T = "Integer" if typ == "Integer" else "Real"
    d = []

    def decl(name, group, typ, dims=(), attrs=None, value=None):
        d.append({"name": name, "group": group, "typ": typ, "dims": tuple(dims), "attrs": attrs or {}, "value": value})

    decl("p", "parameters", T, value=N(2))
    if ctxn in ("arrv", "arrf"):
        decl("g", "parameters", "Real")
        decl("a", "parameters", "Real", dims, value=arr_literal(dims) if ctxn == "arrv" else None)
    else:
        decl("q", "parameters", T, value=N(3))
        if ctxn == "full":
            decl("k", "parameters", T)
            decl("r", "parameters", T, value=HFORMS["affine-p"])
        decl("c", "constants", "Real", value=N(4))
        decl("z", "alg_states", "Real")
        decl("w", "alg_states", "Real")
    attrs = {a: mods[a][1] for a in mods if a != "value"}
    value = None
    if own:
        value = mods["value"][1] if "value" in mods else own_default(kind)
    decl("x", GROUP_OF[kind.split("-")[0]], typ, dims, attrs, value)
    return d


def htext(spec):
    ctxn, kind, mods = spec
    lines = ["model M"]
    for d in hdecls(spec):
        if d["name"] == "x":
            lines.append("  " + decl_text(kind, mods))
        else:
            pre = {"parameters": "parameter ", "constants": "constant ", "alg_states": ""}[d["group"]]
            dm = "[%s]" % ", ".join(map(str, d["dims"])) if d["dims"] else ""
            lines.append("  %s%s %s%s%s;" % (pre, d["typ"], d["name"], dm, "" if d["value"] is None else " = " + M.pe(d["value"])))
    lines += ["equation"] + (["  w = z;"] if ctxn not in ("arrv", "arrf") else [])
    if KINDS[kind][4]:
        lines.append("  " + KINDS[kind][4])
    return "\n".join(lines + ["end M;"]) + "\n"


# ---- reference state machine: (removed names, substituted names, aliased?, expanded?) -------------------------
INIT = (frozenset(), frozenset(), False, False)


def hstep(decls, state, ev):
    """What simplify(OPTS[ev]) does to the metadata, by the meaning of the options:
    RSV  every parameter / constant whose value is (or thereby becomes) a number is inlined; all stay listed;
    RPE / RCE  parameters / constants whose value still depends on a listed symbol are replaced by that expression;
    RPV  parameters whose value is a number on entry are inlined and removed;  RCV  all constants are inlined and removed;
    DA  one of the aliased pair z, w disappears;  EV  arrays are replaced by their elements."""
    removed, subst, aliased, expanded = state
    for opt in OPTS[ev]:
        one = STEP_OF[opt]
        listed = [d for d in decls if d["name"] not in removed]
        is_num = lambda d: d["value"] is not None and deps(d["value"]) <= subst  # noqa: E731
        has_expr = lambda d: d["value"] is not None and not deps(d["value"]) <= subst  # noqa: E731
        if one == "RSV":
            while True:
                new = {d["name"] for d in listed if d["group"] in ("parameters", "constants") and is_num(d)} - subst
                if not new:
                    break
                subst = subst | new
        elif one in ("RPE", "RCE"):
            g = "parameters" if one == "RPE" else "constants"
            gone = {d["name"] for d in listed if d["group"] == g and has_expr(d)}
            removed, subst = removed | gone, subst | gone
        elif one == "RPV":
            gone = {d["name"] for d in listed if d["group"] == "parameters" and is_num(d)}
            removed, subst = removed | gone, subst | gone
        elif one == "RCV":
            gone = {d["name"] for d in listed if d["group"] == "constants"}
            removed, subst = removed | gone, subst | gone
        elif one == "DA":
            aliased = aliased or any(d["name"] == "z" for d in decls)
        elif one == "MX":
            pass  # expand_mx changes the kind of the functions pymoca returns, not the metadata
        elif one == "EV":
            expanded = expanded or any(d["dims"] for d in listed)
    return (frozenset(removed), frozenset(subst), aliased, expanded)


def hgp(decls, gp0):
    """Grid point with the values of array parameters added: the whole array under its name, each element under
    the name the element gets when vectors are expanded."""
    gp = dict(gp0)
    for d in decls:
        if d["dims"] and d["group"] == "parameters":
            arr = (np.arange(int(np.prod(d["dims"])), dtype=float).reshape(d["dims"]) + 1.5) * gp0[d["name"]]
            gp[d["name"]] = arr
            for ind in np.ndindex(*d["dims"]):
                gp["%s[%s]" % (d["name"], ",".join(str(i + 1) for i in ind))] = float(arr[ind])
    return gp


def henv(decls, state, gp):
    env = {}
    for d in decls:
        if d["group"] in ("parameters", "constants"):
            env[d["name"]] = M.evn(d["value"], env) if d["name"] in state[1] else gp[d["name"]]
    return env


def hrows(decls, state, group):
    """Alternatives (the alias pair may lose either member) of the ordered rows [(name, decl, index|None)]."""
    removed, subst, aliased, expanded = state
    alts = []
    for drop in ("w", "z") if aliased else (None,):
        rows = []
        for d in decls:
            if d["group"] != group or d["name"] in removed or d["name"] == drop:
                continue
            if d["dims"] and expanded:
                for ind in np.ndindex(*d["dims"]):
                    rows.append(("%s[%s]" % (d["name"], ",".join(str(i + 1) for i in ind)), d, ind))
            else:
                rows.append((d["name"], d, None))
        if rows not in alts:
            alts.append(rows)
    return alts


def hvalue(d, ind, a, env):
    """Expected values (column-major vector) of attribute a of declaration d (element ind if expanded)."""
    n = int(np.prod(d["dims"])) if d["dims"] else 1
    if a == "value":
        v = float("nan") if d["value"] is None else M.evn(d["value"], env)
    elif a in d["attrs"]:
        v = M.evn(d["attrs"][a], env)
    else:
        v = DEFAULT[a]
    arr = np.asarray(v, dtype=float)
    if arr.ndim == 0:
        arr = np.full(d["dims"] or (1,), float(arr))
    if ind is not None:
        return np.array([arr[ind]])
    return arr.flatten(order="F") if arr.ndim == 2 else arr.reshape(n)


def _live_pvals(m, gp):
    return {v.symbol.name(): gp[v.symbol.name()] for v in m.parameters if v.symbol.name() in gp}


def observe_v(m, decls, state):
    """Every attribute of every listed Variable against the reference; None or (clause, group, attr, message)."""
    for g in MD_GROUPS:
        names = [v.symbol.name() for v in getattr(m, g)]
        alts = hrows(decls, state, g)
        rows = [r for r in alts if [x[0] for x in r] == names]
        if not rows:
            return ("variable-list", g, "-", "model.%s lists %r, expected %s" % (g, names, " or ".join(repr([x[0] for x in r]) for r in alts)))
        for var, (name, d, ind) in zip(getattr(m, g), rows[0]):
            if var.python_type is not TYPES[d["typ"]]:
                return ("python-type", g, "-", "python_type of %s is %s, declared %s" % (name, var.python_type.__name__, d["typ"]))
            n = 1 if (ind is not None or not d["dims"]) else int(np.prod(d["dims"]))
            for gp0 in HGRID:
                gp = hgp(decls, gp0)
                env = henv(decls, state, gp)
                pvals = _live_pvals(m, gp)
                for a in ATTRS:
                    val = getattr(var, a)
                    try:
                        got = attr_value(m, val, pvals)
                    except Exception as e:
                        return ("attribute-unreadable", g, a, "%s.%s = %r cannot be evaluated in the model's parameters: %r" % (name, a, val, e))
                    if got.size == 1 and n > 1:
                        got = np.full(n, float(got[0]))
                    want = hvalue(d, ind, a, env)
                    if not same(got, want):
                        return ("attribute-value", g, a, "Variable.%s of %s evaluates to %r at %r, declared value is %r" % (a, name, got.tolist(), pvals, want.tolist()))
            if d["typ"] == "Integer":
                for a in ("value", "min", "max", "start", "nominal"):
                    if (a in d["attrs"] or (a == "value" and d["value"] is not None)) and not hasattr(getattr(var, a), "is_constant"):
                        val = getattr(var, a)
                        if not isinstance(val, int) or isinstance(val, bool):
                            return ("literal-python-type", g, a, "Integer variable %s: attribute %s is %r (%s), expected a Python int" % (name, a, val, type(val).__name__))
    return None


def observe_f(m, decls, state):
    """variable_metadata_function, taken now, against the reference."""
    import casadi as ca

    try:
        f = m.variable_metadata_function
    except Exception as e:
        return ("metadata-function-raises", "-", "-", "variable_metadata_function raises %r" % (e,))
    npar = sum(v.symbol.shape[0] * v.symbol.shape[1] for v in m.parameters)
    if f.n_in() != 1 or f.numel_in(0) != npar or f.n_out() != len(MD_GROUPS):
        return ("metadata-function-arity", "parameters", "-", "variable_metadata_function is %s, the model has %d parameter value(s) %r" % (f, npar, [v.symbol.name() for v in m.parameters]))
    for gp0 in HGRID:
        gp = hgp(decls, gp0)
        env = henv(decls, state, gp)
        pvec = []
        for v in m.parameters:
            pvec += cas.flat(gp[v.symbol.name()], v.symbol.shape)
        try:
            outs = f(ca.DM(pvec))
        except Exception as e:
            return ("metadata-function-raises", "-", "-", "variable_metadata_function(%r) raises %r" % (pvec, e))
        for j, g in enumerate(MD_GROUPS):
            mat = np.array(ca.DM(outs[j]))
            rows = hrows(decls, state, g)[0]  # the alternatives differ in names only, z and w carry defaults
            cols = []
            for a in ATTRS:
                col = [hvalue(d, ind, a, env) for (name, d, ind) in rows]
                cols.append(np.concatenate(col) if col else np.zeros(0))
            want = np.array(cols).T.reshape(-1, len(ATTRS))
            if mat.shape != want.shape:
                return ("metadata-function-rows", g, "-", "variable_metadata_function reports a %r block for %s, the model lists %r" % (mat.shape, g, [x[0] for x in rows]))
            for jj, a in enumerate(ATTRS):
                if not same(mat[:, jj], want[:, jj]):
                    return ("metadata-function-values", g, a, "variable_metadata_function gives %s = %r for %r at %r, declared values are %r" % (a, mat[:, jj].tolist(), [x[0] for x in rows], _live_pvals(m, gp), want[:, jj].tolist()))
    return None


def run_history(spec, hist):
    """('ok'|'cut'|'viol'|'gen', index of the event, detail, reference state changed?)"""
    text = htext(spec)
    decls = hdecls(spec)
    try:
        m = cas.generate(text, "M")
    except Exception as e:
        return ("gen", 0, common.exc_sig(e) + " %r" % (e,), False)
    state = INIT
    changed = False
    for i, ev in enumerate(tuple(hist) + ("RV", "RF")):  # the closing observation
        if ev in READS:
            v = observe_f(m, decls, state) if ev == "RF" else observe_v(m, decls, state)
            if v is not None:
                return ("viol", i, v, changed)
        else:
            try:
                m.simplify({o: True for o in OPTS[ev]})
            except Exception as e:
                return ("cut", i, "%s:%s" % (ev, common.exc_sig(e)), changed)
            new = hstep(decls, state, ev)
            changed = changed or new != state
            state = new
    return ("ok", len(hist), None, changed)


def hevents(spec, tier, depth):
    """Reads, and every option set the reference says can change this model's metadata within the bound."""
    decls = hdecls(spec)
    names = [e for e in OPTS if e != "PEV" or tier == "thorough"]
    seen, frontier, useful = {INIT}, [INIT], set()
    for _ in range(depth):
        nxt = []
        for st in frontier:
            for e in names:
                s2 = hstep(decls, st, e)
                if s2 != st:
                    useful.add(e)
                    if s2 not in seen:
                        seen.add(s2)
                        nxt.append(s2)
        frontier = nxt
    return list(READS) + [e for e in names if e in useful], len(seen)


def hdepth(tier):
    return 4 if tier == "thorough" else 3


def hjobs(tier):
    jobs = []
    for idx, spec in enumerate(hmodels(tier)):
        evs, _ = hevents(spec, tier, hdepth(tier))
        jobs.append((tier, idx, ()))
        for e in evs:
            if tier == "thorough":
                jobs += [(tier, idx, (e, e2)) for e2 in evs]
            else:
                jobs.append((tier, idx, (e,)))
    return jobs


def hcheck(job):
    """All histories of one model that start with the given events (the job with no events: the empty
    history and, thorough, the histories of length 1)."""
    tier, idx, prefix = job
    spec = hmodels(tier)[idx]
    depth = hdepth(tier)
    evs, _ = hevents(spec, tier, depth)
    if not prefix:
        hists = [()] + ([(e,) for e in evs] if tier == "thorough" else [])
    else:
        hists = [tuple(prefix) + tail for n in range(depth - len(prefix) + 1) for tail in itertools.product(evs, repeat=n)]
    viol, cuts, n_changed = [], {}, 0
    text = htext(spec)
    for h in hists:
        kind, i, detail, changed = run_history(spec, h)
        n_changed += bool(changed)
        case = {"text": text, "model": hkey(spec), "history": list(h)}
        hs = ">".join(h) or "generate"
        if kind == "gen":
            if not h:
                viol.append(("generate-raises:%s:%s" % (hkey(spec), detail.split(" ")[0]), "does not generate: %s\n%s" % (detail, text), case))
        elif kind == "cut":
            cuts[detail] = cuts.get(detail, 0) + 1
        elif kind == "viol":
            # report minimal histories only: one that still fails with an event left out is reported by that shorter history
            if any(run_history(spec, h[:j] + h[j + 1 :])[0] == "viol" for j in range(len(h))):
                continue
            clause, g, a, msg = detail
            at = "closing observation" if i >= len(h) else "event %d" % (i + 1)
            viol.append(("history-%s:%s:%s:%s:%s" % (clause, hlabel(spec), g, a, hs),
                         "after the history [%s] on one Model object (%s): %s\n%s" % (hs, at, msg, text), case))
    return viol, cuts, len(hists), n_changed


def run(ctx):
    cs = cases(ctx.tier)
    hj = hjobs(ctx.tier)
    with common.Pool() as pool:
        res = pool.map(check, cs, chunksize=8)
        hres = pool.map(hcheck, hj, chunksize=1)
    for viol in res:
        for sig, msg, case in viol:
            ctx.violation(sig, msg, case)
    n_hist = n_changed = 0
    cuts = {}
    for viol, c, n, nc in hres:
        for sig, msg, case in viol:
            ctx.violation(sig, msg, case)
        for k, v in c.items():
            cuts[k] = cuts.get(k, 0) + v
        n_hist += n
        n_changed += nc
    texts = {text_of(k, m) for k, m in cs}
    for k in (1, len(cs) // 2, len(cs) - 1):
        ctx.sample({"kind": cs[k][0], "model": text_of(*cs[k])})
    hm = hmodels(ctx.tier)
    for k in (0, len(hm) // 2, len(hm) - 1):
        ctx.sample({"history_model": hkey(hm[k]), "events": hevents(hm[k], ctx.tier, hdepth(ctx.tier))[0], "model": htext(hm[k])})
    ctx.coverage.update(
        {
            "evaluations": len(cs) * len(GRID) + n_hist * len(HGRID),
            "programs": len(cs),
            "distinct_nontrivial": len({t for t in texts if "(" in t.split("x", 1)[1].split(";")[0] or " = " in t.split(" x", 1)[1].split(";")[0]}),
            "grid": GRID,
            "grid_s_t": GRID_ST,
            "grid_array_parameter_factor": GRID_A,
            "history_models": len(hm),
            "history_depth": hdepth(ctx.tier),
            "histories": n_hist,
            "histories_nontrivial": n_changed,
            "histories_cut_by_simplify_raising": cuts,
            "reference_states_reached": sum(hevents(sp, ctx.tier, hdepth(ctx.tier))[1] for sp in hm),
            "exhaustive": True,
            "rule": "(1) for each of %d variable kinds (Real/Integer/Boolean; scalar, 1-D, 2-D; algebraic/state/input/parameter/"
            "constant): defaults, every single (attribute, form) with forms real literal, integer literal, -p, 2*p+1, p/2, p*q, "
            "p^2, sin(p) (each-modified for arrays), array literals, fixed true/false; the alphabet of the function's "
            "affine-in-the-parameters decision (operations const + - * / neg and a zero second derivative), each form alone "
            "in its model: affine 3*p, p+q, p-q, 3*p+q/4-1 and non-affine q/p, p/q, 2/p, 1/p, -(p*q), -(q/p), p*q+p, p-q/p, "
            "(p-q)*p, (p+q)/p, p/(q+1), p*p, and of degree >= 3 (second derivative zero at a point but not identically; "
            "further parameters s, t): p*q*s, p*q*s+p, p*q*s/4-q, p*q*s*t, p*q*(p-q), (p-1)*(q-1)*(s-1), on every attribute%s; "
            "array variables (1-D and 2x3%s) with attributes whose elements differ and depend on parameters: an array "
            "parameter a of the variable's shape as a, 3*a, -(p*a), p*q*a, and array constructors {3*p+q, 4*p+q, ...}, "
            "{1.5, 4*p, p*q-2, ...}, on every attribute; and all pairs of attributes with forms literal / 2*p+1 / "
            "p*q / 3*p+q/4-1 / q/p; each checked on the Variable object and in variable_metadata_function at %d "
            "parameter points (p, q, s, t never 0 or 1, elements of a pairwise different). Non-trivial = the declaration "
            "carries at least one attribute or value.  "
            "(2) histories on one Model object: for %d models whose attributes depend on parameters (with values, free, "
            "and defined by an expression), a constant and an alias pair -- and array models (1-D, 2x3%s; p = 2, a free g, an "
            "array parameter a with a literal value or free) with all of max / min / start / nominal array-valued "
            "(a, -(p*a), 3*a, g*a, a constructor {3*p+g, 2.5, g*p-2, ...}, a literal array) -- every sequence of at most %d events from {read "
            "the metadata function, read every Variable attribute, simplify(o)} with o each option set that can change "
            "the model's metadata by the reference (resolve_parameter_values, replace_parameter_expressions, "
            "replace_constant_expressions, replace_parameter_values, replace_constant_values, expand_vectors, "
            "expand_vectors + expand_mx, detect_aliases%s); "
            "both views are compared with the reference at every read and after the last event, for every listed variable "
            "and every variable list.  A history is non-trivial when one of its simplify calls changes the reference state."
            % (len(KINDS), " of every Real kind" if ctx.tier == "thorough" else " of one scalar Real kind per variable group "
               "(state, algebraic, input, parameter, constant) and a 1-D algebraic",
               "; 2x2; state, input, parameter" if ctx.tier == "thorough" else " algebraic", len(GRID), len(hm),
               "; 2x2; state, input" if ctx.tier == "thorough" else " algebraic", hdepth(ctx.tier),
               "; replace_parameter_expressions + replace_parameter_values together" if ctx.tier == "thorough" else ""),
        }
    )
    ctx.assumptions.append(
        "array constructors in attributes have expressions or literals as elements, not bare component references "
        "({p, q}: pymoca's generator raises KeyError on those anywhere, also in equations -- not a metadata matter); "
        "arrays of more than two dimensions and arrays of components are outside the alphabet"
    )
    ctx.assumptions.append(
        "histories: a simplify() call that raises ends the history without a verdict (counted in histories_cut_by_simplify_raising); "
        "attributes never mention constants (pymoca's metadata function takes parameters only); the aliased pair carries default "
        "attributes, so no rule for merging alias attributes is assumed; either member of the pair may be the one that is kept"
    )


def replay(case):
    if "history" in case:
        for spec in hmodels("thorough") + hmodels("quick"):
            if hkey(spec) == case["model"] and htext(spec) == case["text"]:
                r = run_history(spec, tuple(case["history"]))
                print(case["text"], ">".join(case["history"]) or "generate", r[:3])
                return r[0] in ("ok", "cut")
        return True
    for k, m in cases("thorough"):
        if text_of(k, m) == case["text"]:
            v = check((k, m))
            print(case["text"], [x[1].split("\n")[0] for x in v] or "ok")
            return not v
    return True
