"""C08 -- modifications take effect with Modelica precedence, in either spelling.

E4: one modified element (a parameter's value, or an attribute start/min/max/nominal/fixed/unit of a
variable) sits 1-3 component levels deep under a class that is extended, instantiated, and instantiated
again one level up.  Every level that can carry a modification of it

    T  type definition          type TT = Real(start = ..)
    D  declaration              TT x(start = ..)
    W* enclosing components in the declaring hierarchy (one per wrapper class)
    E0 inner extends clause     Base: extends Root(l.x(start = ..))
    E  extends clause           Mid: extends Base(l.x(start = ..))
    C  enclosing component      Mid m(l.x(start = ..))
    O  the component above it   Top t(m.l.x(start = ..))

is absent or present with a value that identifies the level, so the winner identifies itself.  Each
present level is spelled in every way the grammar allows (dots / parentheses at every link of its path),
and its expression is a literal or a name `q` that exists, with different values, in every class of the
hierarchy (so the scope in which it is resolved shows).  The reference flattener (vf.ref.flat) gives the
winner and its scope-resolved expression; a program is either rejected by pymoca (an exception) or its
flat model equals the reference in every variable, attribute and equation.

Two families of programs:

* single item: every present level modifies the same item (competition for one winner);
* several items: the present levels modify DIFFERENT items of the same element (value / attribute /
  another attribute) or an item of a sibling element `y` declared next to `x`, one item per level.  Here a
  level that loses nothing must also lose nothing: what an outer level says about one item must not disturb
  what an inner level said about another (the inner level's value, and the scope of its expression, stay
  visible because the outer level does not override it).
"""
import itertools

from vf.core import common, flatobs
from vf.ref import flat as F
from vf.ref.flat import Cls, Comp, Ext, Lib, Mod, Spelling, mod_path
from vf.ref.mast import B, N, V

LEVEL = "exploration"

ATTRS = ["value", "start", "min", "max", "nominal", "fixed", "unit"]
# items of the sibling element y (declared next to x in the same class)
SIBLING = ["y.value", "y.start", "y.min", "y.max", "y.nominal", "y.fixed", "y.unit"]
QVAL = {"Leaf": 101, "Holder": 102, "Base": 103, "Top": 104, "Outer": 105}


def level_names(depth):
    return ["T", "D"] + ["W%d" % i for i in range(depth - 1)] + ["E0", "E", "C", "O"]


def elem_attr(item):
    """simple item -> (element name, attribute)."""
    if item.startswith("y."):
        return "y", item[2:]
    return "x", item


def parts(item):
    """An item is simple ("start", "value", "y.min") or joint: two items of x carried by ONE level, written as
    separate arguments ("start+min": x(start = 1), x(min = 2) / x.start = 1, x.min = 2) or as one node
    ("start&min": x(start = 1, min = 2); "value&start": x(start = 1) = 2)."""
    return item.replace("&", "+").split("+")


def literal(attr, k):
    attr = elem_attr(attr)[1]
    if attr == "fixed":
        return ("bool", k % 2 == 0)
    if attr == "unit":
        return ("str", "u%d" % k)
    return N(10 + k)


def nameable(item):
    return any(elem_attr(p)[1] not in ("fixed", "unit") for p in parts(item))


def item_kind(item):
    out = []
    for p in parts(item):
        e, a = elem_attr(p)
        out.append(("sibling-" if e == "y" else "") + ("value" if a == "value" else "attribute"))
    return ("&" if "&" in item else "+").join(out)


def build(attr, depth, present, named, shadow=False, tchain=False, items=None):
    """present: set of level names; named: the level whose expression is the name q (or None); items: None (every
    level modifies `attr`) or dict level -> item modified by that level.  Returns (Lib, target class)."""
    names = level_names(depth)
    items = items or {}

    def item_of(lv):
        return items.get(lv, attr)

    def val(lv, part=None):
        part = part or item_of(lv)
        if lv == named and nameable(part):
            return V("q")
        return literal(part, names.index(lv))

    def mk(path, lv):
        """Modifications (a list of arguments) of the element reached by `path` (component names ending in x)."""
        it = item_of(lv)
        if "&" in it:
            node = Mod("x")
            for p in parts(it):
                if p == "value":
                    node.value = val(lv, p)
                else:
                    node.subs.append(Mod(p, val(lv, p)))
            for n in reversed(path[:-1]):
                node = Mod(n, None, [node])
            return [node]
        out = []
        for p in parts(it):
            e, a = elem_attr(p)
            pp = path[:-1] + [e]
            out.append(mod_path(pp if a == "value" else pp + [a], val(lv, p)))
        return out

    used = [p for lv in names if lv in present for p in parts(item_of(lv))] or [attr]
    classes = []
    xtype = "Real"
    if "T" in present and item_of("T") != "value":
        tmods = [Mod(p, val("T", p)) for p in parts(item_of("T"))]
        if tchain:
            # alias of an alias: the modification sits on the inner type definition
            classes.append(Cls("TT0", kind="type", base="Real", mods=tmods))
            classes.append(Cls("TT", kind="type", base="TT0"))
        else:
            classes.append(Cls("TT", kind="type", base="Real", mods=tmods))
        xtype = "TT"
    # the class that declares x (and, when an item of the sibling is modified, y)
    x = Comp("x", xtype, prefixes=("parameter",) if "value" in used else ())
    decl = [x]
    if any(it.startswith("y.") for it in used):
        decl.append(Comp("y", "Real", prefixes=("parameter",) if "y.value" in used else ()))
    if "D" in present:
        for p in parts(item_of("D")):
            e, a = elem_attr(p)
            d = decl[0] if e == "x" else decl[1]
            if a == "value":
                d.value = val("D", p)
            else:
                d.mods.append(Mod(a, val("D", p)))
    q = lambda cname: Comp("q", prefixes=("parameter",), value=N(QVAL[cname]))  # noqa: E731
    path = ["x"]
    if depth == 1:
        base = Cls("Base", comps=decl + [q("Base")])
    else:
        classes.append(Cls("Leaf", comps=decl + [q("Leaf")]))
        l = Comp("l", "Leaf", mods=mk(["x"], "W0") if "W0" in present else [])
        if depth == 2:
            base = Cls("Base", comps=[l, q("Base")])
            path = ["l", "x"]
        else:
            classes.append(Cls("Holder", comps=[l, q("Holder")]))
            h = Comp("h", "Holder", mods=mk(["l", "x"], "W1") if "W1" in present else [])
            base = Cls("Base", comps=[h, q("Base")])
            path = ["h", "l", "x"]
    if "E0" in present:
        # a second extends level below E: Base itself inherits the element from Root and modifies it
        root = Cls("Root", comps=[c for c in base.comps if c.name != "q"])
        classes.append(root)
        base = Cls("Base", exts=[Ext("Root", mk(path, "E0"))], comps=[q("Base")])
    classes.append(base)
    if shadow:
        # the class of component m has the same short name as the class that instantiates it (Lib.Top in Top):
        # a scope must be identified by the class, not by its short name
        mid = Cls("Top", exts=[Ext("Base", mk(path, "E") if "E" in present else [])])
        classes.append(Cls("Lib", kind="package", classes=[mid]))
        mtype = "Lib.Top"
    else:
        mid = Cls("Mid", exts=[Ext("Base", mk(path, "E") if "E" in present else [])])
        classes.append(mid)
        mtype = "Mid"
    top = Cls("Top", comps=[Comp("m", mtype, mods=mk(path, "C") if "C" in present else []), q("Top")])
    classes.append(top)
    outer = Cls("Outer", comps=[Comp("t", "Top", mods=mk(["m"] + path, "O") if "O" in present else []), q("Outer")])
    classes.append(outer)
    return Lib(classes), "Outer"


def unpack(job):
    """(attr, depth, present, named, flips, shadow, tchain, items) with defaults for short job tuples."""
    attr, depth, present, named, flips = job[:5]
    shadow = bool(job[5]) if len(job) > 5 else False
    tchain = bool(job[6]) if len(job) > 6 else False
    items = tuple(job[7]) if len(job) > 7 and job[7] else ()
    return attr, depth, tuple(present), named, tuple(flips), shadow, tchain, items


def items_dict(present, items):
    return dict(zip(present, items)) if items else None


def links(attr, depth, present, items=None):
    """For each spelling link index (print order): (level, is it the link that joins an element to its attribute).
    Print order follows class order: T (0 links), D (0), W0.., E0, E, C, O; every argument of a level has (length of
    its dotted path - 1) links; a joint node x(start = .., min = ..) ends at x."""
    items = items or {}
    out = []
    for lv in level_names(depth):
        if lv in present and lv not in ("T", "D"):
            n = int(lv[1:]) + 1 if lv.startswith("W") else depth + 1 if lv == "O" else depth
            it = items.get(lv, attr)
            if "&" in it:
                out += [(lv, False)] * (n - 1)
                continue
            for p in parts(it):
                out += [(lv, False)] * (n - 1)
                if elem_attr(p)[1] != "value":
                    out.append((lv, True))
    return out


def link_levels(attr, depth, present, items=None):
    return [lv for lv, _ in links(attr, depth, present, items)]


def attribute_links(attr, depth, present, items=None):
    """Indices of the links that join an element to its attribute (x.start / x(start ..))."""
    return [i for i, (_, a) in enumerate(links(attr, depth, present, items)) if a]


def flipsets(lv_of_link, names, maxflip_levels):
    """Every set of flipped links that touches <= maxflip_levels levels (any non-empty subset of the links of each)."""
    n = len(lv_of_link)
    lvs = sorted(set(lv_of_link), key=names.index)
    out = {()}
    for k in range(1, maxflip_levels + 1):
        for chosen in itertools.combinations(lvs, k):
            idx = [[i for i in range(n) if lv_of_link[i] == lv] for lv in chosen]
            per = []
            for ix in idx:
                subs = []
                for m in range(1, len(ix) + 1):
                    subs += list(itertools.combinations(ix, m))
                per.append(subs)
            for combo in itertools.product(*per):
                out.add(tuple(sorted(i for c in combo for i in c)))
    return sorted(out)


def programs(tier):
    """Single-item family: job tuples (attr, depth, present levels, named level, flips[, shadow[, alias chain]])."""
    jobs = []
    depths = (1, 2) if tier == "quick" else (1, 2, 3)
    for attr in ATTRS:
        for depth in depths:
            # quick: <= 3 competing levels, spellings of one level at a time; thorough: every subset of levels at
            # depth 1-2 (<= 4 at depth 3), spellings of two levels at a time at depth 1-2
            maxlv = 3 if tier == "quick" else (99 if depth < 3 else 4)
            maxflip_levels = 1 if tier == "quick" or depth == 3 else 2
            names = level_names(depth)
            usable = [n for n in names if not (attr == "value" and n == "T")]
            for r in range(0, min(maxlv, len(usable)) + 1):
                for present in itertools.combinations(usable, r):
                    nameds = [None]
                    if attr not in ("fixed", "unit"):
                        nameds += [lv for lv in present if lv != "T"]
                    for named in nameds:
                        if "E0" in present and named is not None and named.startswith("W"):
                            continue  # the wrapper components then live in Root, which declares no q
                        lv_of_link = link_levels(attr, depth, frozenset(present))
                        pres = tuple(sorted(present, key=names.index))
                        for fl in flipsets(lv_of_link, names, maxflip_levels):
                            jobs.append((attr, depth, pres, named, fl, False))
                        if "T" in present and attr != "value":
                            # the element's type is an alias of an alias
                            jobs.append((attr, depth, pres, named, (), False, True))
                        if named in ("C", "O", "E", "E0"):
                            # same hierarchy with the class of m named like the class that contains m
                            jobs.append((attr, depth, pres, named, (), True))
    return jobs


def item_pairs(tier):
    """Ordered pairs (item of the inner level, item of the outer level), different items."""
    a = ATTRS[1:]
    if tier == "quick":
        # every pair with the value on one side; attribute pairs: each attribute with its cyclic successor;
        # the sibling's item of the same kind outside, for the value and for one attribute
        pairs = [("value", x) for x in a] + [(x, "value") for x in a]
        pairs += [(a[i], a[(i + 1) % len(a)]) for i in range(len(a))]
        pairs += [("value", "y.value"), ("start", "y.start")]
    else:
        pairs = [(x, y) for x in ATTRS for y in ATTRS if x != y]
        pairs += [(x, "y." + y) for x in ATTRS for y in ATTRS]
        pairs += [("y." + x, x) for x in ATTRS]
    return pairs


def can_carry(lv, item):
    if lv == "T":
        return item != "value" and not item.startswith("y.")
    return True


def multi_programs(tier):
    """Several-items family: the present levels modify different items of x (or an item of the sibling y), one
    item per level.  Job tuples (inner item, depth, present, named, flips, False, False, items per present level)."""
    jobs = []
    depths = (1, 2) if tier == "quick" else (1, 2, 3)
    for depth in depths:
        names = level_names(depth)
        # two levels, two items
        for present in itertools.combinations(names, 2):
            for pair in item_pairs(tier):
                if not all(can_carry(lv, it) for lv, it in zip(present, pair)):
                    continue
                jobs += _variants(tier, depth, names, present, pair)
        # thorough: three levels, two items of x, every assignment that uses both
        if tier != "quick" and depth < 3:
            for present in itertools.combinations(names, 3):
                for a, b in itertools.combinations(ATTRS, 2):
                    for assign in itertools.product((a, b), repeat=3):
                        if len(set(assign)) < 2 or not all(can_carry(lv, it) for lv, it in zip(present, assign)):
                            continue
                        jobs += _variants("quick", depth, names, present, assign)
    return jobs


def _variants(tier, depth, names, present, items):
    """quick: the base program (literals, default spelling) and one deviation of it -- the name q at one level, or the
    attribute link of one level spelled the other way; thorough: every named level (or none) x every spelling of the
    links of <= 2 levels."""
    idict = dict(zip(present, items))
    nameds = [None] + [lv for lv in present if lv != "T" and nameable(idict[lv]) and not ("E0" in present and lv.startswith("W"))]
    out = []
    if tier == "quick":
        for named in nameds:
            out.append((items[0], depth, present, named, (), False, False, items))
        for i in attribute_links(items[0], depth, present, idict):
            out.append((items[0], depth, present, None, (i,), False, False, items))
    else:
        fls = flipsets(link_levels(items[0], depth, present, idict), names, 2 if depth < 3 else 1)
        for named in nameds:
            for fl in fls:
                out.append((items[0], depth, present, named, fl, False, False, items))
    return out


def joint_pairs(tier):
    a = ATTRS[1:]
    if tier == "quick":
        return [("value", x) for x in a] + [(a[i], a[(i + 1) % len(a)]) for i in range(len(a))]
    return list(itertools.combinations(ATTRS, 2))


def joint_forms(lv, pair):
    """The ways one level can carry two items of x: the declaration and the type definition have one; a modification
    writes one node x(start = .., min = ..) or, for two attributes, two arguments x(start = ..), x(min = ..)."""
    if lv in ("T", "D"):
        return ["%s+%s" % pair]
    return ["%s&%s" % pair] + (["%s+%s" % pair] if "value" not in pair else [])


def joint_programs(tier):
    """Joint family: one level carries two items of x at once.  quick: that level alone, its expressions the name q
    where possible, default spelling and (two arguments) both attribute links dotted; thorough: additionally q
    nowhere, every spelling of its links, and a second level that carries one of the two items."""
    jobs = []
    depths = (1, 2) if tier == "quick" else (1, 2, 3)
    for depth in depths:
        names = level_names(depth)
        for lv in names:
            for pair in joint_pairs(tier):
                if lv == "T" and "value" in pair:
                    continue
                for form in joint_forms(lv, pair):
                    present, items = (lv,), (form,)
                    idict = {lv: form}
                    canname = lv != "T" and nameable(form)
                    al = tuple(attribute_links(pair[0], depth, present, idict))
                    if tier == "quick":
                        named = lv if canname else None
                        jobs.append((pair[0], depth, present, named, (), False, False, items))
                        if al:
                            jobs.append((pair[0], depth, present, named, al, False, False, items))
                        continue
                    for named in [None] + ([lv] if canname else []):
                        for fl in flipsets(link_levels(pair[0], depth, present, idict), names, 1):
                            jobs.append((pair[0], depth, present, named, fl, False, False, items))
                    if depth == 3:
                        continue
                    for other in names:
                        if other == lv:
                            continue
                        for it in pair:
                            if not can_carry(other, it):
                                continue
                            pres = tuple(sorted((lv, other), key=names.index))
                            its = tuple(form if x == lv else it for x in pres)
                            jobs += _variants("quick", depth, names, pres, its)
    return jobs


def spelling_kind(job):
    """Class of the spelling for signatures: per flipped link whether it is an attribute link."""
    attr, depth, present, named, flips, shadow, tchain, items = unpack(job)
    if not flips:
        return "default-spelling" + (":same-short-class-name" if shadow else "") + (":alias-of-alias" if tchain else "")
    alinks = set(attribute_links(attr, depth, present, items_dict(present, items)))
    kinds = set()
    for i in flips:
        kinds.add("dotted-attribute" if i in alinks else "nested-component")
    return "+".join(sorted(kinds))


def check(job):
    attr, depth, present, named, flips, shadow, tchain, items = unpack(job)
    idict = items_dict(present, items)
    lib, target = build(attr, depth, frozenset(present), named, shadow, tchain, idict)
    text = lib.text(Spelling(flips=flips))
    case = {"job": [attr, depth, list(present), named, list(flips), shadow, tchain, list(items)], "text": text}
    flat = F.flatten(lib, target)
    exp = flatobs.expected(flat)
    group = (attr, depth, present, named, shadow, tchain, items)
    try:
        obs = flatobs.normalise_obs(flatobs.observe(text, target))
    except Exception as e:
        return {"outcome": "rejected", "exc": common.exc_sig(e), "viol": [], "text": text, "group": group}
    viol = []
    names = level_names(depth)
    if items:
        what = "levels %s modify %s" % (list(present), list(items))
        suffix = ":" + "-inside-".join(item_kind(it) for it in items)
    else:
        winner = next((lv for lv in reversed(names) if lv in present and not (attr == "value" and lv == "T")), "none")
        what = "modified %s, levels present %s, expected winner %s" % (attr, list(present), winner)
        suffix = ""
    sk = spelling_kind(job)
    for clause, detail in flatobs.compare(exp, obs):
        if items:
            sig = "%s:%s%s" % (clause, sk, suffix)
        else:
            sig = "%s:%s:%s" % (clause, attr if clause.startswith("attribute") or clause == "equations" else "-", sk)
        viol.append((sig, "%s\n(%s%s)\n%s" % (detail, what, ", expression q at level %s" % named if named else "", text), case))
    return {"outcome": "accepted", "viol": viol, "text": text, "group": group, "canon": repr(sorted((k, sorted(v["attrs"].items()), sorted(v["prefixes"])) for k, v in obs["vars"].items())) + repr(sorted(obs["eqs"]))}


def run(ctx):
    single = programs(ctx.tier)
    multi = multi_programs(ctx.tier)
    joint = joint_programs(ctx.tier)
    jobs = single + multi + joint
    if ctx.seed:
        r = ctx.seed % len(jobs)
        jobs = jobs[r:] + jobs[:r]
    with common.Pool() as pool:
        res = pool.map(check, jobs, chunksize=16)
    accepted = rejected = 0
    groups = {}
    texts = set()
    competing = 0
    multi_accepted = 0
    rej = {}
    for job, r in zip(jobs, res):
        texts.add(r["text"])
        if r["outcome"] == "rejected":
            rejected += 1
            rej[r["exc"]] = rej.get(r["exc"], 0) + 1
        else:
            accepted += 1
            groups.setdefault(r["group"], set()).add(r["canon"])
            its = job[7] if len(job) > 7 else ()
            if (sum(len(parts(it)) for it in its) if its else len(job[2])) >= 2:
                competing += 1
                if its:
                    multi_accepted += 1
        for sig, msg, case in r["viol"]:
            ctx.violation(sig, msg, case)
    # (ii) spelling groups: all accepted members flatten to one canonical model
    for g, canons in groups.items():
        if len(canons) > 1:
            ctx.violation("spellings-differ:%s" % g[0], "accepted spellings of %r flatten to %d different models" % (g, len(canons)), {"group": [g[0], g[1], list(g[2]), g[3], g[4], g[5], list(g[6])]})
    for k in (0, len(jobs) // 2, len(jobs) - 1):
        ctx.sample({"job": jobs[k], "text": res[k]["text"], "outcome": res[k]["outcome"]})
    ctx.coverage.update(
        {
            "evaluations": len(jobs),
            "single_item_programs": len(single),
            "several_item_programs": len(multi),
            "joint_item_programs": len(joint),
            "distinct_nontrivial": competing,
            "several_items_accepted": multi_accepted,
            "distinct_texts": len(texts),
            "accepted": accepted,
            "rejected": rejected,
            "rejected_by": rej,
            "spelling_groups": len(groups),
            "exhaustive": True,
            "rule": "Single item: 7 modified items (parameter value; start, min, max, nominal, fixed, unit) x depth 1-2 (thorough 1-3) x every "
            "subset of <= 3 (thorough: all) of the modification levels T, D, W*, E0, E, C, O x the expression q (resolved in the scope "
            "where written) at one present level or nowhere x every spelling of the links of one level (thorough: of two levels) "
            "with the others in the default a.x(start = v) / a.x = v style. Several items: every pair of levels (inner, outer) x "
            "ordered pairs of different items (quick: every pair with the value on one side, each attribute with its cyclic "
            "successor, the value / start of x with the value / start of a sibling element y outside; thorough: all 42 pairs of items of x, all 49 "
            "(item of x, item of y) and 7 (item of y, same item of x)), one item per level; quick: the program with literals in "
            "default spelling and each single deviation (q at one level; the attribute link of one level spelled the other way); "
            "thorough: q at one level or nowhere x every spelling of the links of <= 2 levels, and every triple of levels (depth "
            "1-2) with every assignment of two items of x that uses both. Joint: one level carries two items of x at once (as one "
            "node x(a = .., b = ..) or two arguments), pairs as above without the sibling, expressions q where possible, default "
            "spelling and both attribute links dotted (thorough: all pairs, q or literals, every spelling of its links, and a second "
            "level carrying one of the two items). Non-trivial = accepted by pymoca with >= 2 modifications (level, item) "
            "present. A rejected (raising) program is not judged, as the statement allows.",
        }
    )
    ctx.assumptions.append("rejection (any exception from flatten) is accepted for every spelling; the counts are reported")


def replay(case):
    if "job" not in case:
        return True
    r = check(unpack(case["job"]))
    print(r["text"])
    print(r["outcome"], [m.split("\n")[0] for _, m, _ in r["viol"]] or "ok")
    return not r["viol"]
