"""C08 -- modifications take effect with Modelica precedence, in either spelling.

E4: one modified element (a parameter's value, or an attribute start/min/max/nominal/fixed/unit of a
variable) sits 1-3 component levels deep under a class that is extended, instantiated, and instantiated
again one level up.  Every level that can carry a modification of it

    T  type definition          type TT = Real(start = ..)
    D  declaration              TT x(start = ..)
    W* enclosing components in the declaring hierarchy (one per wrapper class)
    E0 inner extends clause     Base: extends Root(l.x(start = ..))
    E  extends clause           Mid: extends Base(l.x(start = ..))
    C  enclosing component      Mid m(l.x(start = ..))
    O  the component above it   Top t(m.l.x(start = ..))

is absent or present with a value that identifies the level, so the winner identifies itself.  Each
present level is spelled in every way the grammar allows (dots / parentheses at every link of its path),
and its expression is a literal or a name `q` that exists, with different values, in every class of the
hierarchy (so the scope in which it is resolved shows).  The reference flattener (vf.ref.flat) gives the
winner and its scope-resolved expression; a program is either rejected by pymoca (an exception) or its
flat model equals the reference in every variable, attribute and equation.
"""
import itertools

from vf.core import common, flatobs
from vf.ref import flat as F
from vf.ref.flat import Cls, Comp, Ext, Lib, Mod, Spelling, mod_path
from vf.ref.mast import B, N, V

LEVEL = "exploration"

ATTRS = ["value", "start", "min", "max", "nominal", "fixed", "unit"]
QVAL = {"Leaf": 101, "Holder": 102, "Base": 103, "Top": 104, "Outer": 105}


def level_names(depth):
    return ["T", "D"] + ["W%d" % i for i in range(depth - 1)] + ["E0", "E", "C", "O"]


def literal(attr, k):
    if attr == "fixed":
        return ("bool", k % 2 == 0)
    if attr == "unit":
        return ("str", "u%d" % k)
    return N(10 + k)


def build(attr, depth, present, named, shadow=False, tchain=False):
    """present: set of level names; named: the level whose expression is the name q (or None).
    Returns (Lib, target class, list of (level, Mod owner list, index) for spelling control)."""
    names = level_names(depth)

    def val(lv):
        if lv == named:
            return V("q")
        return literal(attr, names.index(lv))

    def mk(path, lv):
        """Modification of the element reached by `path` (list of component names ending in x)."""
        if attr == "value":
            return mod_path(path, val(lv))
        return mod_path(path + [attr], val(lv))

    classes = []
    xtype = "Real"
    if "T" in present and attr != "value":
        if tchain:
            # alias of an alias: the modification sits on the inner type definition
            classes.append(Cls("TT0", kind="type", base="Real", mods=[Mod(attr, val("T"))]))
            classes.append(Cls("TT", kind="type", base="TT0"))
        else:
            classes.append(Cls("TT", kind="type", base="Real", mods=[Mod(attr, val("T"))]))
        xtype = "TT"
    # the class that declares x
    x = Comp("x", xtype, prefixes=("parameter",) if attr == "value" else ())
    if "D" in present:
        if attr == "value":
            x.value = val("D")
        else:
            x.mods = [Mod(attr, val("D"))]
    q = lambda cname: Comp("q", prefixes=("parameter",), value=N(QVAL[cname]))  # noqa: E731
    path = ["x"]
    if depth == 1:
        base = Cls("Base", comps=[x, q("Base")])
    else:
        classes.append(Cls("Leaf", comps=[x, q("Leaf")]))
        l = Comp("l", "Leaf", mods=[mk(["x"], "W0")] if "W0" in present else [])
        if depth == 2:
            base = Cls("Base", comps=[l, q("Base")])
            path = ["l", "x"]
        else:
            classes.append(Cls("Holder", comps=[l, q("Holder")]))
            h = Comp("h", "Holder", mods=[mk(["l", "x"], "W1")] if "W1" in present else [])
            base = Cls("Base", comps=[h, q("Base")])
            path = ["h", "l", "x"]
    if "E0" in present:
        # a second extends level below E: Base itself inherits the element from Root and modifies it
        root = Cls("Root", comps=[c for c in base.comps if c.name != "q"])
        classes.append(root)
        base = Cls("Base", exts=[Ext("Root", [mk(path, "E0")])], comps=[q("Base")])
    classes.append(base)
    if shadow:
        # the class of component m has the same short name as the class that instantiates it (Lib.Top in Top):
        # a scope must be identified by the class, not by its short name
        mid = Cls("Top", exts=[Ext("Base", [mk(path, "E")] if "E" in present else [])])
        classes.append(Cls("Lib", kind="package", classes=[mid]))
        mtype = "Lib.Top"
    else:
        mid = Cls("Mid", exts=[Ext("Base", [mk(path, "E")] if "E" in present else [])])
        classes.append(mid)
        mtype = "Mid"
    top = Cls("Top", comps=[Comp("m", mtype, mods=[mk(path, "C")] if "C" in present else []), q("Top")])
    classes.append(top)
    outer = Cls("Outer", comps=[Comp("t", "Top", mods=[mk(["m"] + path, "O")] if "O" in present else []), q("Outer")])
    classes.append(outer)
    return Lib(classes), "Outer"


def count_links(lib):
    sp = Spelling()
    lib.text(sp)
    return sp.links


def link_levels(lib_builder_args):
    """For each spelling link index (print order), which level it belongs to."""
    attr, depth, present, named = lib_builder_args
    out = []
    # print order follows class order: T (0 links), D (0), W0.., E, C, O; links per level = path length - 1
    names = level_names(depth)
    plen = {"T": 1, "D": 1}
    for i in range(depth - 1):
        plen["W%d" % i] = (i + 1) + (0 if attr == "value" else 1)
    plen["E"] = depth + (0 if attr == "value" else 1)
    plen["E0"] = plen["E"]
    plen["C"] = plen["E"]
    plen["O"] = plen["E"] + 1
    for lv in names:
        if lv in present and lv not in ("T", "D"):
            out += [lv] * (plen[lv] - 1)
    return out


def programs(tier):
    """Yield job tuples (attr, depth, present levels, named level, flips)."""
    jobs = []
    depths = (1, 2) if tier == "quick" else (1, 2, 3)
    for attr in ATTRS:
        for depth in depths:
            # quick: <= 3 competing levels, spellings of one level at a time; thorough: every subset of levels at
            # depth 1-2 (<= 4 at depth 3), spellings of two levels at a time at depth 1-2
            maxlv = 3 if tier == "quick" else (99 if depth < 3 else 4)
            maxflip_levels = 1 if tier == "quick" or depth == 3 else 2
            names = level_names(depth)
            usable = [n for n in names if not (attr == "value" and n == "T")]
            for r in range(0, min(maxlv, len(usable)) + 1):
                for present in itertools.combinations(usable, r):
                    nameds = [None]
                    if attr not in ("fixed", "unit"):
                        nameds += [lv for lv in present if lv != "T"]
                    for named in nameds:
                        if "E0" in present and named is not None and named.startswith("W"):
                            continue  # the wrapper components then live in Root, which declares no q
                        args = (attr, depth, frozenset(present), named)
                        lv_of_link = link_levels(args)
                        n = len(lv_of_link)
                        lvs = sorted(set(lv_of_link), key=names.index)
                        flipsets = {()}
                        for k in range(1, maxflip_levels + 1):
                            for chosen in itertools.combinations(lvs, k):
                                idx = [[i for i in range(n) if lv_of_link[i] == lv] for lv in chosen]
                                # every non-empty subset of the links of each chosen level
                                per = []
                                for ix in idx:
                                    subs = []
                                    for m in range(1, len(ix) + 1):
                                        subs += list(itertools.combinations(ix, m))
                                    per.append(subs)
                                for combo in itertools.product(*per):
                                    flipsets.add(tuple(sorted(i for c in combo for i in c)))
                        for fl in sorted(flipsets):
                            jobs.append((attr, depth, tuple(sorted(present, key=names.index)), named, fl, False))
                        if "T" in present and attr != "value":
                            # the element's type is an alias of an alias
                            jobs.append((attr, depth, tuple(sorted(present, key=names.index)), named, (), False, True))
                        if named in ("C", "O", "E", "E0"):
                            # same hierarchy with the class of m named like the class that contains m
                            jobs.append((attr, depth, tuple(sorted(present, key=names.index)), named, (), True))
    return jobs


def spelling_kind(job):
    """Class of the spelling for signatures: per flipped link whether it is an attribute link."""
    attr, depth, present, named, flips = job[:5]
    if not flips:
        return "default-spelling" + (":same-short-class-name" if len(job) > 5 and job[5] else "") + (":alias-of-alias" if len(job) > 6 and job[6] else "")
    lv_of_link = link_levels((attr, depth, frozenset(present), named))
    kinds = set()
    # the last link of a level's path is the attribute link (for attribute modifications)
    for i in flips:
        lv = lv_of_link[i]
        last = i + 1 >= len(lv_of_link) or lv_of_link[i + 1] != lv
        if last and attr != "value":
            kinds.add("dotted-attribute")
        else:
            kinds.add("nested-component")
    return "+".join(sorted(kinds))


def check(job):
    attr, depth, present, named, flips = job[:5]
    shadow = bool(job[5]) if len(job) > 5 else False
    tchain = bool(job[6]) if len(job) > 6 else False
    lib, target = build(attr, depth, frozenset(present), named, shadow, tchain)
    text = lib.text(Spelling(flips=flips))
    case = {"job": [attr, depth, list(present), named, list(flips), shadow, tchain], "text": text}
    flat = F.flatten(lib, target)
    exp = flatobs.expected(flat)
    group = (attr, depth, present, named, shadow, tchain)
    try:
        obs = flatobs.normalise_obs(flatobs.observe(text, target))
    except Exception as e:
        return {"outcome": "rejected", "exc": common.exc_sig(e), "viol": [], "text": text, "group": group}
    viol = []
    names = level_names(depth)
    winner = next((lv for lv in reversed(names) if lv in present and not (attr == "value" and lv == "T")), "none")
    sk = spelling_kind(job)
    for clause, detail in flatobs.compare(exp, obs):
        sig = "%s:%s:%s" % (clause, attr if clause.startswith("attribute") or clause == "equations" else "-", sk)
        viol.append((sig, "%s\n(modified %s, levels present %s, expected winner %s%s)\n%s" % (detail, attr, list(present), winner, ", expression q at level %s" % named if named else "", text), case))
    return {"outcome": "accepted", "viol": viol, "text": text, "group": group, "canon": repr(sorted((k, sorted(v["attrs"].items()), sorted(v["prefixes"])) for k, v in obs["vars"].items())) + repr(sorted(obs["eqs"]))}


def run(ctx):
    jobs = programs(ctx.tier)
    if ctx.seed:
        r = ctx.seed % len(jobs)
        jobs = jobs[r:] + jobs[:r]
    with common.Pool() as pool:
        res = pool.map(check, jobs, chunksize=16)
    accepted = rejected = 0
    groups = {}
    texts = set()
    competing = 0
    rej = {}
    for job, r in zip(jobs, res):
        texts.add(r["text"])
        if r["outcome"] == "rejected":
            rejected += 1
            rej[r["exc"]] = rej.get(r["exc"], 0) + 1
        else:
            accepted += 1
            groups.setdefault(r["group"], set()).add(r["canon"])
            if len(job[2]) >= 2:
                competing += 1
        for sig, msg, case in r["viol"]:
            ctx.violation(sig, msg, case)
    # (ii) spelling groups: all accepted members flatten to one canonical model
    for g, canons in groups.items():
        if len(canons) > 1:
            ctx.violation("spellings-differ:%s" % g[0], "accepted spellings of %r flatten to %d different models" % (g, len(canons)), {"group": [g[0], g[1], list(g[2]), g[3], g[4], g[5]]})
    for k in (0, len(jobs) // 2, len(jobs) - 1):
        ctx.sample({"job": jobs[k], "text": res[k]["text"], "outcome": res[k]["outcome"]})
    ctx.coverage.update(
        {
            "evaluations": len(jobs),
            "distinct_nontrivial": competing,
            "distinct_texts": len(texts),
            "accepted": accepted,
            "rejected": rejected,
            "rejected_by": rej,
            "spelling_groups": len(groups),
            "exhaustive": True,
            "rule": "7 modified items (parameter value; start, min, max, nominal, fixed, unit) x depth 1-2 (thorough 1-3) x every "
            "subset of <= 3 (thorough: all) of the modification levels T, D, W*, E, C, O x the expression q (resolved in the scope "
            "where written) at one present level or nowhere x every spelling of the links of one level (thorough: of two levels) "
            "with the others in the default a.x(start = v) / a.x = v style. Non-trivial = accepted by pymoca with >= 2 competing "
            "levels present. A rejected (raising) program is not judged, as the statement allows.",
        }
    )
    ctx.assumptions.append("rejection (any exception from flatten) is accepted for every spelling; the counts are reported")


def replay(case):
    if "job" not in case:
        return True
    a, d, p, n, f = case["job"][:5]
    sh = case["job"][5] if len(case["job"]) > 5 else False
    tc = case["job"][6] if len(case["job"]) > 6 else False
    r = check((a, d, tuple(p), n, tuple(f), sh, tc))
    print(r["text"])
    print(r["outcome"], [m.split("\n")[0] for _, m, _ in r["viol"]] or "ok")
    return not r["viol"]
