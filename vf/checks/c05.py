"""C05 -- flattening never changes what later flattening produces.

E1: BFS over request histories on one parsed tree; every step is compared with the same
request on a fresh parse; states are full structural fingerprints of the (possibly mutated)
tree, so the search closes as soon as requests stop changing the tree.

Closed worlds (libraries):
  hand:*   the five libraries of vf.libs.HAND_LIBS (component types, extends, connectors, nested
           classes, functions / types);
  share:*  vf.libs.SHARE_LIBS: one library per construct whose handling in tree.py / ast.py can
           reach an object of the parsed tree (see the table in vf/libs.py); in each of them one
           class is *shared* by several users in different roles, so that for every ordered pair
           of roles there is a history "first user, then second user";
  multi:*  several test files merged with Tree.extend (the tree the compiler CLI works on);
  file:*   every test/models/*.mo on its own.

Trees are parsed once per library; later "fresh parses" and the states of the search are byte
snapshots (pickle) that are accepted only if their structural fingerprint (vf.core.dump: every
attribute, type, dict order and the sharing structure) equals that of the live tree -- otherwise
the text is parsed again / the history is replayed.
"""
import hashlib
import os
import pickle

from vf import libs
from vf.core import bfs, common, dump

LEVEL = "model_checking"

_CFG = {}
_TEXTS = {}  # lib -> tuple of source texts (more than one: merged with Tree.extend)
# lib -> {"snap": bytes|None|<path of the file holding the bytes>, "classes": [...], "fresh": {(kind, cls): result},
# "digest": str}.  Filled by _prepare in one worker, handed to the others through files in a scratch directory
# (one pool for both phases: a forked worker is expensive to start).
_PREP = {}

# files that only make sense together (the second refers to classes of the first)
MULTI = (
    ("TreeLookup.mo", "Import.mo"),
    ("TreeLookup.mo", "FunctionPull.mo"),
    ("TreeLookup.mo", "NestedClasses.mo", "Import.mo", "FunctionPull.mo"),
)

ALL_KINDS = ("flatten", "casadi", "sympy", "xml")


def _load_texts(tier):
    texts = dict(("hand:" + k, (v,)) for k, v in libs.HAND_LIBS.items())
    texts.update(("share:" + k, (v,)) for k, v in libs.SHARE_LIBS.items())
    files = {}
    for f in libs.test_model_files():
        with open(f, encoding="utf-8") as fh:
            files[os.path.basename(f)] = fh.read()
    for k, v in files.items():
        texts["file:" + k] = (v,)
    for combo in MULTI:
        if all(c in files for c in combo):
            texts["multi:" + "+".join(combo)] = tuple(files[c] for c in combo)
    return texts


def _init(tier):
    _CFG["tier"] = tier
    if not _TEXTS:
        _TEXTS.update(_load_texts(tier))
    import sys

    sys.setrecursionlimit(10000)


def _preimport():
    """Import the subject once in the parent: forked workers then all run the same code and do not each pay
    for compiling the generated parser."""
    import pymoca.backends.casadi.generator  # noqa: F401
    import pymoca.backends.sympy.generator  # noqa: F401
    import pymoca.backends.xml.generator  # noqa: F401
    import pymoca.parser  # noqa: F401
    import pymoca.tree  # noqa: F401
    import tools.compiler  # noqa: F401

    # warm the lazily built caches (ANTLR prediction DFA, template compilers, ...) that would otherwise be
    # rebuilt in every worker; the results are not used
    from pymoca import parser

    for text in libs.HAND_LIBS.values():
        t = parser.parse(text, bypass_cache=True)
        for kind in ALL_KINDS:
            do_request(t, kind, libs.class_paths(t)[-1])


def _parse(lib):
    """A real parse of the library text(s)."""
    from pymoca import ast as past
    from pymoca import parser

    texts = _TEXTS[lib]
    if len(texts) == 1:
        return parser.parse(texts[0], bypass_cache=True)
    root = past.Tree(name="ModelicaTree")  # what tools/compiler.py parse_all builds
    for t in texts:
        sub = parser.parse(t, bypass_cache=True)
        if sub is None:
            return None
        root.extend(sub)
    return root


def _snapshot(tree):
    """Bytes from which a structurally identical tree can be restored, or None."""
    try:
        b = pickle.dumps(tree, protocol=pickle.HIGHEST_PROTOCOL)
        if dump.digest(pickle.loads(b)) == dump.digest(tree):
            return b
    except Exception:
        pass
    return None


def _load_index():
    if not _CFG.get("index_loaded"):
        with open(os.path.join(_CFG["prepdir"], "index.pkl"), "rb") as f:
            _PREP.clear()
            _PREP.update(pickle.load(f))
        _CFG["index_loaded"] = True


def _prep(lib):
    _load_index()
    p = _PREP[lib]
    if isinstance(p["snap"], str):
        with open(p["snap"], "rb") as f:
            p["snap"] = f.read()
    return p


def _fresh_tree(lib):
    p = _prep(lib)
    if p["snap"] is not None:
        return pickle.loads(p["snap"])
    return _parse(lib)


def classes_of(lib):
    return _prep(lib)["classes"]


def kinds_for(lib):
    if not lib.startswith("file:") or _CFG["tier"] == "thorough":
        return ALL_KINDS
    return ("flatten", "casadi")


def _canon(s):
    return "<%d chars, sha %s>" % (len(s), hashlib.sha1(s.encode("utf-8", "replace")).hexdigest())


def do_request(tree, kind, cls):
    """Result of one request in canonical form (length and hash of the full text form); exceptions are results."""
    from pymoca import ast as past

    try:
        if kind == "flatten":
            from pymoca import tree as ptree

            flat = ptree.flatten(tree, past.ComponentRef.from_string(cls))
            try:
                import json

                return ("ok", _canon(json.dumps(past.Node.to_json(flat), sort_keys=True, default=repr)))
            except Exception:
                return ("ok-dump", dump.digest(flat))
        if kind == "casadi":
            from pymoca.backends.casadi.generator import generate

            m = generate(tree, cls, {})
            return ("ok", _canon(model_canon(m)))
        if kind == "sympy":
            from pymoca.backends.sympy.generator import generate

            return ("ok", _canon(generate(tree, cls, {})))
        if kind == "xml":
            from pymoca.backends.xml.generator import generate

            return ("ok", _canon(generate(tree, cls)))
    except RecursionError:
        return ("exc", "RecursionError")
    except Exception as e:
        return ("exc", type(e).__name__)
    raise ValueError(kind)


def model_canon(m):
    parts = [str(m)]
    for grp in ("states", "der_states", "alg_states", "inputs", "parameters", "constants"):
        for v in getattr(m, grp):
            parts.append(
                "%s %s %s %s"
                % (grp, v.symbol.name(), v.python_type.__name__, [repr(getattr(v, a)) for a in ("value", "start", "min", "max", "nominal", "fixed")])
            )
    for grp in ("string_parameters", "string_constants"):
        for v in getattr(m, grp):
            parts.append("%s %s %r %r" % (grp, v.name, v.value, v.start))
    parts.append(repr(m.outputs))
    parts.append(repr(m.delay_states))
    return "\n".join(parts)


def _prepare(lib):
    """One real parse of a library; its snapshot, classes and the fresh-parse result of every request."""
    t = _parse(lib)
    if t is None:
        return lib, None
    classes = libs.class_paths(t)
    if not classes:
        return lib, None
    p = {"snap": _snapshot(t), "classes": classes, "digest": dump.digest(t), "fresh": {}}
    first = True
    for kind in kinds_for(lib):
        for cls in classes:
            # the very first request uses the parsed tree itself, all others a restored snapshot
            tree = t if first else (pickle.loads(p["snap"]) if p["snap"] is not None else _parse(lib))
            first = False
            p["fresh"][(kind, cls)] = do_request(tree, kind, cls)
    if p["snap"] is not None and "prepdir" in _CFG:
        path = os.path.join(_CFG["prepdir"], "snap_%s" % hashlib.sha1(lib.encode()).hexdigest())
        with open(path, "wb") as f:
            f.write(p["snap"])
        return lib, dict(p, snap=path)
    return lib, p


def fresh(lib, kind, cls):
    return _prep(lib)["fresh"][(kind, cls)]


def _outcome_class(exp, got):
    if got[0] == "exc":
        return "exception:" + got[1]
    if exp[0] == "exc":
        return "succeeds-where-fresh-raises:" + exp[1]
    return "different-result"


def expand(hist):
    out = []
    if not hist:
        _load_index()
        for lib in sorted(_PREP):
            out.append({"ev": ["lib", lib], "key": ("lib", lib, _PREP[lib]["digest"])})
        return out
    lib = hist[0][1]
    # the state reached by the history, built once and then restored for every request
    state = _fresh_tree(lib)
    for ev in hist[1:]:
        do_request(state, ev[0], ev[1])
    snap = _snapshot(state) if len(hist) > 1 else _prep(lib)["snap"]
    confirmed = False
    for kind in kinds_for(lib):
        for cls in classes_of(lib):
            if snap is not None:
                tree = pickle.loads(snap)
            else:
                tree = _fresh_tree(lib)
                for ev in hist[1:]:
                    do_request(tree, ev[0], ev[1])
            got = do_request(tree, kind, cls)
            exp = fresh(lib, kind, cls)
            viol = []
            if got != exp and not confirmed:
                # the first difference seen from this state is re-established with real parses only
                # (history replayed on a parsed tree, reference from another parsed tree)
                real = _parse(lib)
                for ev in hist[1:]:
                    do_request(real, ev[0], ev[1])
                got_real, exp_real = do_request(real, kind, cls), do_request(_parse(lib), kind, cls)
                if (got_real, exp_real) != (got, exp):
                    viol.append(
                        (
                            "harness:snapshot-disagrees-with-parse",
                            "library %s: after %r, %s(%s): snapshots give %s (fresh %s), real parses give %s (fresh %s)"
                            % (lib, [list(e) for e in hist[1:]], kind, cls, _short(got), _short(exp), _short(got_real), _short(exp_real)),
                        )
                    )
                    got, exp = got_real, exp_real
                else:
                    confirmed = True
            if got != exp:
                prev = ">".join(e[0] for e in hist[1:]) or "-"
                viol.append(
                    (
                        "%s>%s:%s" % (prev, kind, _outcome_class(exp, got)),
                        "library %s: after %r, %s(%s) gives %s but a fresh parse gives %s"
                        % (lib, [list(e) for e in hist[1:]], kind, cls, _short(got), _short(exp)),
                    )
                )
            out.append({"ev": [kind, cls], "key": (lib, dump.digest(tree)), "viol": viol, "nontrivial": exp[0] == "ok"})
    return out


def _short(r):
    return "%s:%s" % (r[0], r[1])


# ----------------------------------------------------------------------------
# CLI clause: -m K1 -m K2 reports what K1 alone and K2 alone report


def _cli_libs():
    out = dict(libs.HAND_LIBS)
    out.update(("share_" + k, v) for k, v in libs.SHARE_LIBS.items())
    return out


def _cli_classes(name):
    lib = ("share:" + name[len("share_") :]) if name.startswith("share_") else "hand:" + name
    return classes_of(lib)


def cli_jobs():
    jobs = []
    for name in sorted(_cli_libs()):
        if (("share:" + name[len("share_") :]) if name.startswith("share_") else "hand:" + name) not in _PREP:
            continue
        cl = _cli_classes(name)
        for a in cl:
            jobs.append((name, a, None))
        for a in cl:
            for b in cl:
                jobs.append((name, a, b))
    return jobs


def _cli_run(path, models):
    import tools.compiler as comp

    args = [path]
    for m in models:
        args += ["-m", m]
    try:
        return comp.main(args)
    except SystemExit as e:
        return ("exit", e.code)
    except Exception as e:
        return ("exc", type(e).__name__)


_CLI_PATHS = {}


def _cli_job(job):
    name, a, b = job
    if name not in _CLI_PATHS:
        d = common.new_scratch("cli")
        _CLI_PATHS[name] = os.path.join(d, "lib.mo")
        with open(_CLI_PATHS[name], "w") as f:
            f.write(_cli_libs()[name])
    return _cli_run(_CLI_PATHS[name], [a] if b is None else [a, b])


def _cli_pair(job):
    """Replay helper: one ordered pair and its two singles."""
    name, a, b = job
    ra, rb, rab = _cli_job((name, a, None)), _cli_job((name, b, None)), _cli_job((name, a, b))
    ok = isinstance(ra, int) and isinstance(rb, int) and rab == ra + rb
    return (ok, ra, rb, rab)


def run(ctx):
    _init(ctx.tier)
    _preimport()
    depth = 1 + (3 if ctx.tier == "quick" else 5)
    _CFG["prepdir"] = common.new_scratch("prep")
    with common.Pool(init=_init, initargs=(ctx.tier,)) as pool:
        # phase 1: one real parse per library (in parallel); the workers find the results in the scratch directory
        prepared = pool.map(_prepare, sorted(_TEXTS), chunksize=1)
        _PREP.clear()
        no_snapshot = []
        for lib, p in prepared:
            if p is not None:
                _PREP[lib] = p
                if p["snap"] is None:
                    no_snapshot.append(lib)
        with open(os.path.join(_CFG["prepdir"], "index.pkl.tmp"), "wb") as f:
            pickle.dump(_PREP, f)
        os.rename(os.path.join(_CFG["prepdir"], "index.pkl.tmp"), os.path.join(_CFG["prepdir"], "index.pkl"))
        _CFG["index_loaded"] = True  # in the parent (which does the work itself when there is no pool)
        # phase 2: the search
        st = bfs.search(ctx, pool, expand, init_key=("root",), max_depth=depth)
        jobs = cli_jobs()
        res = dict(zip(jobs, pool.map(_cli_job, jobs)))
    pairs = [j for j in jobs if j[2] is not None]
    for name, a, b in pairs:
        ra, rb, rab = res[(name, a, None)], res[(name, b, None)], res[(name, a, b)]
        if not (isinstance(ra, int) and isinstance(rb, int) and rab == ra + rb):
            ctx.violation(
                "cli:pair-differs-from-singles",
                "tools.compiler -m %s -m %s on library %s exits %r, alone they exit %r and %r" % (a, b, name, rab, ra, rb),
                {"cli": [name, a, b]},
            )
    nlibs = len(_PREP)
    by = {}
    for lib in _PREP:
        by[lib.split(":")[0]] = by.get(lib.split(":")[0], 0) + 1
    requests = sum(len(p["fresh"]) for p in _PREP.values())
    nontrivial_requests = sum(1 for p in _PREP.values() for r in p["fresh"].values() if r[0] == "ok")
    ctx.coverage.update(st)
    ctx.coverage.update(
        {
            "traces_validated_against_impl": st["transitions"],
            "evaluations": st["transitions"] + len(jobs),
            "distinct_nontrivial": st["states"],
            "cli_pairs": len(pairs),
            "cli_runs": len(jobs),
            "libraries": nlibs,
            "libraries_by_kind": by,
            "requests": requests,
            "requests_ok_on_fresh_parse": nontrivial_requests,
            "libraries_without_verified_snapshot": no_snapshot,
            "exhaustive": bool(st["closed"]),
            "rule": "all request sequences (flatten / casadi generate / sympy generate / xml generate of every class) of "
            "length <= %d on one parsed tree for %d libraries (%d hand-written with shared component types, extends, "
            "connectors, nested classes, functions; %d hand-written ones in which one class is shared by users in different "
            "roles -- read through a dotted constant reference, extended with and without modification, component type, "
            "replacement class of a class / component redeclaration, short class definition, import target, pulled function, "
            "connector, enclosing-scope lookup; each of the %d test/models/*.mo (flatten and casadi only in quick); %d merges of test "
            "files with Tree.extend), each step compared with the same request on a fresh parse; state = structural "
            "fingerprint of the whole tree after the step, search stops at closure; a state is non-trivial when it is a "
            "distinct tree fingerprint; plus every ordered pair of -m requests through tools.compiler.main on the "
            "hand-written libraries" % (depth - 1, nlibs, by.get("hand", 0), by.get("share", 0), by.get("file", 0), by.get("multi", 0)),
        }
    )
    ctx.assumptions.append(
        "a tree restored from a pickle snapshot whose structural fingerprint (all attributes, types, dict order, sharing) "
        "equals that of the parsed / replayed tree behaves like that tree; snapshots that do not verify are not used"
    )
    if not st["closed"]:
        ctx.cap("request-sequence length %d reached before closure (some request mutates the tree)" % (depth - 1))


def replay(case):
    _init("thorough")
    if "cli" in case:
        name = case["cli"][0]
        lib = ("share:" + name[len("share_") :]) if name.startswith("share_") else "hand:" + name
        _prepare_light(lib)
        r = _cli_pair(tuple(case["cli"]))
        print(r)
        return r[0]
    hist = case["history"]
    lib = hist[0][1]
    tree = _parse(lib)  # real parses only
    ok = True
    for ev in hist[1:]:
        got = do_request(tree, ev[0], ev[1])
        exp = do_request(_parse(lib), ev[0], ev[1])
        print(ev, "same as fresh parse" if got == exp else "DIFFERS: %s vs fresh %s" % (_short(got), _short(exp)))
        ok = ok and got == exp
    return ok


def _prepare_light(lib):
    t = _parse(lib)
    _CFG["index_loaded"] = True
    _PREP[lib] = {"snap": None, "classes": libs.class_paths(t), "digest": None, "fresh": {}}
