"""C05 -- flattening never changes what later flattening produces.

E1: BFS over request histories on one parsed tree; every step is compared with the same
request on a fresh parse; states are full structural fingerprints of the (possibly mutated)
tree, so the search closes as soon as requests stop changing the tree.
"""
import os

from vf import libs
from vf.core import bfs, common, dump

LEVEL = "model_checking"

_CFG = {}
_TEXTS = {}
_FRESH = {}
_CLASSES = {}


def _load_texts(tier):
    texts = dict(("hand:" + k, v) for k, v in libs.HAND_LIBS.items())
    for f in libs.test_model_files():
        with open(f, encoding="utf-8") as fh:
            texts["file:" + os.path.basename(f)] = fh.read()
    return texts


def _init(tier):
    _CFG["tier"] = tier
    _TEXTS.clear()
    _TEXTS.update(_load_texts(tier))
    import sys

    sys.setrecursionlimit(10000)


def _parse(lib):
    from pymoca import parser

    return parser.parse(_TEXTS[lib], bypass_cache=True)


def classes_of(lib):
    if lib not in _CLASSES:
        t = _parse(lib)
        _CLASSES[lib] = libs.class_paths(t) if t is not None else []
    return _CLASSES[lib]


def kinds_for(lib):
    if lib.startswith("hand:") or _CFG["tier"] == "thorough":
        return ("flatten", "casadi", "sympy", "xml")
    return ("flatten", "casadi")


def do_request(tree, kind, cls):
    """Result of one request in canonical form; exceptions are results."""
    from pymoca import ast as past

    try:
        if kind == "flatten":
            from pymoca import tree as ptree

            flat = ptree.flatten(tree, past.ComponentRef.from_string(cls))
            try:
                import json

                return ("ok", json.dumps(past.Node.to_json(flat), sort_keys=True, default=repr))
            except Exception:
                return ("ok-dump", dump.digest(flat))
        if kind == "casadi":
            from pymoca.backends.casadi.generator import generate

            m = generate(tree, cls, {})
            return ("ok", model_canon(m))
        if kind == "sympy":
            from pymoca.backends.sympy.generator import generate

            return ("ok", generate(tree, cls, {}))
        if kind == "xml":
            from pymoca.backends.xml.generator import generate

            return ("ok", generate(tree, cls))
    except RecursionError:
        return ("exc", "RecursionError")
    except Exception as e:
        return ("exc", type(e).__name__)
    raise ValueError(kind)


def model_canon(m):
    parts = [str(m)]
    for grp in ("states", "der_states", "alg_states", "inputs", "parameters", "constants"):
        for v in getattr(m, grp):
            parts.append(
                "%s %s %s %s"
                % (grp, v.symbol.name(), v.python_type.__name__, [repr(getattr(v, a)) for a in ("value", "start", "min", "max", "nominal", "fixed")])
            )
    for grp in ("string_parameters", "string_constants"):
        for v in getattr(m, grp):
            parts.append("%s %s %r %r" % (grp, v.name, v.value, v.start))
    parts.append(repr(m.outputs))
    parts.append(repr(m.delay_states))
    return "\n".join(parts)


def fresh(lib, kind, cls):
    k = (lib, kind, cls)
    if k not in _FRESH:
        _FRESH[k] = do_request(_parse(lib), kind, cls)
    return _FRESH[k]


def _outcome_class(exp, got):
    if got[0] == "exc":
        return "exception:" + got[1]
    if exp[0] == "exc":
        return "succeeds-where-fresh-raises:" + exp[1]
    return "different-result"


def expand(hist):
    out = []
    if not hist:
        for lib in sorted(_TEXTS):
            t = _parse(lib)
            if t is None or not classes_of(lib):
                continue
            out.append({"ev": ["lib", lib], "key": ("lib", lib, dump.digest(t))})
        return out
    lib = hist[0][1]
    for kind in kinds_for(lib):
        for cls in classes_of(lib):
            tree = _parse(lib)
            for ev in hist[1:]:
                do_request(tree, ev[0], ev[1])
            got = do_request(tree, kind, cls)
            exp = fresh(lib, kind, cls)
            viol = []
            if got != exp:
                prev = ">".join(e[0] for e in hist[1:]) or "-"
                viol.append(
                    (
                        "%s>%s:%s" % (prev, kind, _outcome_class(exp, got)),
                        "library %s: after %r, %s(%s) gives %s but a fresh parse gives %s"
                        % (lib, [list(e) for e in hist[1:]], kind, cls, _short(got), _short(exp)),
                    )
                )
            out.append({"ev": [kind, cls], "key": (lib, dump.digest(tree)), "viol": viol, "nontrivial": exp[0] == "ok"})
    return out


def _short(r):
    s = r[1]
    return "%s:%s" % (r[0], s if len(s) < 80 else "<%d chars, sha %s>" % (len(s), __import__("hashlib").sha1(s.encode()).hexdigest()[:8]))


def cli_pairs(pool):
    """CLI clause: -m K1 -m K2 reports what K1 alone and K2 alone report."""
    jobs = []
    for name in sorted(libs.HAND_LIBS):
        cl = classes_of("hand:" + name)
        for a in cl:
            for b in cl:
                jobs.append((name, a, b))
    return jobs, pool.map(_cli_pair, jobs)


def _cli_run(path, models):
    import tools.compiler as comp

    args = [path]
    for m in models:
        args += ["-m", m]
    try:
        return comp.main(args)
    except SystemExit as e:
        return ("exit", e.code)
    except Exception as e:
        return ("exc", type(e).__name__)


def _cli_pair(job):
    name, a, b = job
    d = common.new_scratch("cli")
    path = os.path.join(d, "lib.mo")
    with open(path, "w") as f:
        f.write(libs.HAND_LIBS[name])
    ra, rb, rab = _cli_run(path, [a]), _cli_run(path, [b]), _cli_run(path, [a, b])
    ok = isinstance(ra, int) and isinstance(rb, int) and rab == ra + rb
    return (ok, ra, rb, rab)


def run(ctx):
    _init(ctx.tier)
    depth = 1 + (3 if ctx.tier == "quick" else 5)
    with common.Pool(init=_init, initargs=(ctx.tier,)) as pool:
        st = bfs.search(ctx, pool, expand, init_key=("root",), max_depth=depth)
        jobs, res = cli_pairs(pool)
    bad = 0
    for job, (ok, ra, rb, rab) in zip(jobs, res):
        if not ok:
            bad += 1
            ctx.violation(
                "cli:pair-differs-from-singles",
                "tools.compiler -m %s -m %s on library %s exits %r, alone they exit %r and %r" % (job[1], job[2], job[0], rab, ra, rb),
                {"cli": list(job)},
            )
    nlibs = len([1 for k in _TEXTS])
    ctx.coverage.update(st)
    ctx.coverage.update(
        {
            "traces_validated_against_impl": st["transitions"],
            "evaluations": st["transitions"] + len(jobs),
            "distinct_nontrivial": st["states"],
            "cli_pairs": len(jobs),
            "libraries": nlibs,
            "exhaustive": bool(st["closed"]),
            "rule": "all request sequences (flatten / casadi generate / sympy generate / xml generate of every class) of "
            "length <= %d on one parsed tree for %d libraries (5 hand-written with shared component types, extends, "
            "connectors, nested classes, functions; every test/models/*.mo), each step compared with the same request "
            "on a fresh parse; state = structural fingerprint of the whole tree after the step, search stops at closure; "
            "plus every ordered pair of -m requests through tools.compiler.main on the hand-written libraries"
            % (depth - 1, nlibs),
        }
    )
    if not st["closed"]:
        ctx.cap("request-sequence length %d reached before closure (some request mutates the tree)" % (depth - 1))


def replay(case):
    _init("thorough")
    if "cli" in case:
        r = _cli_pair(tuple(case["cli"]))
        print(r)
        return r[0]
    hist = case["history"]
    lib = hist[0][1]
    tree = _parse(lib)
    ok = True
    for ev in hist[1:]:
        got = do_request(tree, ev[0], ev[1])
        exp = do_request(_parse(lib), ev[0], ev[1])
        print(ev, "same as fresh parse" if got == exp else "DIFFERS: %s vs fresh %s" % (_short(got), _short(exp)))
        ok = ok and got == exp
    return ok
