"""C02 -- concurrent parses sharing a cache folder all succeed.

E2: real threads calling the real parse(), scheduled at every SQLite / os.remove seam, all
interleavings within a preemption bound.  SQLite's own lock manager arbitrates (connections in
one process lock each other by inode exactly as processes do); the shim only removes the *time*
from the busy timeout: a BUSY answer becomes either an immediate error or a disabled thread
according to SQLite's rule (see DESIGN.md C02), validated against the real library by calibrate().
"""
import os
import shutil
import sqlite3 as real_sqlite3
import time as real_time
from pathlib import Path

from vf.core import common, dump, sched

LEVEL = "model_checking"

TEXTS = {
    "T1": "model A\n  Real x(start = 1);\nequation\n  der(x) = -x;\nend A;\n",
    "T2": "model B\n  parameter Real p = 2;\n  Real y;\nequation\n  y = p;\nend B;\n",
}
DB = "model_txt_cache.db"
VERSION = "9.9.1"
_FRESH = {}
_CFG = {}


# ---- the SQLite / os shims --------------------------------------------------------------------------


class Registry:
    """Open connections per thread (by inode), removals observed, harness notes."""

    def __init__(self):
        self.open = {}  # id(shimconn) -> (thread idx, inode)
        self.events = []

    def inode(self, path):
        try:
            st = os.stat(path)
            return (st.st_dev, st.st_ino)
        except OSError:
            return None


class ShimCursor:
    def __init__(self, conn):
        self.conn = conn
        self.cur = conn.real.cursor()

    def execute(self, sql, params=()):
        c = self.conn
        head = sql.strip().split(None, 1)[0].upper() if sql.strip() else ""
        words = sql.upper().replace(";", " ").split()
        if head == "BEGIN" and not ("IMMEDIATE" in words or "EXCLUSIVE" in words):
            self.cur.execute(sql, params)  # deferred BEGIN takes no lock: glued to the next seam
            c.in_tx, c.tx_locked = True, False
            return self
        if head == "BEGIN":
            c.in_tx, c.tx_locked = True, False  # BEGIN IMMEDIATE: first lock of the transaction, may wait
        label = "exec:" + " ".join(sql.split())[:28]
        sched.point(label)
        while True:
            try:
                self.cur.execute(sql, params)
                break
            except real_sqlite3.OperationalError as e:
                if "locked" not in str(e):
                    raise
                if head == "COMMIT":
                    pass  # COMMIT waits for readers through the busy handler
                elif c.in_tx and c.tx_locked:
                    # lock upgrade inside an open transaction: SQLite never calls the busy handler here
                    c.reg.events.append(("busy-immediate", sched.thread_index(), label))
                    raise
                if not sched.wait(label):
                    c.reg.events.append(("busy-timeout", sched.thread_index(), label))
                    if head == "BEGIN":
                        c.in_tx = False
                    raise
        if head in ("COMMIT", "END", "ROLLBACK"):
            c.in_tx = c.tx_locked = False
        elif c.in_tx:
            c.tx_locked = True
        return self

    def fetchone(self):
        return self.cur.fetchone()

    def fetchall(self):
        return self.cur.fetchall()

    def __getattr__(self, n):
        return getattr(self.cur, n)


class ShimConn:
    def __init__(self, realconn, reg, path):
        self.real = realconn
        self.reg = reg
        self.in_tx = False
        self.tx_locked = False
        self.path = str(path)
        reg.open[id(self)] = (sched.thread_index(), reg.inode(path))

    def cursor(self):
        return ShimCursor(self)

    def commit(self):
        sched.point("commit")
        while True:
            try:
                self.real.commit()
                break
            except real_sqlite3.OperationalError as e:
                if "locked" not in str(e):
                    raise
                if not sched.wait("commit"):
                    self.reg.events.append(("busy-timeout", sched.thread_index(), "commit"))
                    raise
        self.in_tx = self.tx_locked = False

    def close(self):
        sched.point("close")
        self.reg.open.pop(id(self), None)
        self.real.close()

    def __del__(self):
        try:
            self.reg.open.pop(id(self), None)
        except Exception:
            pass


class ShimSqlite:
    def __init__(self, reg):
        self.reg = reg

    def connect(self, path, **kw):
        sched.point("connect")
        kw["timeout"] = 0
        return ShimConn(real_sqlite3.connect(path, **kw), self.reg, path)

    def __getattr__(self, n):
        return getattr(real_sqlite3, n)


class ShimOs:
    def __init__(self, reg):
        self.reg = reg

    def remove(self, path):
        sched.point("os.remove")
        me = sched.thread_index()
        ino = self.reg.inode(path)
        users = sorted({t for (t, i) in self.reg.open.values() if i == ino and t != me and ino is not None})
        if users:
            self.reg.events.append(("remove-in-use", me, users))
        os.remove(path)

    def __getattr__(self, n):
        return getattr(os, n)


# ---- drivers -------------------------------------------------------------------------------------------


def drivers(tier):
    """name -> (texts per caller, initial database, kwargs, pre-initialise?)"""
    d = {
        "D1-absent-same-text": (["T1", "T1"], "absent", {}, False),
        "D2-absent-different-texts": (["T1", "T2"], "absent", {}, False),
        "D3-hit-update": (["T1", "T1"], "holds-T1", {"always_update_last_hit": True}, True),
        "D4-wrong-layout": (["T1", "T2"], "wrong-layout", {}, False),
        "D5-corrupt-file": (["T1", "T2"], "corrupt", {}, False),
        "D7-one-initialised-one-fresh": (["T1", "T2"], "holds-T1", {}, "first"),
    }
    if tier == "thorough":
        d["D6-three-absent"] = (["T1", "T2", "T1"], "absent", {}, False)
    return d


def bounds(tier, name):
    if tier == "quick":
        return 2
    return 2 if name.startswith("D6") else 3


def fresh_dump(t):
    if t not in _FRESH:
        from pymoca import parser

        _FRESH[t] = dump.dump(parser.parse(TEXTS[t], bypass_cache=True))
    return _FRESH[t]


_TEMPLATES = {}


def template(kind):
    """Bytes of the initial database file (built once per worker by the real code / by hand)."""
    if kind not in _TEMPLATES:
        import pymoca
        from pymoca import parser

        if kind == "absent":
            _TEMPLATES[kind] = None
        elif kind == "corrupt":
            _TEMPLATES[kind] = b"This is no SQLite database, just text.\n" * 40
        else:
            d = Path(common.new_scratch("c02t"))
            pymoca.__version__ = VERSION
            parser.parse(TEXTS["T1"], model_cache_folder=d)
            if kind == "wrong-layout":
                c = real_sqlite3.connect(str(d / DB))
                c.execute("DROP TABLE models")
                c.execute("CREATE TABLE models (foo TEXT, bar INTEGER)")
                c.execute("DROP TABLE metadata")
                c.execute("CREATE TABLE metadata (k TEXT)")
                c.commit()
                c.close()
            with open(d / DB, "rb") as f:
                _TEMPLATES[kind] = f.read()
            shutil.rmtree(d, ignore_errors=True)
    return _TEMPLATES[kind]


def run_schedule(name, mode, prefix, labels, tier):
    """Execute one schedule of one driver; returns (Execution, violations)."""
    import pymoca
    from pymoca import parser

    texts, initial, kw, preinit = drivers(tier)[name]
    pymoca.__version__ = VERSION
    reg = Registry()
    parser.sqlite3 = ShimSqlite(reg)
    parser.os = ShimOs(reg)
    root = Path(common.new_scratch("c02"))
    realdir = root / "cache"
    realdir.mkdir()
    b = template(initial)
    if b is not None:
        with open(realdir / DB, "wb") as f:
            f.write(b)
    folders = []
    for i in range(len(texts)):
        if mode == "processes":
            a = root / ("alias%d" % i)
            os.symlink(realdir, a)
            folders.append(a)
        else:
            folders.append(realdir)
    if preinit:
        # the caller(s) have used this database before in their process: sequential, unscheduled warm-up
        warm = folders if preinit is True else folders[:1]
        for f in dict.fromkeys(warm):
            parser.parse(TEXTS["T1"], model_cache_folder=f)
    results = {}

    def mk(i):
        def body():
            tree = parser.parse(TEXTS[texts[i]], model_cache_folder=folders[i], **kw)
            return None if tree is None else dump.dump(tree)

        return body

    exe = sched.Execution([mk(i) for i in range(len(texts))], prefix, labels).run()
    parser.sqlite3 = real_sqlite3
    parser.os = os
    viol = []
    if exe.error:
        raise RuntimeError("harness: " + exe.error)
    for i, r in enumerate(exe.results()):
        if r[0] == "exc":
            viol.append(("%s:call-raises:%s" % (name.split("-")[0], common.exc_sig(r[1])), "caller %d: parse raised %s(%r)" % (i, r[1][0], r[1][1])))
        elif r[1] != fresh_dump(texts[i]):
            viol.append((name.split("-")[0] + ":wrong-tree", "caller %d: returned tree differs from the uncached parse" % i))
    for ev in reg.events:
        if ev[0] == "remove-in-use":
            viol.append((name.split("-")[0] + ":removes-database-in-use", "caller %d removed the database file while caller(s) %r had it open" % (ev[1], ev[2])))
    # final state of the file (every caller has returned and dropped its connection)
    import gc

    gc.collect()
    p = realdir / DB
    if not p.exists():
        viol.append((name.split("-")[0] + ":database-missing-at-end", "database file does not exist after all calls returned"))
    else:
        try:
            c = real_sqlite3.connect("file:%s?mode=ro" % p, uri=True, timeout=0.5)
            ok = c.execute("PRAGMA integrity_check").fetchone()
            cols = [r[1] for r in c.execute("PRAGMA table_info('models')").fetchall()]
            mcols = [r[1] for r in c.execute("PRAGMA table_info('metadata')").fetchall()]
            c.close()
            if ok != ("ok",):
                viol.append((name.split("-")[0] + ":database-corrupt-at-end", "integrity_check says %r" % (ok,)))
            # a caller that failed may legitimately have left initialisation unfinished; only judge the
            # layout when every call succeeded
            if all(r[0] == "ok" for r in exe.results()):
                if cols != ["txt_hash", "pymoca_version", "data", "last_hit"] or mcols != ["key", "value"]:
                    viol.append((name.split("-")[0] + ":layout-wrong-at-end", "tables after the run: models%r metadata%r" % (cols, mcols)))
        except real_sqlite3.Error as e:
            viol.append((name.split("-")[0] + ":database-corrupt-at-end", "cannot read the database after the run: %r" % e))
    shutil.rmtree(root, ignore_errors=True)
    outcome = tuple(sorted(set(s for s, _ in viol))) + tuple(e[0] for e in reg.events if e[0].startswith("busy"))
    return exe, viol, outcome


def _job(args):
    name, mode, prefix, labels, bound, tier, root_only = args
    stats = {"executions": 0, "points": 0, "outcomes": {}, "viol": [], "truncated": False, "alts": [], "sample": None}

    def run_one(pre, lab):
        exe, viol, outcome = run_schedule(name, mode, pre, lab, tier)
        if viol:
            # a failure is only believed if the same schedule fails the same way again
            exe2, viol2, _ = run_schedule(name, mode, exe.choices(), exe.labels(), tier)
            if sorted(s for s, _ in viol2) != sorted(s for s, _ in viol):
                raise RuntimeError("harness: schedule not reproducible: %r vs %r" % (viol, viol2))
        stats["executions"] += 1
        stats["points"] += len(exe.points)
        stats["outcomes"][outcome] = stats["outcomes"].get(outcome, 0) + 1
        if stats["sample"] is None:
            stats["sample"] = {"driver": name, "mode": mode, "schedule": exe.labels()}
        for sig, msg in viol:
            if len(stats["viol"]) < 200:
                stats["viol"].append((sig, "%s/%s: %s" % (name, mode, msg), {"driver": name, "mode": mode, "choices": exe.choices(), "labels": exe.labels()}))
        return exe

    if root_only:
        exe = run_one(list(prefix), labels)
        stats["alts"] = sched.alternatives(exe.points, len(prefix), bound)
    else:
        n, trunc = sched.explore(run_one, bound, prefix, labels, budget=_CFG.get("budget"))
        stats["truncated"] = trunc
    stats["outcomes"] = [[list(k), v] for k, v in stats["outcomes"].items()]
    return stats


def calibrate():
    """Check the blocking rule against the real library with real (short) timeouts."""
    d = Path(common.new_scratch("c02cal"))
    p = str(d / "cal.db")
    c0 = real_sqlite3.connect(p)
    c0.execute("CREATE TABLE t (a)")
    c0.commit()
    c0.close()
    notes = []
    T = 0.25

    def conn():
        return real_sqlite3.connect(p, timeout=T, isolation_level=None)

    # 1. upgrade of a read transaction against a RESERVED lock: immediate error, no waiting
    a, b = conn(), conn()
    a.execute("BEGIN")
    a.execute("SELECT * FROM t").fetchall()
    b.execute("BEGIN")
    b.execute("INSERT INTO t VALUES (1)")
    t0 = real_time.time()
    try:
        a.execute("INSERT INTO t VALUES (2)")
        notes.append("upgrade: no error (unexpected)")
    except real_sqlite3.OperationalError:
        if real_time.time() - t0 > T / 2:
            notes.append("upgrade: waited %.2fs (expected immediate)" % (real_time.time() - t0))
    # 2. COMMIT against a reader: waits for the busy timeout
    t0 = real_time.time()
    try:
        b.execute("COMMIT")
        notes.append("commit-vs-reader: no error (unexpected)")
    except real_sqlite3.OperationalError:
        if real_time.time() - t0 < T * 0.8:
            notes.append("commit-vs-reader: failed after %.2fs (expected to wait)" % (real_time.time() - t0))
    a.execute("ROLLBACK")
    b.execute("COMMIT")
    # 3. first write of a transaction against a RESERVED lock: waits
    b.execute("BEGIN")
    b.execute("INSERT INTO t VALUES (3)")
    a.execute("BEGIN")
    t0 = real_time.time()
    try:
        a.execute("INSERT INTO t VALUES (4)")
        notes.append("first-write: no error (unexpected)")
    except real_sqlite3.OperationalError:
        if real_time.time() - t0 < T * 0.8:
            notes.append("first-write: failed after %.2fs (expected to wait)" % (real_time.time() - t0))
    a.execute("ROLLBACK")
    b.execute("ROLLBACK")
    a.close()
    b.close()
    shutil.rmtree(d, ignore_errors=True)
    return notes


def _init(tier, budget):
    _CFG["tier"] = tier
    _CFG["budget"] = budget


def run(ctx):
    tier = ctx.tier
    budget = 4000 if tier == "quick" else 200000
    _init(tier, budget)
    notes = calibrate()
    total = {"executions": 0, "points": 0}
    outcomes = {}
    per_driver = {}
    with common.Pool(init=_init, initargs=(tier, budget)) as pool:
        roots = []
        for name in drivers(tier):
            for mode in ("threads", "processes"):
                roots.append((name, mode, [], None, bounds(tier, name), tier, True))
        rres = pool.map(_job, roots, chunksize=1)
        jobs = []
        for r, st in zip(roots, rres):
            for pre, lab in st["alts"]:
                jobs.append((r[0], r[1], pre, lab, r[4], tier, False))
        jres = pool.map(_job, jobs, chunksize=1)
    truncated = False
    for args, st in list(zip(roots, rres)) + list(zip(jobs, jres)):
        key = "%s/%s" % (args[0], args[1])
        d = per_driver.setdefault(key, {"executions": 0, "outcomes": {}, "preemption_bound": args[4]})
        d["executions"] += st["executions"]
        total["executions"] += st["executions"]
        total["points"] += st["points"]
        truncated = truncated or st["truncated"]
        for k, v in st["outcomes"]:
            ks = "+".join(k) or "all-succeed"
            d["outcomes"][ks] = d["outcomes"].get(ks, 0) + v
            outcomes[ks] = outcomes.get(ks, 0) + v
        for sig, msg, case in st["viol"]:
            ctx.violation(sig, msg, case)
        if st["sample"] and len(ctx._samples) < 3:
            ctx.sample(st["sample"])
    if truncated:
        ctx.cap("per-subtree execution budget %d reached" % budget)
    ctx.coverage.update(
        {
            "states": total["points"],
            "transitions": total["points"],
            "schedules": total["executions"],
            "traces_validated_against_impl": total["executions"],
            "evaluations": total["executions"],
            "distinct_nontrivial": len(outcomes) + len(per_driver),
            "distinct_outcomes": outcomes,
            "per_driver": per_driver,
            "calibration_notes": notes or ["blocking rule agrees with the real library (3 scenarios, timeout 0.25 s)"],
            "exhaustive": not truncated,
            "rule": "every interleaving with <= bound preemptions of 2-3 real parse() calls at each sqlite connect/execute/"
            "commit/close and os.remove seam, for the drivers listed in per_driver, sharing one database as threads "
            "(one initialized_dbs set) and as processes (path aliases of the folder); 'states'/'transitions' count "
            "scheduling points executed; distinct_nontrivial counts distinct (driver, mode) plus distinct outcome classes",
        }
    )
    ctx.assumptions += [
        "lock hold times are far below the 5 s busy timeout, so a timeout only fires at a true deadlock",
        "between two seams a caller touches shared memory at most once (parse.initialized_dbs), so seam-level interleavings cover the real ones",
        "the free-running 16-process clause of the quantifier is sampling and is not decided here",
    ]
    if notes:
        print("HARNESS-NOTE calibration disagrees: %r" % notes)


def replay(case):
    _init("thorough", None)
    exe, viol, outcome = run_schedule(case["driver"], case["mode"], case["choices"], case["labels"], "thorough")
    for lab in exe.labels():
        print("  ", lab)
    print([m for _, m in viol] or "all calls succeeded")
    return not viol
