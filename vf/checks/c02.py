"""C02 -- concurrent parses sharing a cache folder all succeed.

E2: real threads calling the real parse(), scheduled at every SQLite / os.remove seam, all
interleavings within a preemption bound.  SQLite's own lock manager arbitrates (connections in
one process lock each other by inode exactly as processes do); the shim only removes the *time*
from the busy timeout: a BUSY answer becomes either an immediate error or a disabled thread
according to SQLite's rule (see DESIGN.md C02), validated against the real library by calibrate().

Per-process state.  parse() keeps one piece of state per process, the function attribute
`parse.initialized_dbs`: absent ('A', no cache database has been fully initialised in this process yet),
present without this database ('O', the process has used another cache folder), present with this
database ('T').  It is part of every driver's initial state: each driver is started from each of them.
As threads the callers share one parser module (one attribute, one letter); as processes every caller
gets its own instance of the parser module (own parse function, own attribute -- as separate processes
have) on its own path alias of the folder, and its own letter.
"""
import _thread
import importlib.util
import itertools
import os
import shutil
import sqlite3 as real_sqlite3
import time as real_time
from pathlib import Path

from vf.core import common, dump, sched

LEVEL = "model_checking"

TEXTS = {
    "T1": "model A\n  Real x(start = 1);\nequation\n  der(x) = -x;\nend A;\n",
    "T2": "model B\n  parameter Real p = 2;\n  Real y;\nequation\n  y = p;\nend B;\n",
}
DB = "model_txt_cache.db"
VERSION = "9.9.1"
_FRESH = {}
_CFG = {}


# ---- the SQLite / os shims --------------------------------------------------------------------------


class Registry:
    """Open connections per thread (by inode), removals observed, harness notes."""

    def __init__(self):
        self.open = {}  # id(shimconn) -> (thread idx, inode)
        self.events = []

    def inode(self, path):
        try:
            st = os.stat(path)
            return (st.st_dev, st.st_ino)
        except OSError:
            return None


class ShimCursor:
    def __init__(self, conn):
        self.conn = conn
        self.cur = conn.real.cursor()

    def execute(self, sql, params=()):
        c = self.conn
        head = sql.strip().split(None, 1)[0].upper() if sql.strip() else ""
        words = sql.upper().replace(";", " ").split()
        if head == "BEGIN" and not ("IMMEDIATE" in words or "EXCLUSIVE" in words):
            self.cur.execute(sql, params)  # deferred BEGIN takes no lock: glued to the next seam
            c.in_tx, c.tx_locked = True, False
            return self
        if head == "BEGIN":
            c.in_tx, c.tx_locked = True, False  # BEGIN IMMEDIATE: first lock of the transaction, may wait
        label = "exec:" + " ".join(sql.split())[:28]
        sched.point(label)
        while True:
            try:
                self.cur.execute(sql, params)
                break
            except real_sqlite3.OperationalError as e:
                if "locked" not in str(e):
                    raise
                if head == "COMMIT":
                    pass  # COMMIT waits for readers through the busy handler
                elif c.in_tx and c.tx_locked:
                    # lock upgrade inside an open transaction: SQLite never calls the busy handler here
                    c.reg.events.append(("busy-immediate", sched.thread_index(), label))
                    raise
                if not sched.wait(label):
                    c.reg.events.append(("busy-timeout", sched.thread_index(), label))
                    if head == "BEGIN":
                        c.in_tx = False
                    raise
        if head in ("COMMIT", "END", "ROLLBACK"):
            c.in_tx = c.tx_locked = False
        elif c.in_tx:
            c.tx_locked = True
        return self

    def fetchone(self):
        return self.cur.fetchone()

    def fetchall(self):
        return self.cur.fetchall()

    def __getattr__(self, n):
        return getattr(self.cur, n)


class ShimConn:
    def __init__(self, realconn, reg, path):
        self.real = realconn
        self.reg = reg
        self.in_tx = False
        self.tx_locked = False
        self.path = str(path)
        reg.open[id(self)] = (sched.thread_index(), reg.inode(path))

    def cursor(self):
        return ShimCursor(self)

    def commit(self):
        sched.point("commit")
        while True:
            try:
                self.real.commit()
                break
            except real_sqlite3.OperationalError as e:
                if "locked" not in str(e):
                    raise
                if not sched.wait("commit"):
                    self.reg.events.append(("busy-timeout", sched.thread_index(), "commit"))
                    raise
        self.in_tx = self.tx_locked = False

    def close(self):
        sched.point("close")
        self.reg.open.pop(id(self), None)
        self.real.close()

    def __del__(self):
        try:
            self.reg.open.pop(id(self), None)
        except Exception:
            pass


class ShimSqlite:
    def __init__(self, reg):
        self.reg = reg

    def connect(self, path, **kw):
        sched.point("connect")
        kw["timeout"] = 0
        return ShimConn(real_sqlite3.connect(path, **kw), self.reg, path)

    def __getattr__(self, n):
        return getattr(real_sqlite3, n)


class ShimOs:
    def __init__(self, reg):
        self.reg = reg

    def remove(self, path):
        sched.point("os.remove")
        me = sched.thread_index()
        ino = self.reg.inode(path)
        users = sorted({t for (t, i) in self.reg.open.values() if i == ino and t != me and ino is not None})
        if users:
            self.reg.events.append(("remove-in-use", me, users))
        os.remove(path)

    def __getattr__(self, n):
        return getattr(os, n)


# ---- drivers -------------------------------------------------------------------------------------------


def drivers(tier):
    """name -> (texts per caller, initial database, kwargs)"""
    d = {
        "D1-absent-same-text": (["T1", "T1"], "absent", {}),
        "D2-absent-different-texts": (["T1", "T2"], "absent", {}),
        "D3-hit-update": (["T1", "T1"], "holds-T1", {"always_update_last_hit": True}),
        "D4-wrong-layout": (["T1", "T2"], "wrong-layout", {}),
        "D5-corrupt-file": (["T1", "T2"], "corrupt", {}),
        "D7-hit-and-miss": (["T1", "T2"], "holds-T1", {}),
    }
    if tier == "thorough":
        d["D6-three-absent"] = (["T1", "T2", "T1"], "absent", {})
    return d


def bounds(tier, name):
    if tier == "quick":
        return 2
    return 2 if name.startswith("D6") else 3


# ---- per-process state of parse() ----------------------------------------------------------------------

PSTATES = "AOT"  # parse.initialized_dbs: Absent / present, Other database only / present with This database
_NOATTR = object()
_MODS = {}
_CAL = {}


def parser_instance(i):
    """The parser module of 'process' i: the imported one for i = 0, else a private second execution of
    the same source file (own parse function and attribute; ast / generated parser / pymoca are shared,
    they hold no per-process cache state)."""
    from pymoca import parser

    if i == 0:
        return parser
    if i not in _MODS:
        spec = importlib.util.spec_from_file_location("pymoca._c02_process_%d" % i, parser.__file__)
        m = importlib.util.module_from_spec(spec)
        spec.loader.exec_module(m)
        _MODS[i] = m
    return _MODS[i]


def _get_state(m):
    return getattr(m.parse, "initialized_dbs", _NOATTR)


def _set_state(m, value):
    if value is _NOATTR:
        if hasattr(m.parse, "initialized_dbs"):
            del m.parse.initialized_dbs
    else:
        m.parse.initialized_dbs = value


def other_db(m):
    """The key a real first parse() on another cache folder leaves in parse.initialized_dbs.  Measured on
    the real code once per worker and module instance (and checked to be exactly {folder / DB}); the 'O'
    and 'T' states are then written as that value instead of re-running a warm-up parse per schedule."""
    k = id(m)
    if k not in _CAL:
        import pymoca

        saved = _get_state(m)
        d = Path(common.new_scratch("c02other"))
        pymoca.__version__ = VERSION
        _set_state(m, _NOATTR)
        m.parse(TEXTS["T1"], model_cache_folder=d)
        got = _get_state(m)
        _set_state(m, saved)
        if got is _NOATTR or type(got) is not set or got != {d / DB}:
            raise RuntimeError("harness: a first parse() on %s left parse.initialized_dbs = %r, expected {%r}" % (d, got, d / DB))
        _CAL[k] = d / DB
    return _CAL[k]


def _perm_ok(texts, initial, perm):
    """Is renaming the callers by `perm` an isomorphism of the driver?  Texts the database holds must stay
    with their callers; the others only matter up to which callers ask for the same text."""
    moved = [texts[p] for p in perm]
    if initial.startswith("holds-"):
        return moved == list(texts)

    def pattern(ts):
        return [ts.index(t) for t in ts]

    return pattern(moved) == pattern(list(texts))


def variants(tier, name):
    """[(mode, pstate string)]: threads -- one letter (shared attribute); processes -- one letter per caller,
    one representative per orbit of the driver's caller symmetries (the preemption-bounded schedule space is
    closed under renaming callers: the choice of who runs first or next after a caller ends is free).
    Processes do not share the attribute, so the quick tier lets each caller meet one competitor per class
    instead of all nine pairs: it leaves out the tuples in which two callers new to the database have the
    same letter ('AA', 'OO': 'AO' has an 'A' and an 'O' caller each racing a new competitor; 'AT', 'OT',
    'TT' pair every state with an initialised competitor).  The thorough tier runs every tuple for two callers;
    for three callers (D6) the uniform tuples and the tuples with one caller of each state (every pair of states
    meets, each in every caller role up to symmetry)."""
    texts, initial, _ = drivers(tier)[name]
    n = len(texts)
    out = [("threads", s) for s in PSTATES]
    perms = [p for p in itertools.permutations(range(n)) if _perm_ok(texts, initial, p)]
    for tup in itertools.product(PSTATES, repeat=n):
        if min(tuple(tup[p[i]] for i in range(n)) for p in perms) != tup:
            continue
        if tier == "quick" and (tup.count("A") > 1 or tup.count("O") > 1):
            continue
        if n > 2 and 1 < len(set(tup)) < n:
            continue  # three callers: every state among its like, and one caller of each state in every role
        out.append(("processes", "".join(tup)))
    return out


def legacy_pstate(name, mode, n):
    """Replay files written before the process state was part of the case."""
    if name.startswith("D3"):
        return "T" * (1 if mode == "threads" else n)
    if name.startswith("D7"):
        return "T" if mode == "threads" else "T" + "O" * (n - 1)
    return "O" * (1 if mode == "threads" else n)


class _Baton:
    """A raw lock used as the binary semaphore sched.Execution needs (strict hand-over: every release is
    matched by exactly one acquire); same protocol as threading.Semaphore(0), a fraction of its cost."""

    def __init__(self):
        lk = _thread.allocate_lock()
        lk.acquire()
        self.acquire = lk.acquire
        self.release = lk.release


class Execution(sched.Execution):
    def __init__(self, *a, **k):
        super().__init__(*a, **k)
        self.back = _Baton()
        for t in self.ts:
            t.go = _Baton()


def fresh_dump(t):
    if t not in _FRESH:
        from pymoca import parser

        _FRESH[t] = dump.dump(parser.parse(TEXTS[t], bypass_cache=True))
    return _FRESH[t]


_TEMPLATES = {}


def template(kind):
    """Bytes of the initial database file (built once per worker by the real code / by hand)."""
    if kind not in _TEMPLATES:
        import pymoca
        from pymoca import parser

        if kind == "absent":
            _TEMPLATES[kind] = None
        elif kind == "corrupt":
            _TEMPLATES[kind] = b"This is no SQLite database, just text.\n" * 40
        else:
            d = Path(common.new_scratch("c02t"))
            pymoca.__version__ = VERSION
            parser.parse(TEXTS["T1"], model_cache_folder=d)
            if kind == "wrong-layout":
                c = real_sqlite3.connect(str(d / DB))
                c.execute("DROP TABLE models")
                c.execute("CREATE TABLE models (foo TEXT, bar INTEGER)")
                c.execute("DROP TABLE metadata")
                c.execute("CREATE TABLE metadata (k TEXT)")
                c.commit()
                c.close()
            with open(d / DB, "rb") as f:
                _TEMPLATES[kind] = f.read()
            shutil.rmtree(d, ignore_errors=True)
    return _TEMPLATES[kind]


def run_schedule(name, mode, pst, prefix, labels, tier):
    """Execute one schedule of one driver from one per-process state; returns (Execution, violations, outcome)."""
    import pymoca

    texts, initial, kw = drivers(tier)[name]
    n = len(texts)
    pst = pst or legacy_pstate(name, mode, n)
    if len(pst) != (1 if mode == "threads" else n) or set(pst) - set(PSTATES):
        raise RuntimeError("harness: process state %r does not fit %s/%s" % (pst, name, mode))
    pymoca.__version__ = VERSION
    b = template(initial)  # (built by the real code: before the per-process state is set up)
    mods = [parser_instance(i if mode == "processes" else 0) for i in range(n)]
    umods = list({id(m): m for m in mods}.values())
    others = {id(m): other_db(m) for m in umods}
    saved = [(m, _get_state(m)) for m in umods]
    fresh_dump(texts[0])
    if not _CFG.get("frozen"):
        # everything alive now (the ANTLR tables, the modules) lives as long as the worker: keep it out of
        # the collections the scheduler runs after every caller, which otherwise cost more than the calls
        import gc

        gc.collect()
        gc.freeze()
        _CFG["frozen"] = True
    reg = Registry()
    shim_sql, shim_os = ShimSqlite(reg), ShimOs(reg)
    root = Path(common.new_scratch("c02"))
    try:
        return _run_schedule(name, mode, pst, prefix, labels, texts, initial, kw, b, mods, others, reg, shim_sql, shim_os, root)
    finally:
        for m, st in saved:
            m.sqlite3 = real_sqlite3
            m.os = os
            _set_state(m, st)
        shutil.rmtree(root, ignore_errors=True)


def _run_schedule(name, mode, pst, prefix, labels, texts, initial, kw, b, mods, others, reg, shim_sql, shim_os, root):
    realdir = root / "cache"
    realdir.mkdir()
    if b is not None:
        with open(realdir / DB, "wb") as f:
            f.write(b)
    n = len(texts)
    folders = []
    for i in range(n):
        if mode == "processes":
            a = root / ("alias%d" % i)
            os.symlink(realdir, a)
            folders.append(a)
        else:
            folders.append(realdir)
    # the per-process state each caller starts from (threads: one module, one letter)
    for i in range(n):
        m, s = mods[i], pst[i if mode == "processes" else 0]
        m.sqlite3, m.os = shim_sql, shim_os
        _set_state(m, _NOATTR if s == "A" else {others[id(m)]} if s == "O" else {folders[i] / DB})

    def mk(i):
        def body():
            tree = mods[i].parse(TEXTS[texts[i]], model_cache_folder=folders[i], **kw)
            return None if tree is None else dump.dump(tree)

        return body

    exe = Execution([mk(i) for i in range(n)], prefix, labels).run()
    for m in mods:
        m.sqlite3, m.os = real_sqlite3, os
    viol = []
    if exe.error:
        raise RuntimeError("harness: " + exe.error)
    for i, r in enumerate(exe.results()):
        if r[0] == "exc":
            viol.append(("%s:call-raises:%s" % (name.split("-")[0], common.exc_sig(r[1])), "caller %d: parse raised %s(%r)" % (i, r[1][0], r[1][1])))
        elif r[1] != fresh_dump(texts[i]):
            viol.append((name.split("-")[0] + ":wrong-tree", "caller %d: returned tree differs from the uncached parse" % i))
    for ev in reg.events:
        if ev[0] == "remove-in-use":
            viol.append((name.split("-")[0] + ":removes-database-in-use", "caller %d removed the database file while caller(s) %r had it open" % (ev[1], ev[2])))
    # final state of the file (every caller has returned and dropped its connection)
    import gc

    gc.collect()
    p = realdir / DB
    # A caller that is new to the database ('A'/'O') runs the one-time check, which replaces a missing or
    # corrupt file.  When every caller had checked the database before it was damaged (all 'T' on an absent /
    # corrupt file) each call only has to get by without it (C01: the next call re-checks), so a defect the
    # file had from the start is not held against these calls.
    repair_due = initial.startswith("holds-") or any(s != "T" for s in pst)
    if not p.exists():
        if repair_due or initial != "absent":
            viol.append((name.split("-")[0] + ":database-missing-at-end", "database file does not exist after all calls returned"))
    else:
        try:
            c = real_sqlite3.connect("file:%s?mode=ro" % p, uri=True, timeout=0.5)
            ok = c.execute("PRAGMA integrity_check").fetchone()
            cols = [r[1] for r in c.execute("PRAGMA table_info('models')").fetchall()]
            mcols = [r[1] for r in c.execute("PRAGMA table_info('metadata')").fetchall()]
            c.close()
            if ok != ("ok",) and (repair_due or initial != "corrupt"):
                viol.append((name.split("-")[0] + ":database-corrupt-at-end", "integrity_check says %r" % (ok,)))
            # a caller that failed, or that lost a lock clash and went on without the cache, may legitimately
            # have left initialisation unfinished (the next call re-checks): the layout is judged when every
            # call succeeded and either the database was sound from the start (nobody may break it) or some
            # caller that is new to it got through without a BUSY answer (it ran the whole initialisation)
            # Not judged either when a file was removed under a caller: that is reported above on its own, and
            # what follows (the victim initialises an unlinked file whose journal has the same name as the new
            # file's; either caller may go on without the cache for that) is the same defect seen again.
            backed_off = {e[1] for e in reg.events if e[0].startswith("busy")}
            removed_in_use = any(e[0] == "remove-in-use" for e in reg.events)
            new_done = any(pst[i if mode == "processes" else 0] != "T" and i not in backed_off for i in range(n))
            if (initial.startswith("holds-") or new_done) and not removed_in_use and all(r[0] == "ok" for r in exe.results()):
                if cols != ["txt_hash", "pymoca_version", "data", "last_hit"] or mcols != ["key", "value"]:
                    viol.append((name.split("-")[0] + ":layout-wrong-at-end", "tables after the run: models%r metadata%r" % (cols, mcols)))
        except real_sqlite3.Error as e:
            if repair_due or initial != "corrupt":
                viol.append((name.split("-")[0] + ":database-corrupt-at-end", "cannot read the database after the run: %r" % e))
    outcome = tuple(sorted(set(s for s, _ in viol))) + tuple(e[0] for e in reg.events if e[0].startswith("busy"))
    return exe, viol, outcome


def _job(args):
    name, mode, pst, prefix, labels, bound, tier, root_only = args
    stats = {"executions": 0, "points": 0, "outcomes": {}, "viol": [], "truncated": False, "alts": [], "sample": None}

    def run_one(pre, lab):
        exe, viol, outcome = run_schedule(name, mode, pst, pre, lab, tier)
        if viol:
            # a failure is only believed if the same schedule fails the same way again
            exe2, viol2, _ = run_schedule(name, mode, pst, exe.choices(), exe.labels(), tier)
            if sorted(s for s, _ in viol2) != sorted(s for s, _ in viol):
                raise RuntimeError("harness: schedule not reproducible: %r vs %r" % (viol, viol2))
        stats["executions"] += 1
        stats["points"] += len(exe.points)
        stats["outcomes"][outcome] = stats["outcomes"].get(outcome, 0) + 1
        if stats["sample"] is None:
            stats["sample"] = {"driver": name, "mode": mode, "pstate": pst, "schedule": exe.labels()}
        for sig, msg in viol:
            if len(stats["viol"]) < 200:
                case = {"driver": name, "mode": mode, "pstate": pst, "choices": exe.choices(), "labels": exe.labels()}
                stats["viol"].append((sig, "%s/%s[%s]: %s" % (name, mode, pst, msg), case))
        return exe

    if root_only:
        exe = run_one(list(prefix), labels)
        stats["alts"] = sched.alternatives(exe.points, len(prefix), bound)
    else:
        n, trunc = sched.explore(run_one, bound, prefix, labels, budget=_CFG.get("budget"))
        stats["truncated"] = trunc
    stats["outcomes"] = [[list(k), v] for k, v in stats["outcomes"].items()]
    return stats


def calibrate():
    """Check the blocking rule against the real library with real (short) timeouts."""
    d = Path(common.new_scratch("c02cal"))
    p = str(d / "cal.db")
    c0 = real_sqlite3.connect(p)
    c0.execute("CREATE TABLE t (a)")
    c0.commit()
    c0.close()
    notes = []
    T = 0.25

    def conn():
        return real_sqlite3.connect(p, timeout=T, isolation_level=None)

    # 1. upgrade of a read transaction against a RESERVED lock: immediate error, no waiting
    a, b = conn(), conn()
    a.execute("BEGIN")
    a.execute("SELECT * FROM t").fetchall()
    b.execute("BEGIN")
    b.execute("INSERT INTO t VALUES (1)")
    t0 = real_time.time()
    try:
        a.execute("INSERT INTO t VALUES (2)")
        notes.append("upgrade: no error (unexpected)")
    except real_sqlite3.OperationalError:
        if real_time.time() - t0 > T / 2:
            notes.append("upgrade: waited %.2fs (expected immediate)" % (real_time.time() - t0))
    # 2. COMMIT against a reader: waits for the busy timeout
    t0 = real_time.time()
    try:
        b.execute("COMMIT")
        notes.append("commit-vs-reader: no error (unexpected)")
    except real_sqlite3.OperationalError:
        if real_time.time() - t0 < T * 0.8:
            notes.append("commit-vs-reader: failed after %.2fs (expected to wait)" % (real_time.time() - t0))
    a.execute("ROLLBACK")
    b.execute("COMMIT")
    # 3. first write of a transaction against a RESERVED lock: waits
    b.execute("BEGIN")
    b.execute("INSERT INTO t VALUES (3)")
    a.execute("BEGIN")
    t0 = real_time.time()
    try:
        a.execute("INSERT INTO t VALUES (4)")
        notes.append("first-write: no error (unexpected)")
    except real_sqlite3.OperationalError:
        if real_time.time() - t0 < T * 0.8:
            notes.append("first-write: failed after %.2fs (expected to wait)" % (real_time.time() - t0))
    a.execute("ROLLBACK")
    b.execute("ROLLBACK")
    a.close()
    b.close()
    shutil.rmtree(d, ignore_errors=True)
    return notes


def _init(tier, budget):
    _CFG["tier"] = tier
    _CFG["budget"] = budget


def run(ctx):
    tier = ctx.tier
    budget = 4000 if tier == "quick" else 200000
    _init(tier, budget)
    notes = calibrate()
    total = {"executions": 0, "points": 0}
    outcomes = {}
    per_driver = {}
    with common.Pool(init=_init, initargs=(tier, budget)) as pool:
        roots = []
        for name in drivers(tier):
            for mode, pst in variants(tier, name):
                roots.append((name, mode, pst, [], None, bounds(tier, name), tier, True))
        rres = pool.map(_job, roots, chunksize=1)
        jobs = []
        for r, st in zip(roots, rres):
            for pre, lab in st["alts"]:
                jobs.append((r[0], r[1], r[2], pre, lab, r[5], tier, False))
        jres = pool.map(_job, jobs, chunksize=1)
    truncated = False
    for args, st in list(zip(roots, rres)) + list(zip(jobs, jres)):
        key = "%s/%s[%s]" % (args[0], args[1], args[2])
        d = per_driver.setdefault(key, {"executions": 0, "outcomes": {}, "preemption_bound": args[5]})
        d["executions"] += st["executions"]
        total["executions"] += st["executions"]
        total["points"] += st["points"]
        truncated = truncated or st["truncated"]
        for k, v in st["outcomes"]:
            ks = "+".join(k) or "all-succeed"
            d["outcomes"][ks] = d["outcomes"].get(ks, 0) + v
            outcomes[ks] = outcomes.get(ks, 0) + v
        for sig, msg, case in st["viol"]:
            ctx.violation(sig, msg, case)
        if st["sample"] and len(ctx._samples) < 3:
            ctx.sample(st["sample"])
    if truncated:
        ctx.cap("per-subtree execution budget %d reached" % budget)
    ctx.coverage.update(
        {
            "states": total["points"],
            "transitions": total["points"],
            "schedules": total["executions"],
            "traces_validated_against_impl": total["executions"],
            "evaluations": total["executions"],
            "distinct_nontrivial": len(outcomes) + len(per_driver),
            "distinct_outcomes": outcomes,
            "per_driver": per_driver,
            "calibration_notes": notes or ["blocking rule agrees with the real library (3 scenarios, timeout 0.25 s)"],
            "exhaustive": not truncated,
            "rule": "every interleaving with <= bound preemptions of 2-3 real parse() calls at each sqlite connect/execute/"
            "commit/close and os.remove seam, for the drivers listed in per_driver (driver/mode[per-process state]), "
            "sharing one database as threads (one parser module, one initialized_dbs attribute) and as processes (one "
            "parser module instance and one path alias of the folder per caller); the state letters say where "
            "parse.initialized_dbs starts: A absent, O present without this database, T present with it (threads: one "
            "letter; processes: one per caller, one tuple per orbit of the driver's caller symmetries; quick leaves out "
            "the tuples with two A or two O callers); 'states'/'transitions' count scheduling points executed; "
            "distinct_nontrivial counts distinct (driver, mode, state) plus distinct outcome classes",
        }
    )
    ctx.assumptions += [
        "lock hold times are far below the 5 s busy timeout, so a timeout only fires at a true deadlock",
        "between two seams a caller touches shared memory at most once (parse.initialized_dbs), so seam-level interleavings cover the real ones",
        "the per-process state of parse() is the function attribute initialized_dbs only (module instances share ast, the generated parser and pymoca.__version__); the O/T values are written as the set a real first parse() leaves, which is measured once per worker and module instance",
        "texts the initial database does not hold are interchangeable (callers are renamed together with their texts when reducing the per-caller states by symmetry)",
        "the free-running 16-process clause of the quantifier is sampling and is not decided here",
    ]
    if notes:
        print("HARNESS-NOTE calibration disagrees: %r" % notes)


def replay(case):
    _init("thorough", None)
    names = {k.split("-")[0]: k for k in drivers("thorough")}
    case = dict(case, driver=names.get(case["driver"].split("-")[0], case["driver"]))
    exe, viol, outcome = run_schedule(case["driver"], case["mode"], case.get("pstate"), case["choices"], case["labels"], "thorough")
    for lab in exe.labels():
        print("  ", lab)
    print([m for _, m in viol] or "all calls succeeded")
    return not viol
