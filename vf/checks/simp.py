"""Shared engine of C14 / C15: triangular-bijective models x option sets through the real Model.simplify.

Models.  One state s (der(s) = F0), one input u, parameters p = 2, p2 = 3 * p (an expression), constants
k = 1.5 and k2 = 2 * k (an expression), and n algebraic unknowns a1..an; unknown a_i is defined from one earlier quantity w (s, u or an
earlier a_j) by one *form*:

    base   v = 2 * w + 1                        nothing to eliminate
    alias  v = w | v = -w | v + w = 0 | w - v = 0 | -v = w | 0 = v - w
    const  v = 3 | 0 = v - 3 | v = p | v = k | v = 2 * p2 + k | v + 3 = 0 | v = 0
    affine 2 * v = 4 * w | v = k * w | v = k2 * w + k | v - 2 * w = p | v = (w + 1) / 2
    ifelse v = if u > 0 then w else -w | v = if u > 0 then 2 * w else 3

so for any (s, u) the equations determine der(s) and every a_i uniquely; the system is square and
regular by construction.  The reference knows the explicit solution (forward substitution) and, for the
affine forms, the exact rational rows of the system.

Observation.  The simplified model is read through its public face only: variable lists, alias_relation,
constants' values and the residual functions (probed at 0 and at unit vectors -> A', b'; affinity is
verified at an extra point).  Parameter and constant values fed to the functions come from the reference.
"""
import itertools
import logging
from fractions import Fraction

import numpy as np

from vf.core import cas, common
from vf.ref import linalg as L
from vf.ref import mast as M
from vf.ref.mast import B, N, V, Decl, Model

PVAL = {"p": Fraction(2), "p2": Fraction(6), "k": Fraction(3, 2), "k2": Fraction(3)}

SWITCHES = [
    "expand_mx", "expand_vectors", "resolve_parameter_values", "replace_parameter_expressions",
    "replace_constant_expressions", "eliminate_constant_assignments", "replace_parameter_values",
    "replace_constant_values", "factor_and_simplify_equations", "detect_aliases", "allow_derivative_aliases",
    "reduce_affine_expression", "iterative_simplification",
]  # fmt: skip
DEFAULT_ON = {"allow_derivative_aliases"}
EVE = [None, "a[12]", "a.*", "a1"]  # eliminable_variable_expression: none / some / all / one algebraic unknown(s)


def neg(x):
    return ("un", "-", x)


# form name -> (equation builder (v, w) -> mast equation, solver (w value, env) -> v value, class)
FORMS = {
    "base": (lambda v, w: ("eq", v, B("+", B("*", N(2), w), N(1))), lambda w: 2 * w + 1, "base"),
    "alias": (lambda v, w: ("eq", v, w), lambda w: w, "alias"),
    "alias-neg": (lambda v, w: ("eq", v, neg(w)), lambda w: -w, "alias"),
    "alias-sum0": (lambda v, w: ("eq", B("+", v, w), N(0)), lambda w: -w, "alias"),
    "alias-diff0": (lambda v, w: ("eq", B("-", w, v), N(0)), lambda w: w, "alias"),
    "alias-negv": (lambda v, w: ("eq", neg(v), w), lambda w: -w, "alias"),
    "alias-0eq": (lambda v, w: ("eq", N(0), B("-", v, w)), lambda w: w, "alias"),
    "const": (lambda v, w: ("eq", v, N(3)), lambda w: Fraction(3), "const"),
    "const-0eq": (lambda v, w: ("eq", N(0), B("-", v, N(3))), lambda w: Fraction(3), "const"),
    "const-plus": (lambda v, w: ("eq", B("+", v, N(3)), N(0)), lambda w: Fraction(-3), "const"),
    "const-zero": (lambda v, w: ("eq", v, N(0)), lambda w: Fraction(0), "const"),
    "const-p": (lambda v, w: ("eq", v, V("p")), lambda w: PVAL["p"], "const"),
    "const-k": (lambda v, w: ("eq", v, V("k")), lambda w: PVAL["k"], "const"),
    "const-pexpr": (lambda v, w: ("eq", v, B("+", B("*", N(2), V("p2")), V("k"))), lambda w: 2 * PVAL["p2"] + PVAL["k"], "const"),
    "factor": (lambda v, w: ("eq", B("*", N(2), v), B("*", N(4), w)), lambda w: 2 * w, "affine"),
    "scaled-k": (lambda v, w: ("eq", v, B("*", V("k"), w)), lambda w: PVAL["k"] * w, "affine"),
    "scaled-k2": (lambda v, w: ("eq", v, B("+", B("*", V("k2"), w), V("k"))), lambda w: PVAL["k2"] * w + PVAL["k"], "affine"),
    "affine-p": (lambda v, w: ("eq", B("-", v, B("*", N(2), w)), V("p")), lambda w: 2 * w + PVAL["p"], "affine"),
    "half": (lambda v, w: ("eq", v, B("/", B("+", w, N(1)), N(2))), lambda w: (w + 1) / 2, "affine"),
    "ifelse": (lambda v, w: ("eq", v, ("if", B(">", V("u"), N(0)), w, neg(w))), None, "ifelse"),
    "ifelse-const": (lambda v, w: ("eq", v, ("if", B(">", V("u"), N(0)), B("*", N(2), w), N(3))), None, "ifelse"),
}
SPECIAL = [f for f in FORMS if f != "base"]
F0S = {
    "a-last": lambda n: V("a%d" % n),
    "mixed": lambda n: B("+", neg(V("a1")), V("u")),
    "scaled": lambda n: B("*", N(2), V("a%d" % n)),
}


def solve_form(form, w, u):
    if form == "ifelse":
        return w if u > 0 else -w
    if form == "ifelse-const":
        return 2 * w if u > 0 else Fraction(3)
    return FORMS[form][1](w)


class Spec:
    """forms: tuple of form names for a1..an; deps: tuple of names each a_i is defined from; f0: key of F0S;
    perm: permutation of the n+1 equations (index 0 = the der(s) equation)."""

    def __init__(self, forms, deps, f0, perm, ieq=None):
        self.forms, self.deps, self.f0, self.perm = tuple(forms), tuple(deps), f0, tuple(perm)
        self.n = len(forms)
        self.ieq = ieq  # None | "state" (s = 2 * p) | "alg" (a_n = 7 * s + u)

    def key(self):
        return [list(self.forms), list(self.deps), self.f0, list(self.perm), self.ieq]

    def unknowns(self):
        return ["a%d" % (i + 1) for i in range(self.n)]

    def init_eqs(self):
        if self.ieq == "state":
            return [("eq", V("s"), B("*", N(2), V("p")))]
        if self.ieq == "alg":
            return [("eq", V("a%d" % self.n), B("+", B("*", N(7), V("s")), V("u")))]
        return []

    def init_rows(self):
        return [_lin_eq(e) for e in self.init_eqs()]

    def affine(self):
        return all(FORMS[f][2] != "ifelse" for f in self.forms)

    def regular(self):
        return True

    def model(self):
        decls = [
            Decl("s", mods={"start": N(1)}), Decl("u", prefix="input"),
            Decl("p", prefix="parameter", value=N(2)), Decl("p2", prefix="parameter", value=B("*", N(3), V("p"))),
            Decl("k", prefix="constant", value=N("1.5")),
        ]  # fmt: skip
        if "scaled-k2" in self.forms:  # a constant defined by another constant, only where it is used
            decls.append(Decl("k2", prefix="constant", value=B("*", N(2), V("k"))))
        eqs = [("eq", ("der", V("s")), F0S[self.f0](self.n))]
        for i, (f, d) in enumerate(zip(self.forms, self.deps)):
            decls.append(Decl("a%d" % (i + 1)))
            eqs.append(FORMS[f][0](V("a%d" % (i + 1)), V(d)))
        return Model("M", decls, [eqs[i] for i in self.perm], init_eqs=self.init_eqs())

    def solution(self, s, u):
        """Unique solution for given state and input: dict name -> Fraction."""
        env = {"s": Fraction(s), "u": Fraction(u)}
        env.update(PVAL)
        for i, (f, d) in enumerate(zip(self.forms, self.deps)):
            env["a%d" % (i + 1)] = solve_form(f, env[d], env["u"])
        n = self.n
        env["der(s)"] = {"a-last": env["a%d" % n], "mixed": -env["a1"] + env["u"], "scaled": 2 * env["a%d" % n]}[self.f0]
        return env

    def rows(self):
        """Exact rows {name: coeff, 1: const} (= 0) of the affine system (parameters at their values)."""
        assert self.affine()
        out = []
        m = self.model()
        for e in m.eqs:
            out.append(_lin_eq(e))
        return out


POOL = {
    "alias": lambda v, w: ("eq", v, w),
    "alias-neg": lambda v, w: ("eq", v, neg(w)),
    "alias-sum0": lambda v, w: ("eq", B("+", v, w), N(0)),
    "alias-diff0": lambda v, w: ("eq", B("-", w, v), N(0)),
    "base": lambda v, w: ("eq", v, B("+", B("*", N(2), w), N(1))),
    "shift": lambda v, w: ("eq", v, B("-", w, N(3))),
    "const": lambda v, w: ("eq", v, N(3)),
}


class FreeSpec:
    """A square affine model that need not be triangular: der(s) = 2 * a1 + u plus k equations, each one POOL form
    applied to an ordered pair of the unknowns a1..ak (or, for "const", to one unknown).  Only non-singular
    systems are enumerated (see free_specs), so for any (s, u) the solution is unique."""

    ieq = None

    def __init__(self, k, items, perm):
        self.k, self.items, self.perm = k, tuple(tuple(x) for x in items), tuple(perm)
        self.n = k

    def key(self):
        return ["free", self.k, [list(x) for x in self.items], list(self.perm)]

    def affine(self):
        return True

    def unknowns(self):
        return ["a%d" % (i + 1) for i in range(self.k)]

    def name(self, i):
        return "a%d" % i if i > 0 else ("s" if i == 0 else "u")

    def regular(self):
        """Do the equations determine der(s) and the a_i uniquely for given (s, u)?"""
        unk = ["der(s)"] + self.unknowns()
        rows = self.rows()
        sub = [{c: v for c, v in r.items() if c in unk} for r in rows]
        return len(rows) == len(unk) and L.rank(sub) == len(unk)

    def equations(self):
        # not an alias form, so that the unknowns are not anchored at the derivative by an alias of their own
        eqs = [("eq", ("der", V("s")), B("+", B("*", N(2), V("a1")), V("u")))]
        for form, i, j in self.items:
            eqs.append(POOL[form](V(self.name(i)), V(self.name(j))))
        return eqs

    def model(self):
        decls = [
            Decl("s", mods={"start": N(1)}), Decl("u", prefix="input"),
            Decl("p", prefix="parameter", value=N(2)), Decl("p2", prefix="parameter", value=B("*", N(3), V("p"))),
            Decl("k", prefix="constant", value=N("1.5")),
        ]  # fmt: skip
        decls += [Decl(n) for n in self.unknowns()]
        eqs = self.equations()
        return Model("M", decls, [eqs[i] for i in self.perm])

    def rows(self):
        return [_lin_eq(e) for e in self.equations()]

    def init_rows(self):
        return []

    def solution(self, s, u):
        rows = self.rows() + [{"s": Fraction(1), 1: -Fraction(s)}, {"u": Fraction(1), 1: -Fraction(u)}]
        cols = ["s", "u", "der(s)"] + self.unknowns() + [1]
        rr, _ = L.rref(rows, cols)
        env = dict(PVAL)
        for r in rr:
            piv = next(c for c in cols if c in r)
            if piv == 1:
                raise ValueError("inconsistent system")
            env[piv] = -r.get(1, Fraction(0))
        return env


def anchored_specs(tier):
    """(F) affine systems that need not be square or regular: der(s) = 2 * a1 + u plus every set of 2..3 plain alias
    equations a_i = +-w with w in {s, u, the other unknown} over two unknowns -- two unknowns tied to the same state
    or input with consistent or contradictory signs, redundant and over-determining equations.  Only the exact
    solution-set comparison of C14 applies to them."""
    pool = []
    for f in ("alias", "alias-neg"):
        for i in (1, 2):
            for j in (0, -1, 1, 2):
                if j != i:
                    pool.append((f, i, j))
    out = []
    for n in (2, 3):
        for items in itertools.combinations(pool, n):
            used = {i for _, i, _ in items} | {j for _, _, j in items if j > 0}
            if used != {1, 2}:
                continue
            sp = FreeSpec(2, items, tuple(range(n + 1)))
            if sp.regular():
                continue  # family (D) has the regular ones
            out.append(sp)
            if tier == "thorough":
                out.append(FreeSpec(2, items, tuple(reversed(range(n + 1)))))
    return out


class PureSpec(FreeSpec):
    """(G) purely algebraic models: no state, unknowns a1..ak tied to the input u by alias equations only (a1 = +-u,
    a_i = +-a_{i-1}), plus an initial equation over the last unknown -- alias detection can empty the equation list."""

    def __init__(self, signs, perm, ieq=True):
        self.signs = tuple(signs)
        self.k = self.n = len(signs)
        self.perm = tuple(perm)
        self.ieq = "pure" if ieq else None
        self.items = ()

    def key(self):
        return ["pure", list(self.signs), list(self.perm), bool(self.ieq)]

    def regular(self):
        return True

    def equations(self):
        eqs = []
        for i, sg in enumerate(self.signs):
            w = V("u") if i == 0 else V("a%d" % i)
            eqs.append(("eq", V("a%d" % (i + 1)), w if sg > 0 else neg(w)))
        return eqs

    def model(self):
        decls = [Decl("u", prefix="input"), Decl("p", prefix="parameter", value=N(2))] + [Decl(n) for n in self.unknowns()]
        eqs = self.equations()
        init = [("eq", V("a%d" % self.k), B("*", N(3), V("p")))] if self.ieq else []
        return Model("M", decls, [eqs[i] for i in self.perm], init_eqs=init)

    def init_rows(self):
        return [_lin_eq(e) for e in self.model().init_eqs]

    def solution(self, s, u):
        env = dict(PVAL)
        env["u"] = Fraction(u)
        prev = env["u"]
        for i, sg in enumerate(self.signs):
            prev = prev if sg > 0 else -prev
            env["a%d" % (i + 1)] = prev
        return env


class DStateSpec(FreeSpec):
    """(H, C15 only) a differentiated variable that is defined algebraically: der(s) = a2 + u; d = f(a1); der(d) = 1 - a2
    [+ u]; a1 = g(a2).  Eliminating d (eliminable_variable_expression) replaces der(d) by the derivative of f(a1), which
    turns a1 into a state in the middle of the pass; the later equations may then eliminate a1 as well."""

    VARIANTS = {
        # name: (d = ..., der(d) = ..., a1 = ...)
        "scaled": (B("*", N(3), V("a1")), B("-", N(1), V("a2")), B("*", N(2), V("a2"))),
        "shifted": (B("+", B("*", N(3), V("a1")), V("p")), B("-", V("u"), V("a2")), V("a2")),
        "alias": (V("a1"), B("-", N(1), V("a2")), B("*", N(2), V("a2"))),
        "neg-alias": (neg(V("a1")), B("-", N(1), V("a2")), B("+", B("*", N(2), V("a2")), V("u"))),
    }
    PATTERNS = ["d", "d|a1", "[da].*", "a1", "d|a2", "a.*"]

    def __init__(self, variant, perm):
        self.variant, self.perm = variant, tuple(perm)
        self.k = self.n = 2
        self.items = ()

    def key(self):
        return ["dstate", self.variant, list(self.perm)]

    def affine(self):
        return True

    def regular(self):
        return True

    def equations(self):
        d, dd, a1 = self.VARIANTS[self.variant]
        return [
            ("eq", ("der", V("s")), B("+", V("a2"), V("u"))),
            ("eq", V("d"), d),
            ("eq", ("der", V("d")), dd),
            ("eq", V("a1"), a1),
        ]

    def model(self):
        decls = [Decl("s", mods={"start": N(1)}), Decl("d"), Decl("u", prefix="input"), Decl("p", prefix="parameter", value=N(2)), Decl("a1"), Decl("a2")]
        eqs = self.equations()
        return Model("M", decls, [eqs[i] for i in self.perm])


def dstate_jobs(tier):
    """(key, switches on, eliminable_variable_expression) for family (H): every variant x every order of the four
    equations x every pattern x {expand_mx alone, + detect_aliases, all switches on (thorough: and all-on without
    detect_aliases / without iterative_simplification)}."""
    allon = tuple(sorted(SWITCHES))
    d = tuple(sorted(set(DEFAULT_ON) | {"expand_mx"}))
    ons = [d, tuple(sorted(set(d) | {"detect_aliases"})), allon]
    if tier == "thorough":
        ons += [tuple(sorted(set(allon) - {"detect_aliases"})), tuple(sorted(set(allon) - {"iterative_simplification"}))]
    out = []
    for variant in DStateSpec.VARIANTS:
        for pm in itertools.permutations(range(4)):
            for pat in DStateSpec.PATTERNS:
                for on in ons:
                    out.append((DStateSpec(variant, pm).key(), on, pat))
    return out


class AliasEveSpec(FreeSpec):
    """(I, C15 only) eliminable_variable_expression meets recorded aliases: der(s) = a3 + u; an alias equation between a1
    and a2 that only detect_aliases recognises (2*a1 - 2*a2 = 0, a1 - a2 = 0, a1 + a2 = 0); a1 = 2 * a3; and a3 + a2 = 3
    (or a2 = 3 - a3).  Under iterative_simplification the second pass sees equations in which an alias was replaced by its
    canonical variable, so a variable that other variables were recorded as aliases of can become eliminable."""

    ALIAS = {
        "scaled-diff": lambda a, b: ("eq", B("-", B("*", N(2), a), B("*", N(2), b)), N(0)),
        "diff0": lambda a, b: ("eq", B("-", a, b), N(0)),
        "sum0": lambda a, b: ("eq", B("+", a, b), N(0)),
    }
    LAST = {
        "implicit": ("eq", B("+", V("a3"), V("a2")), N(3)),
        "explicit": ("eq", V("a2"), B("-", N(3), V("a3"))),
    }
    PATTERNS = ["a1", "a2", "a[12]", "a3", "a.*"]

    def __init__(self, alias, last, perm):
        self.alias, self.last, self.perm = alias, last, tuple(perm)
        self.k = self.n = 3
        self.items = ()

    def key(self):
        return ["aeve", self.alias, self.last, list(self.perm)]

    def regular(self):
        return True

    def equations(self):
        return [
            ("eq", ("der", V("s")), B("+", V("a3"), V("u"))),
            self.ALIAS[self.alias](V("a1"), V("a2")),
            ("eq", V("a1"), B("*", N(2), V("a3"))),
            self.LAST[self.last],
        ]

    def model(self):
        decls = [Decl("s", mods={"start": N(1)}), Decl("u", prefix="input"), Decl("p", prefix="parameter", value=N(2)), Decl("a1"), Decl("a2"), Decl("a3")]
        eqs = self.equations()
        return Model("M", decls, [eqs[i] for i in self.perm])


def aliaseve_jobs(tier):
    """Family (I): every alias form x last-equation form x order of the four equations x pattern x {expand_mx + detect_aliases,
    + iterative_simplification, all switches on}."""
    allon = tuple(sorted(SWITCHES))
    d = tuple(sorted(set(DEFAULT_ON) | {"expand_mx", "detect_aliases"}))
    ons = [d, tuple(sorted(set(d) | {"iterative_simplification"})), allon]
    out = []
    for alias in AliasEveSpec.ALIAS:
        for last in AliasEveSpec.LAST:
            for pm in itertools.permutations(range(4)):
                for pat in AliasEveSpec.PATTERNS:
                    for on in ons:
                        out.append((AliasEveSpec(alias, last, pm).key(), on, pat))
    return out


def pure_specs(tier):
    out = []
    for k in (1, 2, 3):
        for signs in itertools.product((1, -1), repeat=k):
            perms = list(itertools.permutations(range(k))) if tier == "thorough" or k < 3 else [tuple(range(k)), tuple(reversed(range(k)))]
            for pm in perms:
                out.append(PureSpec(signs, pm))
    return out


def make_spec(key):
    if key and key[0] == "pure":
        return PureSpec(key[1], key[2], key[3])
    if key and key[0] == "free":
        return FreeSpec(key[1], key[2], key[3])
    if key and key[0] == "aeve":
        return AliasEveSpec(key[1], key[2], key[3])
    if key and key[0] == "dstate":
        return DStateSpec(key[1], key[2])
    return Spec(*key)


def free_specs(tier):
    """Every set of k POOL equations over the ordered pairs of k unknowns (k = 2; 3 with the alias forms only,
    thorough: all forms) whose system, together with der(s) = 2 * a1 + u, is non-singular in (der(s), a1..ak)."""
    out = []
    for k in (2, 3):
        forms = list(POOL) if (k == 2 or tier == "thorough") else ["alias", "alias-neg"]
        pool = []
        for f in forms:
            if f == "const":
                pool += [(f, i, i) for i in range(1, k + 1)]
            else:
                pool += [(f, i, j) for i in range(1, k + 1) for j in range(1, k + 1) if i != j]
        for items in itertools.combinations(pool, k):
            # two equations over the same unordered pair in every k = 3 system would be a 2-system plus one: allowed
            sp = FreeSpec(k, items, tuple(range(k + 1)))
            rows = sp.rows()
            unk = ["der(s)"] + sp.unknowns()
            sub = [{c: v for c, v in r.items() if c in unk} for r in rows]
            if L.rank(sub) < len(unk):
                continue
            triangular = all(f in ("const",) for f, _, _ in items)
            if triangular:
                continue
            ident, rev = tuple(range(k + 1)), tuple(reversed(range(k + 1)))
            if tier == "quick":
                perms = [ident, rev] if k == 2 else [ident]
            else:
                perms = list(itertools.permutations(range(k + 1))) if k == 2 else [ident, rev]
            for pm in perms:
                out.append(FreeSpec(k, items, pm))
    return out


def _lin(n):
    k = n[0]
    if k == "num":
        return {1: Fraction(n[1])}
    if k == "var":
        return {1: PVAL[n[1]]} if n[1] in PVAL else {n[1]: Fraction(1)}
    if k == "der":
        return {"der(%s)" % n[1][1]: Fraction(1)}
    if k == "un":
        a = _lin(n[2])
        return a if n[1] == "+" else {v: -c for v, c in a.items()}
    if k == "bin":
        op = n[1]
        a, b = _lin(n[2]), _lin(n[3])
        if op in "+-":
            r = dict(a)
            for v, c in b.items():
                r[v] = r.get(v, 0) + (c if op == "+" else -c)
            return r
        if op == "*":
            if set(a) <= {1}:
                return {v: c * a.get(1, 0) for v, c in b.items()}
            if set(b) <= {1}:
                return {v: c * b.get(1, 0) for v, c in a.items()}
        if op == "/" and set(b) <= {1}:
            return {v: c / b[1] for v, c in a.items()}
    raise ValueError(n)


def _lin_eq(e):
    a, b = dict(_lin(e[1])), _lin(e[2])
    for v, c in b.items():
        a[v] = a.get(v, 0) - c
    return {v: c for v, c in a.items() if c != 0}


# ---- option sets ------------------------------------------------------------------------------------------


def options_of(on, eve):
    o = {s: (s in on) for s in SWITCHES}
    o["eliminable_variable_expression"] = eve
    if eve is not None:
        o["expand_mx"] = True  # pymoca refuses the combination otherwise (documented precondition)
    return o


def option_sets(k, around_all_on=True):
    """Every set of switches within Hamming distance <= k of the default, and of the all-on set, each with
    eliminable_variable_expression None (and, at distance budget, the two regexes)."""
    base = set(DEFAULT_ON)
    allon = set(SWITCHES)
    out = []
    seen = set()
    for centre in ([base, allon] if around_all_on else [base]):
        for r in range(k + 1):
            for flip in itertools.combinations(SWITCHES + ["EVE1", "EVE2"], r):
                if "EVE1" in flip and "EVE2" in flip:
                    continue
                on = set(centre)
                eve = EVE[2] if centre is allon else None
                for f in flip:
                    if f == "EVE1":
                        eve = EVE[1]
                    elif f == "EVE2":
                        eve = None if centre is allon else EVE[2]
                    else:
                        on ^= {f}
                key = (frozenset(on), eve)
                if key not in seen:
                    seen.add(key)
                    out.append((tuple(sorted(on)), eve))
    return out


# ---- running the real code --------------------------------------------------------------------------------


class _Capture(logging.Handler):
    def __init__(self):
        super().__init__(level=logging.WARNING)
        self.records = []

    def emit(self, record):
        self.records.append(record.getMessage())


_TREES = {}


def _tree(text):
    from pymoca import parser

    t = _TREES.get(text)
    if t is None:
        if len(_TREES) > 64:
            _TREES.clear()
        t = parser.parse(text, bypass_cache=True)
        _TREES[text] = t
    return t


def compile_simplified(text, options):
    """What _compile_model does after parsing: generate, check_balanced, simplify, check_balanced,
    _post_checks -- with warnings captured.  Returns (model | None, exception | None, warnings)."""
    from pymoca.backends.casadi import generator

    log = logging.getLogger("pymoca")
    cap = _Capture()
    old_level = log.level
    log.addHandler(cap)
    log.setLevel(logging.WARNING)
    model = err = None
    phase = "generate"
    try:
        model = generator.generate(_tree(text), "M", options)
        pre = (scalar_count(model.states) + scalar_count(model.alg_states), residual_len(model))
        model._vf_pre = pre
        model._vf_pre_ok = {}
        for fname in ("initial_residual_function", "variable_metadata_function"):
            try:
                getattr(model, fname)
                model._vf_pre_ok[fname] = True
            except Exception:  # noqa: BLE001 -- not constructible even before simplification: not simplify's doing
                model._vf_pre_ok[fname] = False
        model.check_balanced()
        n_pre = len(cap.records)
        phase = "simplify"
        model.simplify(options)
        phase = "post"
        model.check_balanced()
        model._post_checks()
        # An imbalance the model had before simplification, reported again unchanged afterwards, is not
        # simplify() reporting a failure.
        pre_gap = [_gap(r) for r in cap.records[:n_pre] if _gap(r) is not None]
        kept = list(cap.records[n_pre:])
        if pre_gap:
            kept = [r for r in kept if _gap(r) is None or _gap(r) != pre_gap[-1]]
        cap.records = kept
    except Exception as e:  # noqa: BLE001 -- "reports failure with an exception"
        err = e
        e._vf_phase = phase
    finally:
        log.removeHandler(cap)
        log.setLevel(old_level)
    return model, err, cap.records


def _gap(message):
    """unknowns - equations of a 'System is not balanced' warning, else None."""
    import re

    m = re.search(r"Number of states is (\d+), number of equations is (\d+)", message)
    return int(m.group(1)) - int(m.group(2)) if m else None


def scalar_count(vs):
    return sum(v.symbol.size1() * v.symbol.size2() for v in vs)


def residual_len(model):
    f = model.dae_residual_function
    return sum(f.size1_out(i) * f.size2_out(i) for i in range(f.n_out()))


def coords(model):
    out = []
    for g in ("states", "der_states", "alg_states", "inputs"):
        for v in getattr(model, g):
            if v.symbol.size1() * v.symbol.size2() != 1:
                raise ValueError("non-scalar variable %s" % v.symbol.name())
            out.append(v.symbol.name())
    return out


def param_values(model):
    """Values for the model's constants / parameters by name: the reference's for the declared ones, the
    model's own recorded value for algebraic unknowns it turned into constants (checked separately)."""
    vals, recorded = {}, {}
    for g in ("constants", "parameters"):
        for v in getattr(model, g):
            n = v.symbol.name()
            if n in PVAL:
                vals[n] = float(PVAL[n])
            else:
                recorded[n] = v.value
    return vals, recorded


def eval_recorded(model, recorded, vals):
    """Numeric value of each recorded constant (their values may be MX in the declared parameters)."""
    import casadi as ca

    out = {}
    syms = [v.symbol for g in ("constants", "parameters") for v in getattr(model, g) if v.symbol.name() in vals]
    nums = [vals[s.name()] for s in syms]
    for n, val in recorded.items():
        mx = ca.MX(val)
        f = ca.Function("v", syms, [mx], {"allow_free": True})
        if f.has_free():
            raise ValueError("recorded value of %s depends on %s" % (n, f.get_free()))
        out[n] = float(f(*nums)) if syms else float(ca.DM(ca.evalf(mx)))
    return out


def residual_at(model, point, vals, initial=False):
    v = dict(vals)
    v.update(point)
    return np.array(cas.residual(model, v, initial=initial, time=0.0, default=None), dtype=float)


def frac(x):
    return Fraction(float(x)).limit_denominator(10**6)


def affine_rows(model, vals, initial=False):
    """Rows of the simplified (initial) residual as exact rationals, or None if it is not affine in the coordinates."""
    cs = coords(model)
    zero = {c: 0.0 for c in cs}
    b = residual_at(model, zero, vals, initial)
    cols = []
    for c in cs:
        pt = dict(zero)
        pt[c] = 1.0
        cols.append(residual_at(model, pt, vals, initial) - b)
    probe = {c: float(i + 2) * (-1) ** i for i, c in enumerate(cs)}
    pred = b + sum(col * probe[c] for c, col in zip(cs, cols)) if cs else b
    if not np.allclose(residual_at(model, probe, vals, initial), pred, rtol=1e-9, atol=1e-9):
        return None
    rows = []
    for i in range(len(b)):
        r = {c: frac(col[i]) for c, col in zip(cs, cols) if abs(col[i]) > 1e-12}
        if abs(b[i]) > 1e-12:
            r[1] = frac(b[i])
        rows.append(r)
    return rows


def project(rows, eliminated):
    """Row space of the projection of {w : rows} onto the coordinates not in `eliminated`."""
    cols = sorted(eliminated, key=str) + sorted({c for r in rows for c in r if c not in eliminated and c != 1}, key=str) + [1]
    rr, _ = L.rref(rows, cols)
    return [r for r in rr if not any(c in eliminated for c in r)]


def implied(rows, row):
    """Is `row` a linear consequence of `rows` (affine: column 1 is the constant)?"""
    return L.rank(rows) == L.rank(rows + [row])


# ---- enumeration of (model, option set) cases ----------------------------------------------------------------


def dep_patterns(n):
    chain = tuple(["s"] + ["a%d" % i for i in range(1, n)])
    star = tuple(["s"] + ["a1"] * (n - 1))
    inputs = tuple(["u"] + ["a%d" % i for i in range(1, n)])
    mixed = tuple((["s", "u", "a1", "a2"])[:n])
    return [chain, star, inputs, mixed]


CORE_FORMS = ["alias", "alias-neg", "alias-sum0", "const", "const-zero", "factor"]
PAIR_CORE = ["alias", "alias-diff0", "alias-neg", "const", "const-k", "ifelse"]


def core_option_sets():
    """A short list used on the bulk of the (model, order) space: the default, the single switches that drop
    equations, the all-on set and its nearest neighbours that keep an eliminating pass on its own."""
    allon = tuple(sorted(SWITCHES))
    d = tuple(sorted(DEFAULT_ON))
    on = lambda *xs: tuple(sorted(set(d) | set(xs)))  # noqa: E731
    off = lambda *xs: tuple(sorted(set(allon) - set(xs)))  # noqa: E731
    return [
        (d, None),
        (on("detect_aliases"), None),
        (on("eliminate_constant_assignments"), None),
        (on("expand_mx"), EVE[2]),
        (on("expand_mx"), EVE[1]),
        (on("expand_mx"), EVE[3]),
        (allon, EVE[2]),
        (allon, None),
        (off("detect_aliases"), EVE[2]),
        (off("reduce_affine_expression"), None),
        (off("iterative_simplification"), None),
    ]


def perm_option_sets():
    """The eliminating passes alone and together: used where only the order of the equation list varies."""
    c = core_option_sets()
    return [c[1], c[2], c[3], c[6], c[9]]


def plan(tier):
    """List of (Spec, option-set list name).  Complete within the bounds stated in the checks' rule text."""
    n = 3 if tier == "quick" else 4
    neq = n + 1
    ident = tuple(range(neq))
    rev = tuple(reversed(ident))
    allperms = list(itertools.permutations(range(neq)))
    rots = [tuple((i + r) % neq for i in range(neq)) for r in range(neq)]
    deps = dep_patterns(n)
    out = []
    # (A) <= 1 special form: every position x form x dependency pattern x state equation
    for nspecial in (0, 1):
        for pos in itertools.combinations(range(n), nspecial):
            for fs in itertools.product(SPECIAL, repeat=nspecial):
                forms = ["base"] * n
                for p_, f in zip(pos, fs):
                    forms[p_] = f
                for d in deps:
                    for f0 in ("a-last", "mixed"):
                        every_order = f0 == "a-last" and (d == deps[0] or (tier == "thorough" and d == deps[1]))
                        for pm in allperms if every_order else [ident, rev]:
                            if tier == "thorough":
                                sets = "near" if pm in (ident, rev) else "core"
                            elif pm == ident:
                                sets = "near" if d == deps[0] else "core"
                            else:
                                sets = "perm"
                            out.append((Spec(forms, d, f0, pm), sets))
    # (B) 2 special forms: every pair of positions x pair of forms
    for pos in itertools.combinations(range(n), 2):
        for fs in itertools.product(SPECIAL, repeat=2):
            forms = ["base"] * n
            for p_, f in zip(pos, fs):
                forms[p_] = f
            corepair = all(f in PAIR_CORE for f in fs)
            for d in deps[:1] if tier == "quick" else deps[:2]:
                for pm in [ident] if tier == "quick" else rots + [rev]:
                    if corepair and pm in (ident, rev):
                        sets = "near" if tier == "quick" else "wide"
                    else:
                        sets = "core" if tier == "thorough" else "perm"
                    out.append((Spec(forms, d, "a-last", pm), sets))
    # (C) full-length chains over the core alias / constant / factor forms
    for fs in itertools.product(CORE_FORMS, repeat=n):
        for pm in [ident, rev] if tier == "quick" else rots + [rev]:
            if tier == "quick":
                sets = "core" if pm == ident else "perm"
            else:
                sets = "near" if pm == ident else "core"
            out.append((Spec(fs, deps[0], "a-last", pm), sets))
    # (D) non-triangular systems: alias cycles with inconsistent signs, mutually defined unknowns
    for sp in free_specs(tier):
        out.append((sp, "core"))
    # (G) purely algebraic alias models with an initial equation
    for sp in pure_specs(tier):
        out.append((sp, "near" if sp.perm == tuple(range(sp.k)) else "core"))
    # (E) an initial equation next to the DAE (<= 1 special form, chain dependencies, source order)
    for nspecial in (0, 1):
        for pos in itertools.combinations(range(n), nspecial):
            for fs in itertools.product(SPECIAL, repeat=nspecial):
                forms = ["base"] * n
                for p_, f in zip(pos, fs):
                    forms[p_] = f
                for ieq in ("state", "alg"):
                    out.append((Spec(forms, deps[0], "a-last", ident, ieq), "near" if tier == "thorough" or nspecial == 0 or pos == (n - 1,) else "core"))
    return out


def option_set_table():
    return {"core": core_option_sets(), "perm": perm_option_sets(), "near": option_sets(1), "wide": option_sets(2)}
