"""Model families of C11 added when the check was strengthened (kept apart from c11.py so that the families C12 and
C23 import from c11 -- fam_for, fam_functions -- stay exactly as they were).

fam_chains   if / elseif / ... / else with every ordered choice of 2..3 threshold conditions on ONE variable, in the
             three places the generator folds branches: if-statements of functions, if-equations, if-expressions
             (nested `else if` and the flat `elseif` keyword).  The models pin that variable to a point inside every
             region between the thresholds and to every threshold itself, so every subset of conditions that can be
             true together is true at some grid point.
fam_matrix   every well-shaped expression tree with <= 2 (quick) / 3 (thorough) operator nodes over matrices with
             2..3 rows / columns and vectors of 2..3 entries as right-hand side of an equation between equal shapes
             (square ones included), as der() equation, initial equation and with the sides exchanged; 2-D slices on
             the left and on both sides; shaped constructors.
"""
import itertools

from vf.ref.mast import B, N, V, Decl, Func, Model

# ---- if / elseif chains -----------------------------------------------------------------------------------

THRESHOLDS = (1, 2, 3)
# per seed: where inside a region the point sits; the regions and the thresholds themselves are the same for every seed
REGION_OFFSET = (0.5, 0.25, 0.75)


def chain_pins(seed):
    """Values of the tested variable: one inside every region cut out by the thresholds, and every threshold."""
    off = REGION_OFFSET[seed % len(REGION_OFFSET)]
    lo, hi = THRESHOLDS[0], THRESHOLDS[-1]
    inside = [lo - 1 + off] + [t + off for t in THRESHOLDS[:-1]] + [hi + off]
    return inside + [float(t) for t in THRESHOLDS]


def chain_conditions(tier, var):
    rels = (">", "<", ">=", "<=") if tier == "thorough" else (">", "<")
    return [B(r, V(var), N(t)) for r in rels for t in THRESHOLDS]


def chains(tier, var):
    """Every ordered selection of 2..3 distinct conditions; the quick ones first (so quick models recur in thorough)."""
    out, seen = [], set()
    for tr in ("quick", tier):
        cs = chain_conditions(tr, var)
        for n in (2, 3):
            for sel in itertools.permutations(cs, n):
                if sel not in seen:
                    seen.add(sel)
                    out.append(list(sel))
    return out


def _branch_values(x, k, target=None):
    """One value per branch position (if, elseif, elseif) and the else value: ranges that cannot coincide on the grid."""
    return [B("+", N(100), V(k)), B("-", N(200), V(x)), B("+", N(300), B("*", V(k), V(x)))], ("un", "-", V(x))


def _branch_values2(x, k):
    return [B("-", N(1100), V(x)), B("+", N(1200), V(k)), B("-", N(1300), B("*", V(k), V(x)))], B("-", V(k), N(2000))


class PrintedAs(Model):
    """A model whose text is printed from `printed` equations while the reference evaluates `eqs`: the same meaning
    written with an operator the reference evaluator does not have (square matrix ^ n  ==  n-fold matrix product)."""

    def text(self):
        return Model(self.name, self.decls, self.printed, self.init_eqs, self.funcs).text()


class ElseifModel(Model):
    """Prints an if-expression in else position with the `elseif` keyword: the same meaning, but pymoca then builds ONE
    IfExpression node with several conditions instead of nested ones."""

    def text(self):
        return Model.text(self).replace(" else if ", " elseif ")


PACK = 10


def _chunks(xs, n):
    return [xs[i : i + n] for i in range(0, len(xs), n)]


def fam_chains(tier):
    out = []
    x, k = Decl("x"), Decl("k")

    def finish(fam, model, chs, var):
        model.pin_var = var  # check_model pins this variable to chain_pins(seed), one grid point per pin
        model.chains = chs  # the condition lists, for counting the points where >= 2 conditions hold
        out.append((fam, model))

    all_chains = chains(tier, "x")
    for chunk in _chunks(all_chains, PACK):
        # if-equations
        decls, eqs = [x, k], []
        for j, conds in enumerate(chunk):
            vals, els = _branch_values("x", "k")
            y = "y%d" % j
            decls.append(Decl(y))
            eqs.append(("ifeq", [(c, [("eq", V(y), vals[i])]) for i, c in enumerate(conds)], [("eq", V(y), els)]))
        finish("elseif-equation", Model("M", decls, eqs), chunk, "x")
        # if-expressions: nested in the else position, and with the elseif keyword
        for cls, fam in ((Model, "else-if-expression"), (ElseifModel, "elseif-expression")):
            decls, eqs = [x, k], []
            for j, conds in enumerate(chunk):
                vals, els = _branch_values("x", "k")
                y = "y%d" % j
                decls.append(Decl(y))
                e = els
                for i in reversed(range(len(conds))):
                    e = ("if", conds[i], vals[i], e)
                eqs.append(("eq", V(y), e))
            finish(fam, cls("M", decls, eqs), chunk, "x")
    # if-statements in functions: the condition is on the input u, the model calls f_j(x, k)
    for chunk_x, chunk_u in zip(_chunks(all_chains, PACK), _chunks(chains(tier, "u"), PACK)):
        decls, eqs, funcs = [x, k], [], []
        for j, conds in enumerate(chunk_u):
            vals, els = _branch_values("u", "w")
            y = "y%d" % j
            decls.append(Decl(y))
            st = ("ifst", [(c, [("assign", V("r"), vals[i])]) for i, c in enumerate(conds)], [("assign", V("r"), els)])
            funcs.append(Func("f%d" % j, [Decl("u"), Decl("w")], [Decl("r")], [], [st]))
            eqs.append(("eq", V(y), ("call", "f%d" % j, (V("x"), V("k")))))
        finish("elseif-statement", Model("M", decls, eqs, funcs=funcs), chunk_x, "x")
    # two variables per branch (the generator folds per assigned variable / stacks the equations of a block):
    # every ordered selection of 2..3 of the `>` conditions
    gt_x = [c for c in chains("quick", "x") if all(cc[1] == ">" for cc in c)]
    gt_u = [c for c in chains("quick", "u") if all(cc[1] == ">" for cc in c)]
    for chunk_x, chunk_u in zip(_chunks(gt_x, 6), _chunks(gt_u, 6)):
        decls, eqs = [x, k], []
        for j, conds in enumerate(chunk_x):
            (v1, e1), (v2, e2) = _branch_values("x", "k"), _branch_values2("x", "k")
            y, z = "y%d" % j, "z%d" % j
            decls += [Decl(y), Decl(z)]
            eqs.append(("ifeq", [(c, [("eq", V(y), v1[i]), ("eq", V(z), v2[i])]) for i, c in enumerate(conds)], [("eq", V(y), e1), ("eq", V(z), e2)]))
        finish("elseif-equation-2", Model("M", decls, eqs), chunk_x, "x")
        decls, eqs, funcs = [x, k], [], []
        for j, conds in enumerate(chunk_u):
            (v1, e1), (v2, e2) = _branch_values("u", "w"), _branch_values2("u", "w")
            y, z = "y%d" % j, "z%d" % j
            decls += [Decl(y), Decl(z)]
            st = ("ifst", [(c, [("assign", V("r"), v1[i]), ("assign", V("s"), v2[i])]) for i, c in enumerate(conds)], [("assign", V("r"), e1), ("assign", V("s"), e2)])
            funcs.append(Func("g%d" % j, [Decl("u"), Decl("w")], [Decl("r"), Decl("s")], [], [st]))
            eqs.append(("eq", ("tuple", (V(y), V(z))), ("call", "g%d" % j, (V("x"), V("k")))))
        finish("elseif-statement-2", Model("M", decls, eqs, funcs=funcs), chunk_x, "x")
    return out


# ---- matrix equations -------------------------------------------------------------------------------------

DIMS = (2, 3)
MTYPES = [("m", r, c) for r in DIMS for c in DIMS]
VTYPES = [("v", n) for n in DIMS]
S = ("s",)

FULL = dict(un=["-"], ew=["+", "-", ".*", "./"], transpose=True, mul=True, scal=["s*", "*s", "/s"])
CORE = dict(un=["-"], ew=["+", "-"], transpose=True, mul=True, scal=["s*"])


def mgen(t, n, ops, memo):
    """All trees of type t -- ("m", rows, cols) | ("v", size) | ("s",) -- with exactly n operator nodes; leaves are
    typed placeholders."""
    key = (t, n)
    if key in memo:
        return memo[key]
    out = []
    if n == 0:
        out.append(("leaf", t))
    elif t != S:
        m = n - 1
        for u in ops["un"]:
            out += [("un", u, a) for a in mgen(t, m, ops, memo)]
        if t[0] == "m" and ops["transpose"]:
            out += [("call", "transpose", (a,)) for a in mgen(("m", t[2], t[1]), m, ops, memo)]
        for i in range(m + 1):
            ls, rs = mgen(t, i, ops, memo), mgen(t, m - i, ops, memo)
            for op in ops["ew"]:
                out += [("bin", op, l, r) for l in ls for r in rs]
            if ops["mul"]:
                for kk in DIMS:
                    if t[0] == "m":
                        lt, rt = ("m", t[1], kk), ("m", kk, t[2])
                    else:
                        lt, rt = ("m", t[1], kk), ("v", kk)
                    out += [("bin", "*", l, r) for l in mgen(lt, i, ops, memo) for r in mgen(rt, m - i, ops, memo)]
        # scalar factors: the scalar operand is a leaf
        for sc in ops["scal"]:
            for a in mgen(t, m, ops, memo):
                if sc == "s*":
                    out.append(("bin", "*", ("leaf", S), a))
                elif sc == "*s":
                    out.append(("bin", "*", a, ("leaf", S)))
                else:
                    out.append(("bin", "/", a, ("leaf", S)))
    memo[key] = out
    return out


def tname(t):
    return "s" if t == S else ("M%d%d" % (t[1], t[2]) if t[0] == "m" else "v%d" % t[1])


def tdims(t):
    return () if t == S else (t[1:] if t[0] == "m" else (t[1],))


def mbind(tree):
    """Placeholders -> variables, left to right, three names per type in rotation (M22a M22b M22c M22a ...).
    Returns (tree, {name: type})."""
    cnt, used = {}, {}

    def rec(n):
        if n[0] == "leaf":
            t = n[1]
            i = cnt.get(t, 0)
            cnt[t] = i + 1
            name = tname(t) + "abc"[i % 3]
            used[name] = t
            return ("var", name)
        if n[0] == "un":
            return ("un", n[1], rec(n[2]))
        if n[0] == "bin":
            l = rec(n[2])
            return ("bin", n[1], l, rec(n[3]))
        if n[0] == "call":
            return ("call", n[1], tuple(rec(a) for a in n[2]))
        raise ValueError(n)

    return rec(tree), used


def matrix_trees(tier):
    """[(type, nops, tree, used)]; the quick ones first."""
    plans = [(FULL, 2)] + ([(CORE, 3)] if tier == "thorough" else [])
    seen, out = set(), []
    for ops, nmax in plans:
        memo = {}
        for n in range(0, nmax + 1):
            for t in MTYPES + VTYPES:
                for tr in mgen(t, n, ops, memo):
                    b, used = mbind(tr)
                    if (t, b) not in seen:
                        seen.add((t, b))
                        out.append((t, n, b, used))
    return out


MPACK = 12


def _leaf_decls(useds):
    names = {}
    for u in useds:
        names.update(u)
    return [Decl(nm, dims=tdims(names[nm])) for nm in sorted(names)]


def fam_matrix(tier):
    out = []
    trees = matrix_trees(tier)

    def wide(fam, model):
        model.wide = True  # distinct values for all elements of the leaf matrices (see c11.values_for)
        out.append((fam, model))

    for chunk in _chunks(trees, MPACK):
        decls = _leaf_decls([u for _, _, _, u in chunk])
        eqs = []
        for j, (t, n, tr, _) in enumerate(chunk):
            decls.append(Decl("Y%d" % j, dims=tdims(t)))
            eqs.append(("eq", V("Y%d" % j), tr))
        wide("matrix-expression", Model("M", decls, eqs))
    small = [x for x in trees if x[1] <= 1]
    for chunk in _chunks(small, MPACK):
        leaf = _leaf_decls([u for _, _, _, u in chunk])
        ys = [Decl("Y%d" % j, dims=tdims(t)) for j, (t, _, _, _) in enumerate(chunk)]
        # der(Y) = tree
        wide("matrix-der", Model("M", leaf + ys, [("eq", ("der", V("Y%d" % j)), tr) for j, (_, _, tr, _) in enumerate(chunk)]))
        # initial equation Y = tree  (with der(Y) = -Y as the equation)
        wide(
            "matrix-initial",
            Model(
                "M",
                leaf + ys,
                [("eq", ("der", V("Y%d" % j)), ("un", "-", V("Y%d" % j))) for j in range(len(chunk))],
                [("eq", V("Y%d" % j), tr) for j, (_, _, tr, _) in enumerate(chunk)],
            ),
        )
        # tree = Y  (an expression on the left)
        wide("matrix-lhs-expression", Model("M", leaf + ys, [("eq", tr, V("Y%d" % j)) for j, (_, n, tr, _) in enumerate(chunk) if n == 1]))
    # shaped constructors and an if-expression between matrices
    a = Decl("a")
    for r, c in [(r, c) for r in DIMS for c in DIMS]:
        Ym, Xm, Km = Decl("Y", dims=(r, c)), Decl("X", dims=(r, c)), Decl("K", dims=(r, c))
        forms = [
            ([Ym], ("call", "zeros", (N(r), N(c)))),
            ([Ym], ("call", "ones", (N(r), N(c)))),
            ([Ym, a], ("call", "fill", (V("a"), N(r), N(c)))),
            ([Ym, Xm, a], B("-", V("X"), ("call", "fill", (V("a"), N(r), N(c))))),
            ([Ym, Xm], B("+", ("call", "ones", (N(r), N(c))), V("X"))),
            ([Ym, Xm, Km, a], ("if", B(">", V("a"), N(1)), V("X"), V("K"))),
            ([Ym, Xm, Km, a], ("if", B(">", V("a"), N(1)), B("-", V("X"), V("K")), ("call", "transpose", (("call", "transpose", (V("K"),)),)))),
        ]
        for decls, rhs in forms:
            wide("matrix-constructor" if rhs[0] != "if" else "matrix-if-expression", Model("M", decls, [("eq", V("Y"), rhs)]))
    # slices of matrices on the left, and on both sides (row = row, row = column, column = row, column = column)
    for r, c in [(r, c) for r in DIMS for c in DIMS]:
        Am = Decl("A", dims=(r, c))
        for i in range(1, r + 1):
            wide("slice-2d-lhs", Model("M", [Am, Decl("z", dims=(c,))], [("eq", ("idx", "A", (N(i), ("all",))), V("z"))]))
        for j in range(1, c + 1):
            wide("slice-2d-lhs", Model("M", [Am, Decl("z", dims=(r,))], [("eq", ("idx", "A", (("all",), N(j))), V("z"))]))
        for r2, c2 in [(r2, c2) for r2 in DIMS for c2 in DIMS]:
            Km = Decl("K", dims=(r2, c2))
            sl = [(("idx", "A", (N(i), ("all",))), c) for i in range(1, r + 1)] + [(("idx", "A", (("all",), N(j))), r) for j in range(1, c + 1)]
            sr = [(("idx", "K", (N(i), ("all",))), c2) for i in range(1, r2 + 1)] + [(("idx", "K", (("all",), N(j))), r2) for j in range(1, c2 + 1)]
            eqs = [("eq", l, rr) for l, nl in sl for rr, nr in sr if nl == nr]
            if eqs:
                wide("slice-2d-both", Model("M", [Am, Km], eqs))
    return out


def _identity(n):
    return ("arr", tuple(("arr", tuple(N(1 if i == j else 0) for j in range(n))) for i in range(n)))


def fam_matrix_power(tier):
    """square matrix ^ n (n = 0..3: identity, the matrix, repeated matrix product) next to elementwise .^ n."""
    out = []
    for n in DIMS:
        Xm, Km, Ym = Decl("X", dims=(n, n)), Decl("K", dims=(n, n)), Decl("Y", dims=(n, n))
        bases = [(V("X"), [Xm]), (B("*", V("X"), V("K")), [Xm, Km]), (B("-", V("X"), V("K")), [Xm, Km])]
        for base, decls in bases:
            for e in (0, 1, 2, 3):
                ref = _identity(n) if e == 0 else base
                for _ in range(e - 1):
                    ref = B("*", ref, base)
                m = PrintedAs("M", decls + [Ym], [("eq", V("Y"), ref)])
                m.printed = [("eq", V("Y"), B("^", base, N(e)))]
                m.wide = True
                out.append(("matrix-power", m))
        # precedence against the product, and the elementwise operator on the same operands
        m = PrintedAs("M", [Xm, Km, Ym], [("eq", V("Y"), B("*", V("K"), B("*", V("X"), V("X"))))])
        m.printed = [("eq", V("Y"), B("*", V("K"), B("^", V("X"), N(2))))]
        m.wide = True
        out.append(("matrix-power", m))
    for r, c in [(r, c) for r in DIMS for c in DIMS]:
        Xm, Ym = Decl("X", dims=(r, c)), Decl("Y", dims=(r, c))
        for e in (2, 3):
            m = Model("M", [Xm, Ym], [("eq", V("Y"), B(".^", V("X"), N(e)))])
            m.wide = True
            out.append(("matrix-elementwise-power", m))
    return out
