"""C26 -- the compiler CLI's exit status counts exactly the errors.

E4: the full product of PATH subsets x -o x -m sequences x -t x -O over a small fixture tree, run through
tools.compiler.main in process.  Reference counting function: argparse-level errors => SystemExit(2);
otherwise usage errors (bad -o, missing PATHs, malformed -O); otherwise 1 for "no Modelica files" or the
number of files with syntax errors; otherwise one per requested model that fails when the same request is
made through the library API alone.
"""
import contextlib
import io
import itertools
import os
import shutil
from pathlib import Path

from vf.core import common

LEVEL = "exploration"

G1 = "model G1\n  Real x(start = 1);\nequation\n  der(x) = -x;\nend G1;\n"
G2 = "model G2\n  parameter Real k = 2;\n  Real y;\n  Real z;\nequation\n  der(y) = -k * y;\n  z = 2 * y;\nend G2;\n\nmodel BadFlat\n  MissingType m;\nend BadFlat;\n"
BAD = "model Bad\n  Real x\nequation\n  x = ;\nend Bad;\n"
BAD2 = "model Bad2\n  Real y;\nequation\n  y = (1;\nend Bad2;\n"

PATHS = ["good/G1.mo", "good/G2.mo", "bad/Bad.mo", "bad/Bad2.mo", "missing.mo", "empty", "good"]
MODELS = ["G1", "G2", "BadFlat", "Nope"]
OUTS = ["out", "no_such_dir", "afile.txt"]
OPTS = [None, "a=b", "malformed"]
TARGETS = [None, "sympy", "casadi"]
_FIX = {}


def fixture():
    if "root" not in _FIX:
        root = Path(common.new_scratch("c26"))
        (root / "good").mkdir()
        (root / "bad").mkdir()
        (root / "empty").mkdir()
        (root / "out").mkdir()
        (root / "good" / "G1.mo").write_text(G1)
        (root / "good" / "G2.mo").write_text(G2)
        (root / "bad" / "Bad.mo").write_text(BAD)
        (root / "bad" / "Bad2.mo").write_text(BAD2)
        (root / "afile.txt").write_text("x")
        _FIX["root"] = root
    return _FIX["root"]


def invocations(tier):
    psets = []
    maxp = 2 if tier == "quick" else len(PATHS)
    for r in range(1, maxp + 1):
        psets += list(itertools.combinations(PATHS, r))
    mseqs = [()]
    maxm = 2 if tier == "quick" else 3
    for r in range(1, maxm + 1):
        mseqs += list(itertools.product(MODELS, repeat=r))
    out = []
    for ps in psets:
        for ms in mseqs:
            for t in TARGETS:
                for o in OUTS:
                    for op in OPTS:
                        if (o != "out" or op is not None) and (len(ms) > 1 or len(ps) > 1) and tier == "quick":
                            continue  # usage errors short-circuit: vary them on the small invocations only
                        out.append((ps, ms, t, o, op))
    return out


def argv_of(inv):
    root = fixture()
    ps, ms, t, o, op = inv
    a = [str(root / p) for p in ps]
    for m in ms:
        a += ["-m", m]
    if t:
        a += ["-t", t]
    a += ["-o", str(root / o)]
    if op:
        a += ["-O", op]
    return a


def run_cli(argv):
    import tools.compiler as comp

    err = io.StringIO()
    try:
        with contextlib.redirect_stderr(err), contextlib.redirect_stdout(io.StringIO()):
            return ("ret", comp.main(list(argv)))
    except SystemExit as e:
        return ("exit", e.code)
    except BaseException as e:
        return ("raises", type(e).__name__)


def files_of(ps):
    root = fixture()
    out = []
    for p in ps:
        q = root / p
        if q.is_file() and q.suffix == ".mo":
            out.append(q)
        elif q.is_dir():
            out += sorted(q.glob("**/*.mo"))
    return out


_API = {}


def api_fails(ps, m, target):
    """Does the request fail when made through the library API on a fresh state?"""
    key = (ps, m, target)
    if key in _API:
        return _API[key]
    from pymoca import ast, parser, tree

    files = files_of(ps)
    res = False
    try:
        if target == "casadi":
            from pymoca.backends.casadi import api

            dirs = [f.parent for f in files if f.stem == m]
            if len(dirs) != 1:
                res = True
            else:
                api.transfer_model(str(dirs[0]), m, {})
        else:
            lib = ast.Tree(name="ModelicaTree")
            for f in files:
                lib.extend(parser.parse(f.read_text(), bypass_cache=True))
            if target == "sympy":
                from pymoca.backends.sympy import generator

                generator.generate(lib, m, {})
            else:
                tree.flatten(lib, ast.ComponentRef.from_string(m))
    except Exception:
        res = True
    _API[key] = res
    return res


def reference(inv):
    from pymoca import parser

    root = fixture()
    ps, ms, t, o, op = inv
    if t and not ms:
        return ("exit", 2)
    usage = 0
    if not (root / o).is_dir():
        usage += 1
    usage += sum(1 for p in ps if not (root / p).exists())
    if op is not None and len(op.split("=")) != 2:
        usage += 1
    if usage:
        return ("ret", usage)
    files = files_of(ps)
    if not files:
        return ("ret", 1)
    if t != "casadi":
        perr = sum(1 for f in files if parser.parse(f.read_text(), bypass_cache=True) is None)
        if perr:
            return ("ret", perr)
    return ("ret", sum(1 for m in ms if api_fails(ps, m, t)))


def check(inv):
    got = run_cli(argv_of(inv))
    exp = reference(inv)
    for f in (fixture() / "out").glob("*.py"):
        f.unlink()
    if got == exp:
        return None
    ps, ms, t, o, op = inv
    shape = "t=%s:models=%s" % (t, "+".join("ok" if not (exp[0] == "ret" and api_fails(ps, m, t)) else "fail" for m in ms) or "-")
    kind = "raises:" + got[1] if got[0] == "raises" else "exit-status"
    return (
        "%s:%s" % (kind, shape),
        "compiler %s -> %r, expected %r" % (" ".join(a.replace(str(fixture()) + "/", "") for a in argv_of(inv)), got, exp),
        {"invocation": [list(ps), list(ms), t, o, op]},
    )


def check_chunk(chunk):
    return [check(i) for i in chunk]


def run(ctx):
    invs = invocations(ctx.tier)
    size = 50
    chunks = [invs[i : i + size] for i in range(0, len(invs), size)]
    with common.Pool() as pool:
        res = pool.map(check_chunk, chunks, chunksize=1)
    n = 0
    for ch in res:
        for v in ch:
            n += 1
            if v:
                ctx.violation(*v)
    nontriv = sum(1 for i in invs if i[1])
    for k in (0, len(invs) // 2, len(invs) - 1):
        ctx.sample({"argv": [a.replace(str(fixture()) + "/", "") for a in argv_of(invs[k])]})
    ctx.coverage.update(
        {
            "evaluations": len(invs),
            "distinct_nontrivial": nontriv,
            "exhaustive": True,
            "rule": "product of PATH subsets (size <= 2 quick / all 127 thorough) of {good file 1, good file 2 (holds a class that fails "
            "to flatten), two files with a syntax error, missing path, empty directory, directory with the good files} x -m sequences of "
            "length 0..2 (3 thorough) over {G1, G2, BadFlat, Nope} x -t {none, sympy, casadi} x -o {directory, missing, a file} x -O "
            "{none, a=b, malformed} (quick varies -o/-O on the single-path, <= 1 model invocations only). Non-trivial = at least one "
            "model requested.",
        }
    )
    shutil.rmtree(fixture(), ignore_errors=True)


def replay(case):
    ps, ms, t, o, op = case["invocation"]
    v = check((tuple(ps), tuple(ms), t, o, op))
    print(v[1] if v else "ok")
    return v is None
