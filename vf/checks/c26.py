"""C26 -- the compiler CLI's exit status counts exactly the errors.

E4: the full product of PATH subsets x -o x -m sequences x -t x -O over a small fixture tree, run through
tools.compiler.main in process.  Reference counting function: argparse-level errors => SystemExit(2);
otherwise usage errors (bad -o, missing PATHs, malformed -O); otherwise 1 for "no Modelica files" or the
number of files with parse errors; otherwise one per requested model that fails when the same request is
made through the library API alone.

The PATH alphabet holds every kind of `*.mo` entry the listing / parsing code can meet: a readable file
that parses, a readable file with a syntax error, a regular file that is not UTF-8 text, and entries that
are in the directory listing but are no regular file (a sub-directory named `*.mo`, a dangling symbolic
link named `*.mo`) -- each inside a PATH directory and given directly as PATH.  A regular file that cannot
be decoded is one file with a parse error.  For listed entries that are no regular file the statement
does not say whether they are "files" at all, so the reference accepts both readings, consistently within
one invocation: every such entry is one file with a parse error (what the tool logs today), or none of
them is a Modelica file (a listing that keeps regular files only).  Given directly, a dangling link is a
missing path (usage error) and a directory is a directory tree whatever its name.  An exception escaping
main() is never a count.
"""
import contextlib
import io
import itertools
import os
import shutil
from pathlib import Path

from vf.core import common

LEVEL = "exploration"

G1 = "model G1\n  Real x(start = 1);\nequation\n  der(x) = -x;\nend G1;\n"
G2 = "model G2\n  parameter Real k = 2;\n  Real y;\n  Real z;\nequation\n  der(y) = -k * y;\n  z = 2 * y;\nend G2;\n\nmodel BadFlat\n  MissingType m;\nend BadFlat;\n"
BAD = "model Bad\n  Real x\nequation\n  x = ;\nend Bad;\n"
BAD2 = "model Bad2\n  Real y;\nequation\n  y = (1;\nend Bad2;\n"

INNER = "model Inner\n  Real w;\nequation\n  w = 1;\nend Inner;\n"
# a regular file that is not UTF-8 text (Latin-1 e-acute in the description string)
NONUTF8 = b'model N "caf\xe9"\n  Real v;\nequation\n  v = 1;\nend N;\n'

BASE_PATHS = ["good/G1.mo", "good/G2.mo", "bad/Bad.mo", "bad/Bad2.mo", "missing.mo", "empty", "good"]
# listed-but-unreadable entries: inside a PATH directory (next to a copy of the good file G1.mo) and given directly
ODD_PATHS = ["dirmo", "link", "enc", "dirmo/D.mo", "link/L.mo", "enc/N.mo"]
PATHS = BASE_PATHS + ODD_PATHS
MODELS = ["G1", "G2", "BadFlat", "Nope"]
OUTS = ["out", "no_such_dir", "afile.txt"]
OPTS = [None, "a=b", "malformed"]
TARGETS = [None, "sympy", "casadi"]
_FIX = {}


def fixture():
    if "root" not in _FIX:
        root = Path(common.new_scratch("c26"))
        (root / "good").mkdir()
        (root / "bad").mkdir()
        (root / "empty").mkdir()
        (root / "out").mkdir()
        (root / "good" / "G1.mo").write_text(G1)
        (root / "good" / "G2.mo").write_text(G2)
        (root / "bad" / "Bad.mo").write_text(BAD)
        (root / "bad" / "Bad2.mo").write_text(BAD2)
        (root / "afile.txt").write_text("x")
        for d in ("dirmo", "link", "enc"):
            (root / d).mkdir()
            (root / d / "G1.mo").write_text(G1)
        (root / "dirmo" / "D.mo").mkdir()  # a sub-directory whose name ends in .mo ...
        (root / "dirmo" / "D.mo" / "Inner.mo").write_text(INNER)  # ... and is a directory tree with one good file
        os.symlink(str(root / "nowhere" / "L.mo"), str(root / "link" / "L.mo"))  # dangling symbolic link
        (root / "enc" / "N.mo").write_bytes(NONUTF8)
        _FIX["root"] = root
    return _FIX["root"]


def invocations(tier):
    psets = []
    if tier == "quick":
        for r in (1, 2):
            psets += list(itertools.combinations(PATHS, r))
    else:
        # every subset of the base alphabet, and every subset of size <= 3 that holds an odd entry
        for r in range(1, len(BASE_PATHS) + 1):
            psets += list(itertools.combinations(BASE_PATHS, r))
        for r in (1, 2, 3):
            psets += [c for c in itertools.combinations(PATHS, r) if any(p in ODD_PATHS for p in c)]
    mseqs = [()]
    maxm = 2 if tier == "quick" else 3
    for r in range(1, maxm + 1):
        mseqs += list(itertools.product(MODELS, repeat=r))
    out = []
    for ps in psets:
        for ms in mseqs:
            for t in TARGETS:
                for o in OUTS:
                    for op in OPTS:
                        small = len(ms) <= 1 and len(ps) <= 1
                        wide = tier != "quick" and all(p in BASE_PATHS for p in ps)
                        if (o != "out" or op is not None) and not (small or wide):
                            continue  # usage errors short-circuit: vary them on the small invocations only
                        out.append((ps, ms, t, o, op))
    return out


def argv_of(inv):
    root = fixture()
    ps, ms, t, o, op = inv
    a = [str(root / p) for p in ps]
    for m in ms:
        a += ["-m", m]
    if t:
        a += ["-t", t]
    a += ["-o", str(root / o)]
    if op:
        a += ["-O", op]
    return a


def run_cli(argv):
    import tools.compiler as comp

    err = io.StringIO()
    try:
        with contextlib.redirect_stderr(err), contextlib.redirect_stdout(io.StringIO()):
            return ("ret", comp.main(list(argv)))
    except SystemExit as e:
        return ("exit", e.code)
    except BaseException as e:
        return ("raises", type(e).__name__)


def listing(ps):
    """Every entry the PATHs name: a regular *.mo file given directly, or what **/*.mo finds below a directory."""
    root = fixture()
    out = []
    for p in ps:
        q = root / p
        if os.path.isdir(q):
            out += sorted(q.glob("**/*.mo"))
        elif os.path.isfile(q) and q.suffix == ".mo":
            out.append(q)
    return out


def entry_kind(f):
    """text: regular file holding UTF-8 text; non-utf8: regular file that is not; else not a regular file."""
    if os.path.isdir(f):
        return "dir.mo"
    if not os.path.isfile(f):  # follows links: a dangling link is no file
        return "dangling.mo"
    try:
        f.read_bytes().decode("utf-8")
    except UnicodeDecodeError:
        return "non-utf8.mo"
    return "text"


def odd_entries(ps):
    return sorted({k for k in map(entry_kind, listing(ps)) if k != "text"})


def file_lists(ps):
    """The readings the statement allows for listed entries that are no regular file: each is a file (that
    cannot be parsed), or none is a Modelica file."""
    full = listing(ps)
    regular = [f for f in full if entry_kind(f) in ("text", "non-utf8.mo")]
    return [full] if regular == full else [full, regular]


_API = {}


def api_fails(files, m, target):
    """Does the request fail when made through the library API on a fresh state?"""
    key = (tuple(files), m, target)
    if key in _API:
        return _API[key]
    from pymoca import ast, parser, tree

    res = False
    try:
        if target == "casadi":
            from pymoca.backends.casadi import api

            dirs = [f.parent for f in files if f.stem == m]
            if len(dirs) != 1:
                res = True
            else:
                api.transfer_model(str(dirs[0]), m, {})
        else:
            lib = ast.Tree(name="ModelicaTree")
            for f in files:
                lib.extend(parser.parse(f.read_text(encoding="utf-8"), bypass_cache=True))
            if target == "sympy":
                from pymoca.backends.sympy import generator

                generator.generate(lib, m, {})
            else:
                tree.flatten(lib, ast.ComponentRef.from_string(m))
    except Exception:
        res = True
    _API[key] = res
    return res


def parse_error(f):
    from pymoca import parser

    if entry_kind(f) != "text":
        return True
    return parser.parse(f.read_text(encoding="utf-8"), bypass_cache=True) is None


def count_for(files, ms, t):
    if not files:
        return 1
    if t != "casadi":
        perr = sum(1 for f in files if parse_error(f))
        if perr:
            return perr
    return sum(1 for m in ms if api_fails(files, m, t))


def usage_errors(inv):
    root = fixture()
    ps, ms, t, o, op = inv
    usage = 0
    if not (root / o).is_dir():
        usage += 1
    usage += sum(1 for p in ps if not os.path.exists(root / p))  # follows links: a dangling link is missing
    if op is not None and len(op.split("=")) != 2:
        usage += 1
    return usage


def reference(inv):
    """The acceptable outcomes (one, or two when the listing holds entries that are no regular file)."""
    ps, ms, t, o, op = inv
    if t and not ms:
        return [("exit", 2)]
    usage = usage_errors(inv)
    if usage:
        return [("ret", usage)]
    out = []
    for files in file_lists(ps):
        r = ("ret", count_for(files, ms, t))
        if r not in out:
            out.append(r)
    return out


def check(inv):
    got = run_cli(argv_of(inv))
    exp = reference(inv)
    for f in (fixture() / "out").glob("*.py"):
        f.unlink()
    if got in exp:
        return None
    ps, ms, t, o, op = inv
    counted = exp[0][0] == "ret"
    shape = "t=%s:models=%s" % (t, "+".join("fail" if counted and api_fails(listing(ps), m, t) else "ok" for m in ms) or "-")
    # entries that cannot be read matter where the files are parsed: no usage error, not the casadi branch
    odd = odd_entries(ps)
    at_parse = bool(odd) and t != "casadi" and exp != [("exit", 2)] and not usage_errors(inv)
    if got[0] == "raises" and at_parse:
        sig = "raises:%s:reading-listed-entry" % got[1]  # the parse stage died: models / target do not matter
    elif got[0] == "raises":
        sig = "raises:%s:%s" % (got[1], shape)
    elif at_parse:
        sig = "exit-status:entries=%s" % "+".join(odd)
    else:
        sig = "exit-status:" + shape
    return (
        sig,
        "compiler %s -> %r, expected %s%s"
        % (
            " ".join(a.replace(str(fixture()) + "/", "") for a in argv_of(inv)),
            got,
            " or ".join(repr(e) for e in exp),
            " (listing holds %s)" % ", ".join(odd) if odd else "",
        ),
        {"invocation": [list(ps), list(ms), t, o, op]},
    )


def check_chunk(chunk):
    return [check(i) for i in chunk]


def run(ctx):
    invs = invocations(ctx.tier)
    size = 50
    chunks = [invs[i : i + size] for i in range(0, len(invs), size)]
    with common.Pool() as pool:
        res = pool.map(check_chunk, chunks, chunksize=1)
    n = 0
    for ch in res:
        for v in ch:
            n += 1
            if v:
                ctx.violation(*v)
    nontriv = sum(1 for i in invs if i[1])
    oddn = sum(1 for i in invs if any(p in ODD_PATHS for p in i[0]))
    for k in (0, len(invs) // 2, len(invs) - 1):
        ctx.sample({"argv": [a.replace(str(fixture()) + "/", "") for a in argv_of(invs[k])]})
    ctx.coverage.update(
        {
            "evaluations": len(invs),
            "distinct_nontrivial": nontriv,
            "exhaustive": True,
            "invocations_with_unreadable_entries": oddn,
            "rule": "product of PATH subsets x -m sequences of length 0..2 (3 thorough) over {G1, G2, BadFlat, Nope} x -t {none, sympy, "
            "casadi} x -o {directory, missing, a file} x -O {none, a=b, malformed}.  PATH alphabet: base = {good file 1, good file 2 "
            "(holds a class that fails to flatten), two files with a syntax error, missing path, empty directory, directory with the "
            "good files}; odd = listed entries that cannot be read as Modelica = {directory holding a good file and a sub-directory "
            "named D.mo (itself holding a good file), directory holding a good file and a dangling symbolic link L.mo, directory "
            "holding a good file and a non-UTF-8 regular file N.mo, and D.mo, L.mo, N.mo given directly}.  quick: all PATH subsets "
            "of size <= 2 of the 13; thorough: all 127 subsets of the base and all subsets of size <= 3 that hold an odd entry.  "
            "-o/-O are varied on single-path, <= 1 model invocations (thorough: also on every base-only invocation).  Non-trivial = "
            "at least one model requested.",
        }
    )
    ctx.assumptions.append(
        "a listed *.mo entry that is no regular file (sub-directory, dangling link) is either one file with a parse error or "
        "no Modelica file at all -- the statement does not say which, both counts are accepted (all such entries of one "
        "invocation read the same way); a regular file that is not UTF-8 text is one file with a parse error; given "
        "directly as PATH a dangling link is a missing path and a directory named *.mo is a directory tree"
    )
    shutil.rmtree(fixture(), ignore_errors=True)


def replay(case):
    ps, ms, t, o, op = case["invocation"]
    v = check((tuple(ps), tuple(ms), t, o, op))
    print(v[1] if v else "ok")
    return v is None
