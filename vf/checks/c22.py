"""C22 -- delay durations are validated and delay arguments preserved.

E4: models `y = delay(expr, dur)` with dur over every expression built from one or two symbols of each
category {literal, constant, parameter, fixed input, free input, time, state, der(state), algebraic}
(single symbols; ordered pairs joined by + or *), expr in {x, 2*x+p, x[i], whole vector}, outside and inside
a for-loop (an array of delays), one or two delays per model, under a set of compiler options.  Every model
goes through the real `api.transfer_model` on a scratch model folder (cache off).

A tenth category, 'delayed signal': the duration is (or contains) a delay() call itself -- `delay(w, delay(s, p))` --
or an algebraic variable defined by one (`tau = delay(s, p); y = delay(w, tau)`, also under the options that
eliminate tau: detect_aliases, eliminable_variable_expression).  The delayed value of a state / algebraic variable /
free input / time is a time-varying, non-fixed signal: such a model must be rejected.  For the delayed value of a
constant / parameter / fixed-input expression the statement gives no verdict (see DELAYED below): either outcome.

Reference (this file): the category of a symbol follows from our own declarations; a model must be accepted
iff every free symbol of every duration is a literal, constant, parameter or fixed input.  For accepted models
each source delay is *linked* to the delay state it defines (by perturbing the delay inputs and the target
variable in the real DAE residual, or through the alias relation when the target was eliminated), and the
(expression, duration) pair that `delay_arguments_function` returns at the position of that delay state in
`model.delay_states` must equal the reference evaluation (vf.ref.mast.evn) of the source arguments on a grid.
"""
import os
import re
import shutil

import numpy as np

from vf.core import cas, common
from vf.ref import mast as M
from vf.ref.mast import B, N, V, Decl, Model

LEVEL = "exploration"
_ELEM = re.compile(r"^(.+)\[(\d+(?:,\d+)*)\]$")
_LOOP_ELEM = re.compile(r"^(\w+)\[i(-1)?\]$")

# ---- alphabet ---------------------------------------------------------------------------------------------

SYMS = {
    "literal": ["1.5", "0.5"],
    "constant": ["c", "c2"],
    "parameter": ["p", "q", "p2", "pv[2]"],
    "fixed-input": ["uf", "uf2", "ufv[2]"],
    "free-input": ["u", "u2", "uv[2]"],
    "time": ["time"],
    "state": ["s", "s2"],
    "der-state": ["der(s)", "der(s2)"],
    "algebraic": ["w", "x"],
    # a delayed signal "delay(<expression>|<duration>)" as (part of) a duration, see DELAYED
    "delayed-signal": None,
}
# Delayed signals as duration operands, "delay(E|D)" = delay(E, D) with E a symbol of the alphabet above or a key of
# EXPRS and D again a duration.  pymoca turns every delay() call into an extra input `_pymoca_delay_N` that is not
# fixed, so in the *model* such a duration depends on a non-fixed input; in the *source* it depends on whatever E
# depends on, some time ago.  Both readings agree when E mentions a state, a derivative, an algebraic variable, a
# free input or time: reject.  They disagree when E is built from constants, parameters and fixed inputs only (the
# unchanged code rejects, the statement's "depend only on constants, parameters and fixed inputs" would accept):
# the statement does not foresee a delay() call inside a duration, so for those ("delayed-parameter" etc., the
# EITHER class) no verdict is demanded.  The inner duration D is a delay duration of the model in its own right.
DELAYED = [
    "delay(s|p)",  # state
    "delay(x|1.5)",  # algebraic
    "delay(u|uf)",  # free input
    "delay(w|c)",
    "delay(uv[2]|p)",  # element of a free input array
    "delay(xv[2]|pv[2])",
    "delay(2*x+p|p)",  # mixed expression
    "delay(der(s)|p)",
    "delay(time|p)",
    "delay(s2|uf+p)",
    "delay(x|delay(s|p))",  # three levels
    "delay(p|delay(x|p))",  # an EITHER-class expression delayed by a delayed state
    # EITHER class
    "delay(p|1.5)",
    "delay(2*p+c|p)",
    "delay(c|p)",
    "delay(uf|p)",
    "delay(pv[2]|c)",
    # EITHER-class expression, but the inner duration is disallowed
    "delay(p|s)",
    "delay(2*p+c|time)",
    "delay(p|u)",
]
SYMS["delayed-signal"] = DELAYED
CATS = list(SYMS)
ALLOWED = {"literal", "constant", "parameter", "fixed-input"}
TAU = "tau"  # algebraic variable of the via-variable models:  tau = delay(E, D);  y = delay(expr, tau)
LOOP = (2, 3)  # for i in 2:3 -- a proper sub-range of the arrays of size 3, so element offsets matter
P_DECLARED = 2.75
PV_DECLARED = (1.5, 2.5, 3.5)


def declarations(via=False):
    t, f = ("bool", True), ("bool", False)
    return ([Decl(TAU)] if via else []) + [
        Decl("x"),
        Decl("xv", dims=(3,)),
        Decl("y1"),
        Decl("y2"),
        Decl("yv", dims=(3,)),
        Decl("zv", dims=(3,)),
        Decl("w"),
        Decl("s"),
        Decl("s2", mods={"start": N(1), "fixed": t}),  # a *fixed state* is still a state
        Decl("c", prefix="constant", value=N(1.25)),
        Decl("c2", prefix="constant", value=B("*", N(2), V("c"))),
        Decl("p", prefix="parameter", value=N(P_DECLARED)),
        Decl("q", prefix="parameter"),  # no value
        Decl("p2", prefix="parameter", value=B("*", N(3), V("p"))),
        Decl("pv", prefix="parameter", dims=(3,), value=("arr", tuple(N(v) for v in PV_DECLARED))),
        Decl("uf", prefix="input", mods={"fixed": t}),
        Decl("uf2", prefix="input", mods={"fixed": t}),
        Decl("u", prefix="input"),
        Decl("u2", prefix="input", mods={"fixed": f}),  # explicitly not fixed
        Decl("ufv", prefix="input", dims=(3,), mods={"fixed": t}, each=("fixed",)),
        Decl("uv", prefix="input", dims=(3,)),
    ]


def base_equations():
    return [
        ("eq", ("der", V("s")), V("x")),
        ("eq", ("der", V("s2")), V("w")),
        ("eq", V("w"), B("*", N(3), V("x"))),
    ]


EXPRS = {
    "2*x+p": B("+", B("*", N(2), V("x")), V("p")),
    "2*p+c": B("+", B("*", N(2), V("p")), V("c")),
    "uf+p": B("+", V("uf"), V("p")),
}


def split_delayed(s):
    """'delay(E|D)' -> (E, D), splitting at the top-level bar."""
    body, depth = s[6:-1], 0
    for k, ch in enumerate(body):
        depth += (ch == "(") - (ch == ")")
        if ch == "|" and depth == 0:
            return body[:k], body[k + 1 :]
    raise ValueError(s)


def sym_node(s):
    if s.startswith("delay("):
        e, d = split_delayed(s)
        return ("call", "delay", (sym_node(e), sym_node(d)))
    if s in EXPRS:
        return EXPRS[s]
    if s == "time":
        return V("time")
    if s.startswith("der("):
        return ("der", V(s[4:-1]))
    if s[0].isdigit():
        return N(s)
    m = _ELEM.match(s)
    if m:
        return ("idx", m.group(1), (N(int(m.group(2))),))
    m = _LOOP_ELEM.match(s)
    if m:  # loop-indexed element, e.g. pv[i] or pv[i-1] (only inside the for-loop)
        sub = V("i") if not m.group(2) else B("-", V("i"), N(1))
        return ("idx", m.group(1), (sub,))
    return V(s)


def dur_node(dur):
    if len(dur) == 1:
        return sym_node(dur[0])
    return B(dur[1], sym_node(dur[0]), sym_node(dur[2]))


def durations(tier):
    out = [(s,) for c in CATS for s in SYMS[c]]
    for c1 in CATS:
        for c2 in CATS:
            for op in "+*":
                a = SYMS[c1][0]
                b = SYMS[c2][0] if c1 != c2 else SYMS[c1][min(1, len(SYMS[c1]) - 1)]
                out.append((a, op, b))
    for op in "+*":
        out.append(("q", op, "p2"))
        # an EITHER-class delayed signal next to an allowed symbol (no verdict) and next to a disallowed one (reject)
        out.append(("delay(p|1.5)", op, "p"))
        out.append(("uf", op, "delay(2*p+c|p)"))
        out.append(("delay(p|1.5)", op, "u"))
        out.append(("s", op, "delay(c|p)"))
    if tier == "thorough":  # the same pairs over the *last* symbol of each category
        for c1 in CATS:
            for c2 in CATS:
                if c1 != c2 and (len(SYMS[c1]) > 1 or len(SYMS[c2]) > 1):
                    for op in "+*":
                        out.append((SYMS[c1][-1], op, SYMS[c2][-1]))
    return out


FIRST = [SYMS[c][0] for c in CATS]
ALL_SINGLES = [s for c in CATS for s in SYMS[c]]
# single-symbol durations of the thorough two-delay models: everything but the delayed signals, and four of those
TWO_DELAY_SINGLES = [s for c in CATS if c != "delayed-signal" for s in SYMS[c]] + ["delay(s|p)", "delay(x|1.5)", "delay(p|1.5)", "delay(p|u)"]

EKINDS_OUT = ["x", "affine", "elem", "vec"]
EKINDS_LOOP = ["x", "affine", "elem"]


def expr_node(place, ekind):
    """Delayed expression; inside the loop subscripts use the loop variable."""
    if ekind == "x":
        return V("x")
    if ekind == "vec":
        return V("xv")
    sub = N(2) if place == "out" else V("i")
    if ekind == "elem-shift":
        sub = B("-", V("i"), N(1))
    e = ("idx", "xv", (sub,))
    if ekind == "affine":
        return B("+", B("*", N(2), V("x") if place == "out" else e), V("p"))
    return e


# compiler option sets (name -> options)
OPTIONS = {
    "default": {},
    "ev": {"expand_vectors": True},
    "ev+mx": {"expand_vectors": True, "expand_mx": True},
    "aliases": {"detect_aliases": True},
    "repl-const": {"replace_constant_expressions": True, "replace_constant_values": True},
    "repl-par": {"replace_parameter_expressions": True, "replace_parameter_values": True},
    "affine": {"reduce_affine_expression": True},
    "serial": {"unroll_loops": False},
    "ev+aliases": {"expand_vectors": True, "detect_aliases": True},
    "ev+mx+aliases": {"expand_vectors": True, "expand_mx": True, "detect_aliases": True},
    "mx": {"expand_mx": True},
    "repl-par-expr": {"replace_parameter_expressions": True},
    # via-variable models only: tau is eliminated by substitution (needs expand_mx)
    "elim": {"eliminable_variable_expression": TAU, "expand_mx": True},
    "ev+elim": {"eliminable_variable_expression": TAU, "expand_mx": True, "expand_vectors": True},
    "elim+aliases": {"eliminable_variable_expression": TAU, "expand_mx": True, "detect_aliases": True},
}
ELIM_OPTS = ["elim", "ev+elim", "elim+aliases"]
# cache=True is deliberately not an option set here: cached models are C19's subject, and this header cannot be cached for
# reasons that have nothing to do with delay validation (see out/notes/C22.md (e)).
QUICK_OPTS = ["default", "ev", "ev+mx", "aliases", "repl-const", "repl-par", "affine", "serial"]
QUICK_OPTS_2 = ["default", "ev", "aliases", "serial"]
THOROUGH_OPTS = [n for n in OPTIONS if n not in ELIM_OPTS]


def eliminates_tau(optname):
    o = OPTIONS[optname]
    return bool(o.get("detect_aliases") or o.get("eliminable_variable_expression"))


# Durations that depend on the loop index (placement 'loop' only): one delay per iteration, each with its own duration.
LOOP_DURS = [
    ("pv[i]",),
    ("ufv[i]",),
    ("uv[i]",),
    ("xv[i]",),
    ("pv[i-1]",),
    ("pv[i]", "+", "p"),
    ("uf", "*", "pv[i]"),
    ("pv[i]", "+", "ufv[i]"),
    ("pv[i]", "*", "ufv[i-1]"),
    ("pv[i]", "*", "uv[i]"),
    ("s", "+", "pv[i]"),
    ("xv[i]", "+", "ufv[i]"),
    ("pv[i]", "+", "time"),
]
LOOP_DUR_PAIRS = [(("pv[i]",), ("p",)), (("p",), ("pv[i]",)), (("pv[i]",), ("ufv[i-1]",)), (("pv[i]",), ("uv[i]",)), (("u",), ("pv[i]",)), (("pv[i]",), ("pv[i]",))]

VIA_DURS = [(TAU,), (TAU, "+", "p"), ("uf", "*", TAU)]
VIA_FORMS = ["eq", "after", "plus"]  # tau = D before the delay that uses it / after it / tau = D + p


def specs(tier):
    """(spec, option names).  spec = {"delays": [[place, ekind, dur], ...], "layout": None|"same"|"separate"}."""
    out = []
    opts1 = QUICK_OPTS if tier == "quick" else THOROUGH_OPTS
    opts2 = QUICK_OPTS_2 if tier == "quick" else THOROUGH_OPTS
    durs = durations(tier)
    singles = [("out", k) for k in EKINDS_OUT] + [("loop", k) for k in EKINDS_LOOP]
    if tier == "thorough":
        singles.append(("loop", "elem-shift"))
    for place, ek in singles:
        for d in durs:
            out.append(({"delays": [[place, ek, list(d)]], "layout": None}, _opts_for(opts1, place == "loop")))
    layouts = [("out", "out", None), ("out", "loop", None), ("loop", "out", None), ("loop", "loop", "same"), ("loop", "loop", "separate")]
    kinds = ["x", "affine", "elem"]
    if tier == "quick":
        kpairs = [("x", "elem"), ("elem", "affine"), ("affine", "x")]
        dpairs = [((a,), (b,)) for a in FIRST for b in FIRST]
    else:
        kpairs = [(a, b) for a in kinds for b in kinds]
        dpairs = [((a,), (b,)) for a in TWO_DELAY_SINGLES for b in TWO_DELAY_SINGLES]
    for p1, p2, lay in layouts:
        for k1, k2 in kpairs:
            for d1, d2 in dpairs:
                out.append(({"delays": [[p1, k1, list(d1)], [p2, k2, list(d2)]], "layout": lay}, _opts_for(opts2, "loop" in (p1, p2))))
    if tier == "thorough":  # a two-symbol duration next to an allowed / a disallowed single one, in both positions
        rot = [("x", "elem"), ("elem", "affine"), ("affine", "x")]
        pairs = [d for d in durations("quick") if len(d) == 3]
        for p1, p2, lay in layouts:
            for k1, k2 in rot:
                for d in pairs:
                    for other in ("p", "u"):
                        out.append(({"delays": [[p1, k1, list(d)], [p2, k2, [other]]], "layout": lay}, _opts_for(QUICK_OPTS, "loop" in (p1, p2))))
                        out.append(({"delays": [[p1, k1, [other]], [p2, k2, list(d)]], "layout": lay}, _opts_for(QUICK_OPTS, "loop" in (p1, p2))))
    # loop-indexed durations: every LOOP_DURS entry x every in-loop expression kind (incl. the loop-invariant x), and
    # pairs of delays in one loop / two loops / outside + loop where one or both durations are loop-indexed
    lkinds = EKINDS_LOOP + (["elem-shift"] if tier == "thorough" else [])
    for ek in lkinds:
        for d in LOOP_DURS:
            out.append(({"delays": [["loop", ek, list(d)]], "layout": None}, _opts_for(opts1, True)))
    for d1, d2 in LOOP_DUR_PAIRS:
        for k1, k2 in kpairs:
            for lay in ("same", "separate"):
                out.append(({"delays": [["loop", k1, list(d1)], ["loop", k2, list(d2)]], "layout": lay}, _opts_for(opts2, True)))
    for d in LOOP_DURS[:4]:
        for other in ("p", "u"):
            out.append(({"delays": [["out", "x", [other]], ["loop", "elem", list(d)]], "layout": None}, _opts_for(opts2, True)))
            out.append(({"delays": [["loop", "elem", list(d)], ["out", "x", [other]]], "layout": None}, _opts_for(opts2, True)))
    # via-variable models: tau = <delayed signal>; one delay whose duration mentions tau
    # (quick: three placements; all forms and durations for four of the delayed signals, 'tau = D; delay(.., tau)' for the rest)
    vplaces = [("out", "x"), ("out", "vec"), ("loop", "elem")] if tier == "quick" else singles
    vopts = (QUICK_OPTS if tier == "quick" else THOROUGH_OPTS) + ELIM_OPTS
    for tok in DELAYED:
        full = tier != "quick" or tok in ("delay(s|p)", "delay(x|1.5)", "delay(u|uf)", "delay(p|1.5)")
        for form in VIA_FORMS if full else VIA_FORMS[:1]:
            for place, ek in vplaces:
                for d in VIA_DURS if full else VIA_DURS[:1]:
                    out.append(({"delays": [[place, ek, list(d)]], "layout": None, "via": [tok, form]}, _opts_for(vopts, place == "loop")))
    return out


def _opts_for(names, has_loop):
    return [n for n in names if has_loop or n != "serial"]


# ---- model construction and reference ---------------------------------------------------------------------


def build(spec):
    """Model plus the list of targets: (variable, element or None, expr node, dur node, loop env, kind of its delay)."""
    eqs = base_equations()
    targets = []
    loops = []  # bodies of the for-loops, in source order
    delays = spec["delays"]
    via = spec.get("via")
    via_eq = None
    if via:
        rhs = sym_node(via[0])
        via_eq = ("eq", V(TAU), B("+", rhs, V("p")) if via[1] == "plus" else rhs)
        if via[1] != "after":
            eqs.append(via_eq)
    for n, (place, ek, dur) in enumerate(delays):
        e, d = expr_node(place, ek), dur_node(tuple(dur))
        kind = "%s-%s" % (place, ek)
        call = ("call", "delay", (e, d))
        if place == "out":
            if ek == "vec":
                tv = ("yv", "zv")[n]
                eqs.append(("eq", V(tv), call))
                for j in (1, 2, 3):
                    targets.append((tv, j, ("idx", "xv", (N(j),)), d, {}, kind))
            else:
                tv = ("y1", "y2")[n]
                eqs.append(("eq", V(tv), call))
                targets.append((tv, None, e, d, {}, kind))
        else:
            tv = ("yv", "zv")[n]
            body = ("eq", ("idx", tv, (V("i"),)), call)
            if spec["layout"] == "same" and loops:
                loops[-1][4].append(body)
            else:
                lp = ("for", "i", N(LOOP[0]), N(LOOP[1]), [body])
                loops.append(lp)
                eqs.append(lp)
            for i in range(LOOP[0], LOOP[1] + 1):
                targets.append((tv, i, e, d, {"i": i}, kind))
    if via and via[1] == "after":
        eqs.append(via_eq)
    return Model("M", declarations(via=bool(via)), eqs), targets


def categories(model):
    """name -> category, from the declarations and the equations alone."""
    ders = set()

    def walk(n):
        if isinstance(n, tuple):
            if n and n[0] == "der" and n[1][0] == "var":
                ders.add(n[1][1])
            for x in n:
                walk(x)
        elif isinstance(n, list):
            for x in n:
                walk(x)

    walk(model.eqs)
    cat = {"time": "time"}
    for d in model.decls:
        if d.prefix == "constant":
            cat[d.name] = "constant"
        elif d.prefix == "parameter":
            cat[d.name] = "parameter"
        elif d.prefix == "input":
            cat[d.name] = "fixed-input" if d.mods.get("fixed") == ("bool", True) else "free-input"
        elif d.name in ders:
            cat[d.name] = "state"
        else:
            cat[d.name] = "algebraic"
    return cat


def free_categories(n, cat, out=None):
    """Categories of the free symbols of an expression (a literal-only expression gives the empty set)."""
    out = set() if out is None else out
    k = n[0]
    if k in ("var", "idx"):
        out.add(cat[n[1]])
    elif k == "der":
        out.add("der-state")
    elif k == "bin":
        free_categories(n[2], cat, out)
        free_categories(n[3], cat, out)
    elif k == "call" and n[1] == "delay":
        # a delayed signal: 'delayed-<category>' for what is delayed; its own duration is a duration of the model
        inner = free_categories(n[2][0], cat)
        out.update("delayed-" + c for c in (inner or {"literal"}))
        free_categories(n[2][1], cat, out)
    elif k != "num":
        raise ValueError(n)
    return out


def klass(c, eliminated=False):
    """'ok' | 'either' | 'bad' for one category label of a duration."""
    if c in ALLOWED:
        return "ok"
    if c.startswith("algebraic="):
        # tau, an algebraic variable (reject).  Where an option replaces tau by its defining expression the
        # duration is that expression's business ('aliases that move a symbol's category': no verdict there).
        ks = {klass(x) for x in c.split("=", 1)[1].split("&")}
        return "either" if eliminated and "bad" not in ks else "bad"
    if c.startswith("delayed-"):
        base = c
        while base.startswith("delayed-"):
            base = base[len("delayed-") :]
        return "either" if base in ALLOWED else "bad"
    return "bad"


def duration_categories(spec):
    """All category labels of all delay durations of the model (incl. the durations of delays nested in a duration
    and of the delay that defines tau)."""
    model, targets = build(spec)
    cat = categories(model)
    via = spec.get("via")
    labels = set()
    if via:
        e, d = split_delayed(via[0])
        labels |= free_categories(sym_node(d), cat)  # the defining delay's own duration
        defined_by = {"delayed-" + c for c in free_categories(sym_node(e), cat)} | ({"parameter"} if via[1] == "plus" else set())
        cat[TAU] = "algebraic=" + "&".join(sorted(defined_by))
    for _, _, _, d, _, _ in targets:
        labels |= free_categories(d, cat)
    return labels


def verdict(spec, optname="default"):
    """('accept' | 'reject' | 'either', sorted disallowed / undecided categories) by the reference."""
    labels = duration_categories(spec)
    elim = eliminates_tau(optname)
    bad = sorted(c for c in labels if klass(c, elim) == "bad")
    if bad:
        return "reject", bad
    either = sorted(c for c in labels if klass(c, elim) == "either")
    return ("either", either) if either else ("accept", [])


def delay_kind(delay):
    return "%s-%s" % (delay[0], delay[1])


def spec_kinds(spec):
    return "+".join(delay_kind(d) for d in spec["delays"]) + (":" + spec["layout"] if spec["layout"] else "")


VALUES = [1.7, -2.3, 0.6, 3.1, -0.9, 2.2, 4.3, -1.4, 0.35, 5.9, -3.7, 1.1, 2.9, -0.45, 6.7, 0.8, -5.3, 3.9, 1.35, -2.6, 7.9, 0.15]
NPOINTS = 3


def make_env(point, seed, live_parameters):
    """One grid point, consistent with the model's own equations (w = 3*x, der(s) = x, der(s2) = w) so that any
    alias elimination pymoca performs leaves the values unchanged.  Parameters that are still arguments of the
    model's functions take grid values, eliminated ones their declared values; constants their declared values."""
    k = [(point * 5 + seed * 3) % len(VALUES)]

    def nxt():
        v = VALUES[k[0] % len(VALUES)]
        k[0] += 1
        return v

    env = {"time": 0.5 + point + 0.25 * (seed % 4)}
    env["x"] = nxt()
    env["xv"] = np.array([nxt(), nxt(), nxt()])
    for n in ("y1", "y2"):
        env[n] = nxt()
    for n in ("yv", "zv"):
        env[n] = np.array([nxt(), nxt(), nxt()])
    env["w"] = 3 * env["x"]
    env["s"], env["s2"] = nxt(), nxt()
    env["der(s)"], env["der(s2)"] = env["x"], env["w"]
    env["c"] = 1.25
    env["c2"] = 2 * env["c"]
    g = abs(nxt()) + 0.5
    env["p"] = g if "p" in live_parameters else P_DECLARED
    env["q"] = abs(nxt()) + 0.25
    env["p2"] = 3 * env["p"]
    scale = abs(nxt()) + 0.5 if "pv" in live_parameters else 1.0
    env["pv"] = np.array(PV_DECLARED) * scale
    for n in ("uf", "uf2", "u", "u2"):
        env[n] = abs(nxt()) + 0.125
    for n in ("ufv", "uv"):
        env[n] = np.array([abs(nxt()) + 0.125 for _ in range(3)])
    return env


# ---- driving pymoca ---------------------------------------------------------------------------------------



class Slots:
    """The scalar argument slots of the model's 7-argument functions and their values."""

    def __init__(self, model, env):
        self.time = float(env["time"])
        self.groups = []  # per group: list of [variable name, element, value]
        self.delay_slots = {}  # (input name, element) -> (group index, position)
        dcount = 0
        delay_names = set(model.delay_states)
        for gi, g in enumerate(cas.GROUPS):
            slots = []
            for v in getattr(model, g):
                name, shape = v.symbol.name(), v.symbol.shape
                n = shape[0] * shape[1]
                if name in delay_names or name.startswith("_pymoca_delay_"):
                    for j in range(n):
                        self.delay_slots[(name, j)] = (gi, len(slots))
                        slots.append([name, j, 100.0 + 7.0 * dcount + 0.5 * (dcount % 2)])
                        dcount += 1
                    continue
                if name in env:
                    vals = cas.flat(env[name], shape)
                else:
                    m = _ELEM.match(name)
                    if not m or m.group(1) not in env:
                        raise KeyError("no value for model variable %r" % name)
                    idx = tuple(int(i) - 1 for i in m.group(2).split(","))
                    a = np.asarray(env[m.group(1)], dtype=float)
                    idx = idx[: a.ndim] if all(i == 0 for i in idx[a.ndim :]) else idx
                    vals = [float(a[idx])] * n
                for j in range(n):
                    slots.append([name, j, vals[j]])
            self.groups.append(slots)

    def args(self, bump=None):
        out = [self.time]
        for gi, slots in enumerate(self.groups):
            vec = [s[2] for s in slots]
            if bump is not None and bump[0] == gi:
                vec[bump[1]] += 1.0
            out.append(vec)
        return out

    def find(self, group, name, elem):
        gi = cas.GROUPS.index(group)
        for pos, s in enumerate(self.groups[gi]):
            if s[0] == name and s[1] == elem:
                return gi, pos
        return None


def call_list(f, args):
    import casadi as ca

    out = f.call([ca.DM(a) for a in args])
    return [np.array(ca.DM(o)).flatten(order="F") for o in out]


def residual_rows(fres, slots, bump):
    r = call_list(fres, slots.args(bump))
    return r[0] if r else np.zeros(0)


def link_targets(model, slots, targets):
    """target index -> list of (delay input name, element) that the target's equation refers to."""
    fres = model.dae_residual_function  # (a property that builds the function: once)
    r0 = residual_rows(fres, slots, None)
    rows_of_delay = {}
    for key, where in slots.delay_slots.items():
        rows_of_delay[key] = set(np.nonzero(np.abs(residual_rows(fres, slots, where) - r0) > 1e-9)[0].tolist())
    links = {}
    for ti, (tv, elem, _, _, _, _) in enumerate(targets):
        where = None
        if elem is None:
            where = slots.find("alg_states", tv, 0)
        else:
            where = slots.find("alg_states", tv, elem - 1) or slots.find("alg_states", "%s[%d]" % (tv, elem), 0)
        if where is not None:
            rows = set(np.nonzero(np.abs(residual_rows(fres, slots, where) - r0) > 1e-9)[0].tolist())
            links[ti] = sorted(k for k, rk in rows_of_delay.items() if rk & rows)
            continue
        # the target was eliminated: it must be recorded as an alias of the delay state
        found = []
        names = [tv] if elem is None else ["%s[%d]" % (tv, elem), tv]
        for nm in names:
            canon, sign = model.alias_relation.canonical_signed(nm)
            if canon == nm:
                continue
            if (canon, 0) in slots.delay_slots and sign == 1:
                if nm == tv and elem is not None:
                    if (canon, elem - 1) in slots.delay_slots:
                        found.append((canon, elem - 1))
                else:
                    found.append((canon, 0))
                break
        links[ti] = found
    return links


def same(a, b):
    return abs(a - b) <= 1e-9 * max(1.0, abs(a), abs(b))


def examine(model, spec, targets, optname, seed, text):
    """Violations of the 'arguments preserved' clause for one accepted model."""
    case = {"spec": spec, "opt": optname, "text": text}
    kinds = spec_kinds(spec)
    try:
        f = model.delay_arguments_function
        n_out = f.n_out()
    except Exception as e:
        why = "free-variables" if "are free" in str(e) else type(e).__name__
        return [("delay-arguments-function-raises:%s:%s" % (why, optname), "accepted by transfer_model(%s) but delay_arguments_function cannot be built: %s\n%s" % (OPTIONS[optname], str(e).strip().splitlines()[-1][:300], text), case)]
    states = list(model.delay_states)
    if n_out != 2 * len(states) or len(model.delay_arguments) != len(states):
        return [("delay-argument-count:%s" % optname, "%d delay states %r but %d outputs / %d delay_arguments\n%s" % (len(states), states, n_out, len(model.delay_arguments), text), case)]
    input_names = [v.symbol.name() for v in model.inputs]
    for s in states:
        if input_names.count(s) != 1:
            return [("delay-state-not-an-input:%s" % optname, "delay state %r is not (exactly once) among the inputs %r\n%s" % (s, input_names, text), case)]
    live = {v.symbol.name().split("[")[0] for v in model.parameters}
    viol = []
    links = None
    for point in range(NPOINTS):
        env = make_env(point, seed, live)
        try:
            slots = Slots(model, env)
            outs = call_list(f, slots.args())
            if links is None:
                links = link_targets(model, slots, targets)
        except Exception as e:
            return [("evaluation-raises:%s:%s" % (type(e).__name__, optname), "delay_arguments_function / dae_residual_function cannot be evaluated: %r\n%s" % (e, text), case)]
        if point == 0:
            used = set()
            for ti, t in enumerate(targets):
                if len(links[ti]) != 1:
                    viol.append(("delay-target-unlinked:%s:%s" % (t[5], optname), "%s%s = delay(...) refers to delay inputs %r (expected exactly one)\n%s" % (t[0], "" if t[1] is None else "[%d]" % t[1], links[ti], text), case))
                used.update(links[ti])
            spare = sorted(set(slots.delay_slots) - used)
            if spare and not viol:
                viol.append(("spurious-delay-state:%s:%s" % (kinds, optname), "delay inputs %r belong to no delay() of the source\n%s" % (spare, text), case))
            if viol:
                return viol
        for ti, (tv, elem, e, d, lenv, tkind) in enumerate(targets):
            name, j = links[ti][0]
            k = states.index(name) if name in states else None
            if k is None:
                viol.append(("delay-input-not-a-delay-state:%s" % optname, "%r carries a delay but is not in delay_states %r\n%s" % (name, states, text), case))
                continue
            renv = dict(env)
            renv.update(lenv)
            want_e, want_d = float(M.evn(e, renv)), float(M.evn(d, renv))
            got_e, got_d = outs[2 * k], outs[2 * k + 1]
            tn = "%s%s" % (tv, "" if elem is None else "[%d]" % elem)
            if j >= got_e.size:
                viol.append(("delayed-expression-shape:%s:%s" % (tkind, optname), "output %d has %d elements, delay state %r element %d wanted\n%s" % (2 * k, got_e.size, name, j, text), case))
                continue
            if not same(got_e[j], want_e):
                viol.append(("wrong-delayed-expression:%s:%s" % (tkind, optname), "%s = delay(%s, %s) is delay state %s[%d] (position %d of delay_states); delay_arguments_function gives expression %r there, the source expression evaluates to %r\n%s" % (tn, M.pe(e), M.pe(d), name, j, k, float(got_e[j]), want_e, text), case))
            gd = got_d[0] if got_d.size == 1 else (got_d[j] if j < got_d.size else float("nan"))
            if not same(gd, want_d):
                viol.append(("wrong-duration:%s:%s" % (tkind, optname), "%s = delay(%s, %s) is delay state %s[%d] (position %d of delay_states); delay_arguments_function gives duration %r there, the source duration evaluates to %r\n%s" % (tn, M.pe(e), M.pe(d), name, j, k, float(gd), want_d, text), case))
        if viol:
            break
    return viol


def run_model(folder, optname):
    """One transfer_model call on the scratch folder (cache and codegen off)."""
    from pymoca.backends.casadi.api import transfer_model

    return transfer_model(folder, "M", dict(OPTIONS[optname]))


def check(job):
    spec, optnames, seed = job
    model, targets = build(spec)
    text = model.text()
    folder = common.new_scratch("c22")
    with open(os.path.join(folder, "M.mo"), "w") as f:
        f.write(text)
    results = []
    try:
        for optname in optnames:
            case = {"spec": spec, "opt": optname, "text": text}
            want, bad = verdict(spec, optname)
            r = {"opt": optname, "viol": [], "outcome": None, "exc": None, "want": want}
            try:
                m = run_model(folder, optname)
                err = None
            except Exception as e:
                err = e
            if err is not None:
                r["outcome"] = "ValueError" if type(err) is ValueError else "other-exception"
                r["exc"] = common.exc_sig(err)
                if want == "accept":
                    r["viol"].append(["allowed-duration-rejected", r["exc"], "every duration depends only on literals, constants, parameters and fixed inputs, but transfer_model(%s) raises %s: %s\n%s" % (OPTIONS[optname], type(err).__name__, str(err).strip()[:200], text), case])
            else:
                r["outcome"] = "accepted"
                if want == "reject":
                    r["viol"].append(("disallowed-duration-accepted:%s" % "+".join(bad), "a delay duration depends on %s, but transfer_model(%s) accepts the model (delay_arguments %r)\n%s" % (", ".join(bad), OPTIONS[optname], [str(a.duration) for a in m.delay_arguments], text), case))
                elif want == "accept":
                    r["viol"] += examine(m, spec, targets, optname, seed, text)
                # want == "either" (the delayed value of a constant / parameter / fixed-input expression): no demand
            results.append(r)
    finally:
        shutil.rmtree(folder, ignore_errors=True)
    want, bad = verdict(spec)
    return {"want": want, "bad": bad, "text": text, "results": results}


def nontrivial(spec):
    """Does the verdict hinge on a symbol category?  (some duration mentions a declared symbol or time)"""
    return any(not s[0].isdigit() for _, _, dur in spec["delays"] for s in dur[::2])


def run(ctx):
    sp = specs(ctx.tier)
    rot = (ctx.seed * 37) % len(sp)
    sp = sp[rot:] + sp[:rot]
    with common.Pool() as pool:
        res = pool.map(check, [(s, o, ctx.seed) for s, o in sp], chunksize=4)

    # attribution of 'should accept but raises': a two-delay model is charged to one of its delays when that
    # delay alone (same options) raises the same way, otherwise to the combination
    single_fail = {}
    for (s, _), r in zip(sp, res):
        if len(s["delays"]) == 1:
            for o in r["results"]:
                if o["exc"] and r["want"] == "accept":
                    single_fail[(delay_kind(s["delays"][0]), tuple(s["delays"][0][2]), o["opt"])] = o["exc"]
    stats = {"accept": 0, "reject": 0, "either": 0}
    delayed_models, via_models = 0, 0
    outcomes = {}
    per_opt = {}
    runs = 0
    texts, nontriv, mixed = set(), set(), 0
    for (s, _), r in zip(sp, res):
        texts.add(r["text"])
        if nontrivial(s):
            nontriv.add(r["text"])
        stats[r["want"]] += 1
        via_models += bool(s.get("via"))
        delayed_models += bool(s.get("via")) or any(t.startswith("delay(") for d in s["delays"] for t in d[2][::2])
        if r["want"] == "reject" and any(set(free_sym_cats(d[2])) & ALLOWED for d in s["delays"]):
            mixed += 1
        default_ok = any(o["opt"] == "default" and not o["exc"] for o in r["results"])
        for o in r["results"]:
            runs += 1
            key = "%s/%s" % (o["want"], o["outcome"])
            outcomes[key] = outcomes.get(key, 0) + 1
            per_opt[o["opt"]] = per_opt.get(o["opt"], 0) + 1
            for v in o["viol"]:
                if v[0] == "allowed-duration-rejected":
                    _, exc, msg, case = v
                    if exc.startswith("ValueError@"):
                        # the documented rejection, on allowed durations: the feature is what the durations mention
                        feature = "+".join(sorted({c for d in s["delays"] for c in free_sym_cats(d[2])}))
                    else:
                        charged = [
                            delay_kind(d)
                            for d in s["delays"]
                            if exc in (single_fail.get((delay_kind(d), tuple(d[2]), o["opt"])), single_fail.get((delay_kind(d), tuple(d[2]), "default")))
                        ]
                        feature = charged[0] if charged else spec_kinds(s)
                    sig = "allowed-duration-rejected:%s:%s" % (exc, feature)
                    if default_ok:
                        sig += ":" + o["opt"]
                    ctx.violation(sig, msg, case)
                else:
                    ctx.violation(v[0], v[1], v[2])
    for k in (0, len(sp) // 2, len(sp) - 1):
        ctx.sample({"spec": sp[k][0], "options": sp[k][1], "reference_verdict": res[k]["want"], "outcomes": {o["opt"]: o["outcome"] for o in res[k]["results"]}, "model": res[k]["text"]})
    ctx.coverage.update(
        {
            "evaluations": runs,
            "programs": len(texts),
            "distinct_nontrivial": len(nontriv),
            "reference_accept": stats["accept"],
            "reference_reject": stats["reject"],
            "reference_no_verdict": stats["either"],
            "models_with_a_delayed_signal_in_a_duration": delayed_models,
            "of_which_via_an_algebraic_variable": via_models,
            "reject_with_allowed_symbols_mixed_in": mixed,
            "outcomes_by_reference_verdict": outcomes,
            "runs_per_option_set": per_opt,
            "durations": len(durations(ctx.tier)),
            "grid_points": NPOINTS,
            "exhaustive": True,
            "rule": "one-delay models: every duration (each of the %d symbols alone -- two or three per category incl. a fixed state, an input with "
            "fixed=false, an unvalued and an expression-valued parameter, elements of array parameter / fixed input / free input; every ordered pair of categories joined by + and by *, "
            "same-category pairs over two different symbols) x placement/expression {outside: x, 2*x+p, xv[2], whole vector xv; inside "
            "for i in 2:3: x, 2*xv[i]+p, xv[i]%s} x option sets; two-delay models: every ordered pair of single-symbol durations "
            "(%s) x layouts {out/out, out/loop, loop/out, same loop, two loops} x expression pairs x option sets%s. Option sets: default, "
            "expand_vectors (+expand_mx), detect_aliases, replace_constant_*, replace_parameter_*, reduce_affine_expression, unroll_loops=False "
            "(thorough: their combinations, expand_mx alone, replace_parameter_expressions alone). Each (model, option set) "
            "is one transfer_model call on a scratch folder. Non-trivial = some duration mentions a declared symbol or time, so the verdict "
            "hinges on its category (literal-only durations are the trivial rest). Tenth category 'delayed signal': %d durations delay(E, D) "
            "used like the other symbols (alone, in the category pairs, in the two-delay models%s), E over state / algebraic / free input (scalar and "
            "array element) / der(state) / time / a mixed expression / constant, parameter, fixed-input expressions, D over literal, constant, "
            "parameter, fixed input, a sum, another delayed signal, and disallowed symbols; via-variable models 'tau = delay(E, D)' (before or after "
            "its use, or tau = delay(E, D) + p) with the duration tau, tau + p, uf * tau, additionally under eliminable_variable_expression=tau "
            "(+expand_vectors, +detect_aliases). Reference: a delayed signal whose E mentions a state, derivative, algebraic variable, free input or "
            "time must be rejected; D is judged as a duration itself; tau is an algebraic variable (reject); no verdict is demanded when E is built "
            "from constants, parameters and fixed inputs only (and, for tau, the option set replaces tau by its definition)."
            % (
                len(ALL_SINGLES),
                ", xv[i-1]" if ctx.tier == "thorough" else "",
                "first symbol of each category" if ctx.tier == "quick" else "all %d symbols" % len(ALL_SINGLES),
                "; plus every two-symbol duration next to p / u in either position" if ctx.tier == "thorough" else "",
                len(DELAYED),
                ": the first" if ctx.tier == "quick" else ": four",
            ),
        }
    )
    ctx.assumptions.append(
        "the loop index itself as a duration (delay(x, i)) is outside the alphabet, loop-indexed array elements (pv[i], pv[i-1]) are in it; any exception counts as a "
        "rejection of a should-reject model, ValueError is the documented one (counted separately); values are compared on %d grid points "
        "consistent with the model's alias equations; the statement gives no verdict for a duration that is the delayed value of a "
        "constant / parameter / fixed-input expression (source reading: allowed; model reading: the delay state is a non-fixed input), such "
        "models are run but not judged; a variable attribute fixed=true on tau is outside the alphabet; transfer_model parses through pymoca's default parse cache (worker-private folder)" % NPOINTS
    )


_BASE_CAT = None


def free_sym_cats(dur):
    global _BASE_CAT
    if _BASE_CAT is None:
        _BASE_CAT = categories(Model("M", declarations(via=True), base_equations()))
    cat = _BASE_CAT
    return sorted(free_categories(dur_node(tuple(dur)), cat) | ({"literal"} if any(s[0].isdigit() for s in dur[::2]) else set()))


def replay(case):
    spec, optname = case["spec"], case["opt"]
    r = check((spec, [optname], 0))
    bad = []
    for o in r["results"]:
        for v in o["viol"]:
            bad.append(v[-2])
    print(r["text"])
    print("options:", OPTIONS[optname], "reference:", verdict(spec, optname), "outcome:", [o["outcome"] for o in r["results"]])
    for b in bad:
        print("  " + b.split("\n")[0])
    return not bad
