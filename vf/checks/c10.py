"""C10 -- the generated CasADi model classifies every variable exactly once.

E4: every single variable configuration (prefix combination x type x where der() is applied) and every
ordered pair of configurations, in a model that also has a helper variable and a nested component.
Reference classification: constant > parameter > top-level input > differentiated > algebraic; String
constants / parameters in the string lists; one derivative per state; declaration order kept within a
category (among variables of one class); outputs = output-prefixed states and algebraics (top level).
"""
import itertools

from vf.core import cas, common

LEVEL = "exploration"

VARIABILITY = ["", "discrete", "parameter", "constant"]
CAUSALITY = ["", "input", "output"]
DER_USES = ["none", "direct", "in-expression", "of-sum", "initial-only"]


def configs(tier):
    out = []
    for var in VARIABILITY:
        for cau in CAUSALITY:
            uses = DER_USES if var == "" else ["none"]
            for use in uses:
                out.append(("Real", var, cau, use))
            out.append(("Integer", var, cau, "none"))
            out.append(("Boolean", var, cau, "none"))
    out.append(("String", "parameter", "", "none"))
    out.append(("String", "constant", "", "none"))
    return out


def pair_configs(tier):
    cs = configs(tier)
    if tier == "quick":
        return [c for c in cs if c[0] == "Real" and c[3] in ("none", "direct", "in-expression")] + [("Integer", "parameter", "", "none"), ("Boolean", "", "", "none"), ("String", "parameter", "", "none")]
    return cs


VALUE = {"Real": "1.5", "Integer": "2", "Boolean": "true", "String": '"txt"'}


def build(cfgs, nested_use):
    """Model text + reference classification for variables v1.. with the given configurations."""
    decl, eqs, ieqs = [], [], []
    ref = {}  # name -> category
    differentiated = set()
    outputs = []
    names = []
    for k, (typ, var, cau, use) in enumerate(cfgs):
        v = ("zv", "av", "mv", "bv", "yv")[k] + str(k + 1)  # declaration order is not alphabetical order
        names.append(v)
        prefix = " ".join(x for x in (var, cau) if x)
        val = " = " + VALUE[typ] if var in ("parameter", "constant") else ""
        decl.append("  %s%s %s%s;" % (prefix + " " if prefix else "", typ, v, val))
        if use == "direct":
            eqs.append("  der(%s) = 1;" % v)
            differentiated.add(v)
        elif use == "in-expression":
            eqs.append("  w = 2 * der(%s) + 1;" % v)
            differentiated.add(v)
        elif use == "of-sum":
            eqs.append("  der(%s + w) = 1;" % v)
            differentiated |= {v, "w"}
        elif use == "initial-only":
            ieqs.append("  der(%s) = 0;" % v)
            differentiated.add(v)
        elif var in ("", "discrete") and cau != "input":
            eqs.append("  %s = %s;" % (v, VALUE[typ]))
    decl.append("  Real w;")
    decl.append("  Sub n;")
    if nested_use == "nested-der":
        eqs.append("  der(n.s) = 1;")
        differentiated.add("n.s")
    eqs.append("  n.so = n.si;")
    for k, (typ, var, cau, use) in enumerate(cfgs):
        v = names[k]
        if var == "constant":
            ref[v] = "string_constants" if typ == "String" else "constants"
        elif var == "parameter":
            ref[v] = "string_parameters" if typ == "String" else "parameters"
        elif cau == "input":
            ref[v] = "inputs"
        elif v in differentiated:
            ref[v] = "states"
        else:
            ref[v] = "alg_states"
        if cau == "output" and ref[v] in ("states", "alg_states"):
            outputs.append(v)
    ref["w"] = "states" if "w" in differentiated else "alg_states"
    ref["n.s"] = "states" if "n.s" in differentiated else "alg_states"
    ref["n.si"] = "alg_states"  # input/output only count at the top level
    ref["n.so"] = "alg_states"
    ref["n.sp"] = "parameters"
    text = (
        "model Sub\n  Real s;\n  input Real si;\n  output Real so;\n  parameter Real sp = 1;\nend Sub;\n\n"
        "model M\n" + "\n".join(decl) + "\n" + ("initial equation\n" + "\n".join(ieqs) + "\n" if ieqs else "") + "equation\n" + "\n".join(eqs) + "\nend M;\n"
    )
    return text, ref, outputs, names


PYTYPE = {"Real": float, "Integer": int, "Boolean": bool}


def check(job):
    cfgs, nested_use = job
    text, ref, outputs, names = build(cfgs, nested_use)
    case = {"text": text}
    try:
        m = cas.generate(text, "M")
    except Exception as e:
        return [("generate-raises:" + common.exc_sig(e), "model does not generate: %r\n%s" % (e, text), case)]
    viol = []
    got = {}
    lists = {g: [v.symbol.name() for v in getattr(m, g)] for g in ("states", "alg_states", "inputs", "constants", "parameters")}
    lists["string_constants"] = [v.name for v in m.string_constants]
    lists["string_parameters"] = [v.name for v in m.string_parameters]
    for g, ns in lists.items():
        for n in ns:
            got.setdefault(n, []).append(g)
    for n, cat in ref.items():
        g = got.get(n, [])
        if g != [cat]:
            k = names.index(n) if n in names else None
            what = "%s %s %s der:%s" % cfgs[k] if k is not None else n
            viol.append(("misclassified:%s:%s->%s" % (what.replace(" ", "_"), cat, "+".join(g) or "nowhere"), "%s should be in %s exactly once, found in %r\n%s" % (n, cat, g, text), case))
    extra = sorted(set(got) - set(ref))
    if extra:
        viol.append(("unexpected-variable", "model has variables %r that the source does not declare\n%s" % (extra, text), case))
    ders = [v.symbol.name() for v in m.der_states]
    if ders != ["der(%s)" % s for s in lists["states"]]:
        viol.append(("der-states-mismatch", "der_states %r do not match states %r one to one\n%s" % (ders, lists["states"], text), case))
    # declaration order within a category, among the top-level variables
    for g, ns in lists.items():
        top = [n for n in ns if n in names or n == "w"]
        order = [n for n in names + ["w"] if n in top]
        if top != order:
            viol.append(("order-within-category:" + g, "%s lists %r, declaration order is %r\n%s" % (g, top, order, text), case))
    if sorted(m.outputs) != sorted(outputs) or len(m.outputs) != len(set(m.outputs)):
        viol.append(("outputs", "outputs %r, expected %r\n%s" % (m.outputs, outputs, text), case))
    for k, (typ, var, cau, use) in enumerate(cfgs):
        if typ in PYTYPE:
            for g in ("states", "alg_states", "inputs", "constants", "parameters"):
                for v in getattr(m, g):
                    if v.symbol.name() == names[k] and v.python_type is not PYTYPE[typ]:
                        viol.append(("python-type:" + typ, "%s is %s but python_type is %s\n%s" % (names[k], typ, v.python_type.__name__, text), case))
    return viol


def jobs(tier):
    out = []
    for c in configs(tier):
        out.append(((c,), "none"))
        out.append(((c,), "nested-der"))
    pc = pair_configs(tier)
    for a, b in itertools.product(pc, repeat=2):
        out.append(((a, b), "none"))
    if tier == "thorough":
        core = [c for c in configs(tier) if c[0] == "Real" and c[3] in ("none", "direct")]
        for t in itertools.product(core, repeat=3):
            out.append((t, "nested-der"))
    return out


def run(ctx):
    js = jobs(ctx.tier)
    with common.Pool() as pool:
        res = pool.map(check, js, chunksize=8)
    texts = set()
    nontriv = 0
    for (cfgs, nu), viol in zip(js, res):
        for sig, msg, case in viol:
            ctx.violation(sig, msg, case)
        if any(c[1] or c[2] or c[3] != "none" for c in cfgs):
            nontriv += 1
    for k in (0, len(js) // 2, len(js) - 1):
        ctx.sample({"configs": js[k][0], "nested": js[k][1], "model": build(*js[k])[0]})
    ctx.coverage.update(
        {
            "evaluations": len(js),
            "distinct_nontrivial": nontriv,
            "single_configurations": len(configs(ctx.tier)),
            "exhaustive": True,
            "rule": "all single variable configurations (4 variabilities x 3 causalities x {Real with 5 der() placements, Integer, "
            "Boolean} + String parameter/constant), each with and without der() on a nested component variable; all ordered "
            "pairs of configurations (quick: of the Real none/direct/in-expression configurations plus three others; thorough: "
            "all, plus all triples of the Real none/direct ones). Non-trivial = at least one prefix or der() placement is present.",
        }
    )
    ctx.assumptions.append("a variable differentiated only in an initial equation counts as differentiated (as the quantifier lists it)")


def replay(case):
    for j in jobs("thorough"):
        if build(*j)[0] == case["text"]:
            v = check(j)
            print(case["text"], [m.split("\n")[0] for _, m, _ in v] or "ok")
            return not v
    return True
