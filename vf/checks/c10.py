"""C10 -- the generated CasADi model classifies every variable exactly once.

E4: every single variable configuration (prefix combination x type x der() placement) and every ordered pair of
core configurations, in a model that also has helper variables and a component nested two levels deep whose
members carry every causality on plain and on derived (type alias) elementary types.

der() placement = site x argument tree: the argument of der() is every expression tree with <= K operator nodes
(binary + - *, unary -; K = 2 quick, 3 thorough) with the variable under test in every leaf position and helper
variables (thorough, <= 2 operator nodes: also literals) in the others; sites: der(E) as a side of an equation, inside a larger
expression, only in an initial equation; for nested component variables: written in the top-level class with dotted
names, in the component's own equations, in the component's own initial equations, one and two levels deep.

Reference classification: constant > parameter > top-level input > differentiated > algebraic (differentiated =
occurs anywhere inside the argument of a der()); String constants / parameters in the string lists; one derivative
per state; declaration order kept within a category (among variables of one class); outputs = output-prefixed
states and algebraics (top level only: input/output do not count on component members, whatever their type);
every symbol the equations depend on is a listed variable.
"""
import itertools

from vf.core import cas, common

LEVEL = "exploration"

VARIABILITY = ["", "discrete", "parameter", "constant"]
CAUSALITY = ["", "input", "output"]
SITES = ["eq", "expr", "init"]
NESTED_SITES = ["top", "own-eq", "own-init"]
BINOPS = ["+", "-", "*"]

# derived elementary types: with a modification, with a bound, bare
ALIASES = {"VR": "Real", "VI": "Integer", "VB": "Boolean"}
ALIAS_DECL = 'type VR = Real(unit = "V");\ntype VI = Integer(min = 0);\ntype VB = Boolean;\n\n'
BASE = {"Real": "Real", "Integer": "Integer", "Boolean": "Boolean", "String": "String", "VR": "Real", "VI": "Integer", "VB": "Boolean"}
VALUE = {"Real": "1.5", "Integer": "2", "Boolean": "true", "String": '"txt"'}
PYTYPE = {"Real": float, "Integer": int, "Boolean": bool}

# ---------------------------------------------------------------------------------------------------------------
# der() argument trees: ("v",) the variable under test, ("h", i) i-th other leaf, ("neg", t), (op, l, r)


def shapes(k):
    """All operator trees with exactly k operator nodes (leaves unlabelled: None)."""
    if k == 0:
        return [None]
    out = [("neg", s) for s in shapes(k - 1)]
    for i in range(k):
        for left in shapes(i):
            for right in shapes(k - 1 - i):
                for op in BINOPS:
                    out.append((op, left, right))
    return out


def n_leaves(s):
    if s is None:
        return 1
    if s[0] == "neg":
        return n_leaves(s[1])
    return n_leaves(s[1]) + n_leaves(s[2])


def label(s, pos, counter=None):
    """Shape -> tree with leaf number `pos` = the variable under test and the others numbered helpers."""
    counter = counter if counter is not None else [0, 0]
    if s is None:
        k = counter[0]
        counter[0] += 1
        if k == pos:
            return ("v",)
        counter[1] += 1
        return ("h", counter[1])
    if s[0] == "neg":
        return ("neg", label(s[1], pos, counter))
    left = label(s[1], pos, counter)
    return (s[0], left, label(s[2], pos, counter))


def trees(kmax, kmin=0):
    out = []
    for k in range(kmin, kmax + 1):
        for s in shapes(k):
            for pos in range(n_leaves(s)):
                out.append(label(s, pos))
    return out


def n_ops(t):
    if t[0] in ("v", "h"):
        return 0
    return 1 + sum(n_ops(c) for c in t[1:])


def leaves(t):
    if t[0] in ("v", "h"):
        return [t]
    return [x for c in t[1:] for x in leaves(c)]


def position(t):
    return [x[0] for x in leaves(t)].index("v")


PREC = {"+": 1, "-": 1, "*": 2}


def show(t, name, parent=None, side=None):
    """Modelica text with the fewest parentheses that keep the tree shape.  name: leaf -> text."""
    if t[0] in ("v", "h"):
        return name(t)
    if t[0] == "neg":
        c = t[1]
        inner = show(c, name, "neg", None)
        s = "-" + (inner if c[0] in ("v", "h") else "(" + inner + ")")
        if parent is None or (parent in ("+", "-") and side == "L"):
            return s
        return "(" + s + ")"
    s = show(t[1], name, t[0], "L") + " " + t[0] + " " + show(t[2], name, t[0], "R")
    if parent in PREC and (PREC[parent] > PREC[t[0]] or (PREC[parent] == PREC[t[0]] and side == "R")):
        return "(" + s + ")"
    return s


LEAF = ("v",)
SUM = ("+", ("v",), ("h", 1))  # der(v + h1)
PROD_SUM = ("+", ("*", ("h", 1), ("h", 2)), ("v",))  # der(h1 * h2 + v): the variable follows a compound sub-expression


def core_trees():
    """One tree per structural shape and leaf position: + at the top, * below (<= 2 operator nodes)."""
    out = []
    for t in trees(2):
        ops = []

        def walk(x, depth):
            if x[0] in ("v", "h"):
                return
            if x[0] != "neg":
                ops.append((x[0], depth))
            for c in x[1:]:
                walk(c, depth + 1)

        walk(t, 0)
        depths = sorted({d for _, d in ops})
        if all(op == ("+" if d == depths[0] else "*") for op, d in ops):
            out.append(t)
    return out


def use_label(use):
    if use is None:
        return "none"
    site, tree, fill = use
    return "%s/%dop/pos%d%s" % (site, n_ops(tree), position(tree), "" if fill == "var" else "/" + fill)


# ---------------------------------------------------------------------------------------------------------------
# configurations


def tree_uses(tier, sites):
    """(site, tree, fill) for every site, every tree within the tier's bound, every fill of the other leaves."""
    kmax = 2 if tier == "quick" else 3
    fills = ["var"] if tier == "quick" else ["var", "lit"]
    out = []
    for site in sites:
        for t in trees(kmax):
            for fill in fills:
                if fill == "lit" and (len(leaves(t)) == 1 or n_ops(t) > 2):
                    continue  # literals: only where there is another leaf, and only up to two operator nodes
                out.append((site, t, fill))
    return out


def configs(tier):
    out = []
    for var in VARIABILITY:
        for cau in CAUSALITY:
            uses = [None] + (tree_uses(tier, SITES) if var == "" else [])
            for use in uses:
                out.append(("Real", var, cau, use))
            out.append(("Integer", var, cau, None))
            out.append(("Boolean", var, cau, None))
            # derived types: the same prefixes; der() through the leaf and the two reference trees at every site
            alias_uses = [None] + ([(s, t, "var") for s in SITES for t in (LEAF, SUM, PROD_SUM)] if var == "" else [])
            for use in alias_uses:
                out.append(("VR", var, cau, use))
            out.append(("VI", var, cau, None))
            out.append(("VB", var, cau, None))
    out.append(("String", "parameter", "", None))
    out.append(("String", "constant", "", None))
    return out


def is_basic(c):
    """The configurations of the first round: plain types, der(v) / in an expression / of a sum / initial only."""
    typ, var, cau, use = c
    if typ not in ("Real", "Integer", "Boolean", "String"):
        return False
    return use is None or use in (("eq", LEAF, "var"), ("expr", LEAF, "var"), ("eq", SUM, "var"), ("init", LEAF, "var"))


def pair_configs(tier):
    cs = configs(tier)
    if tier == "quick":
        keep = (None, ("eq", LEAF, "var"), ("expr", LEAF, "var"))
        out = [c for c in cs if c[0] == "Real" and c[3] in keep]
        out += [("Real", "", "", ("eq", PROD_SUM, "var")), ("VR", "", "input", None), ("VR", "", "output", ("eq", LEAF, "var"))]
        out += [("Integer", "parameter", "", None), ("Boolean", "", "", None), ("String", "parameter", "", None)]
        return out
    return [c for c in cs if is_basic(c)] + [
        ("Real", "", "", ("eq", PROD_SUM, "var")),
        ("Real", "", "output", ("init", PROD_SUM, "var")),
        ("VR", "", "", None),
        ("VR", "", "input", None),
        ("VR", "", "output", ("eq", LEAF, "var")),
        ("VR", "parameter", "", None),
    ]


# members of the nested component classes: (name, prefix, type); h g f are the helper leaves of der() trees
MEMBERS = [
    ("s", "", "Real"),
    ("si", "input", "Real"),
    ("so", "output", "Real"),
    ("a", "", "VR"),
    ("ai", "input", "VR"),
    ("ao", "output", "VR"),
    ("ii", "input", "Integer"),
    ("io", "output", "Integer"),
    ("ji", "input", "VI"),
    ("jo", "output", "VI"),
    ("bi", "input", "Boolean"),
    ("bo", "output", "Boolean"),
    ("ci", "input", "VB"),
    ("co", "output", "VB"),
    ("sp", "parameter", "Real"),
    ("ap", "parameter", "VR"),
    ("jp", "parameter input", "VI"),
    ("ak", "constant", "VR"),
    ("h", "", "Real"),
    ("g", "", "Real"),
    ("f", "", "Real"),
]
NESTED_TARGETS = ["s", "si", "so", "a", "ai", "ao"]
LEVELS = {1: "n.", 2: "n.q."}


def nested_uses(tier):
    """(level, member, site, tree, fill): der() on a variable of the nested component."""
    out = []
    full = tree_uses(tier, ["x"])
    core = core_trees()
    for level in (1, 2):
        for site in NESTED_SITES:
            for member in NESTED_TARGETS:
                if member == "s":
                    ts = [(t, f) for _, t, f in full]
                elif tier == "quick":
                    ts = [(t, "var") for t in core]
                else:
                    ts = [(t, "var") for t in trees(2)]
                for t, f in ts:
                    out.append((level, member, site, t, f))
    return out


NESTED_DIRECT = (1, "s", "top", LEAF, "var")  # der(n.s) = u0, the nested placement of the first round

# ---------------------------------------------------------------------------------------------------------------
# model text + reference


def class_text(name, inner, eqs, ieqs):
    lines = ["model " + name]
    for m, prefix, typ in MEMBERS:
        base = BASE[typ]
        val = " = " + VALUE[base] if ("parameter" in prefix or "constant" in prefix) else ""
        lines.append("  %s%s %s%s;" % (prefix + " " if prefix else "", typ, m, val))
    if inner:
        lines.append("  %s q;" % inner)
    if ieqs:
        lines.append("initial equation")
        lines += ieqs
    lines.append("equation")
    lines += eqs + ["  so = si;"]
    lines.append("end %s;" % name)
    return "\n".join(lines) + "\n\n"


def build(cfgs, nested):
    """Model text + reference classification for variables v1.. with the given configurations."""
    decl, eqs, ieqs = [], [], []
    ref = {}  # name -> category
    differentiated = set()
    outputs = []
    names = []
    top_helpers = ["h1", "h2", "h3"]

    def place(site, tree, fill, written, flat, into_eqs, into_ieqs, rhs):
        """written: leaf -> name as written in the class that holds the equation; flat: leaf -> name in the flat model."""

        def name(leaf):
            if leaf[0] == "h" and fill == "lit":
                return ("2", "3", "0.5")[leaf[1] - 1]
            differentiated.add(flat(leaf))
            return written(leaf)

        d = "der(%s)" % show(tree, name)
        if site == "expr":
            into_eqs.append("  w = 2 * %s + %s;" % (d, rhs))
        elif site in ("init", "own-init"):
            into_ieqs.append("  %s = %s;" % (d, rhs))
        else:
            into_eqs.append("  %s = %s;" % (d, rhs))

    for k, (typ, var, cau, use) in enumerate(cfgs):
        v = ("zv", "av", "mv", "bv", "yv")[k] + str(k + 1)  # declaration order is not alphabetical order
        names.append(v)
        prefix = " ".join(x for x in (var, cau) if x)
        val = " = " + VALUE[BASE[typ]] if var in ("parameter", "constant") else ""
        decl.append("  %s%s %s%s;" % (prefix + " " if prefix else "", typ, v, val))
        if use is not None:
            site, tree, fill = use
            top = lambda leaf, v=v: v if leaf[0] == "v" else top_helpers[leaf[1] - 1]  # noqa: E731
            place(site, tree, fill, top, top, eqs, ieqs, "u0")
        elif var in ("", "discrete") and cau != "input":
            eqs.append("  %s = %s;" % (v, VALUE[BASE[typ]]))
    helpers = ["w", "u0"] + top_helpers
    for h in helpers:
        decl.append("  Real %s;" % h)
    decl.append("  Sub n;")
    sub_eqs = {1: ([], []), 2: ([], [])}
    if nested is not None:
        level, member, site, tree, fill = nested
        local = lambda leaf: member if leaf[0] == "v" else "hgf"[leaf[1] - 1]  # noqa: E731
        dotted = lambda leaf: LEVELS[level] + local(leaf)  # noqa: E731
        if site == "top":
            place(site, tree, fill, dotted, dotted, eqs, ieqs, "u0")
        else:
            # the equation is written inside the component class, with the undotted names
            place(site, tree, fill, local, dotted, sub_eqs[level][0], sub_eqs[level][1], "1")
    for k, (typ, var, cau, use) in enumerate(cfgs):
        v = names[k]
        if var == "constant":
            ref[v] = "string_constants" if typ == "String" else "constants"
        elif var == "parameter":
            ref[v] = "string_parameters" if typ == "String" else "parameters"
        elif cau == "input":
            ref[v] = "inputs"
        elif v in differentiated:
            ref[v] = "states"
        else:
            ref[v] = "alg_states"
        if cau == "output" and ref[v] in ("states", "alg_states"):
            outputs.append(v)
    for h in helpers:
        ref[h] = "states" if h in differentiated else "alg_states"
    for pre in LEVELS.values():
        for m, prefix, typ in MEMBERS:
            n = pre + m
            if "constant" in prefix:
                ref[n] = "constants"
            elif "parameter" in prefix:
                ref[n] = "parameters"
            elif n in differentiated:
                ref[n] = "states"
            else:
                ref[n] = "alg_states"  # input/output only count at the top level
    text = (
        ALIAS_DECL
        + class_text("Sub2", None, *sub_eqs[2])
        + class_text("Sub", "Sub2", *sub_eqs[1])
        + "model M\n"
        + "\n".join(decl)
        + "\n"
        + ("initial equation\n" + "\n".join(ieqs) + "\n" if ieqs else "")
        + "equation\n"
        + "\n".join(eqs + ["  n.so = n.si;"])
        + "\nend M;\n"
    )
    groups = [names + helpers] + [[pre + m for m, _, _ in MEMBERS] for pre in LEVELS.values()]
    return text, ref, outputs, names, groups


def cfg_label(c):
    return ("%s %s %s der:%s" % (c[0], c[1], c[2], use_label(c[3]))).replace(" ", "_")


def nested_label(nested):
    level, member, site, tree, fill = nested
    return "nested%d.%s:%s" % (level, member, use_label((site, tree, fill)))


def check(job):
    cfgs, nested = job
    text, ref, outputs, names, groups = build(cfgs, nested)
    case = {"text": text, "job": job}
    try:
        m = cas.generate(text, "M")
    except Exception as e:
        return [("generate-raises:" + common.exc_sig(e), "model does not generate: %r\n%s" % (e, text), case)]
    import casadi as ca

    viol = []
    got = {}
    lists = {g: [v.symbol.name() for v in getattr(m, g)] for g in ("states", "alg_states", "inputs", "constants", "parameters")}
    lists["string_constants"] = [v.name for v in m.string_constants]
    lists["string_parameters"] = [v.name for v in m.string_parameters]
    for g, ns in lists.items():
        for n in ns:
            got.setdefault(n, []).append(g)
    target = None
    if nested is not None:
        target = LEVELS[nested[0]] + nested[1]
    for n, cat in ref.items():
        g = got.get(n, [])
        if g != [cat]:
            if n in names:
                what = cfg_label(cfgs[names.index(n)])
            elif n == target:
                what = nested_label(nested)
            elif "." in n:
                k = [mm for mm, _, _ in MEMBERS].index(n.rsplit(".", 1)[1])
                what = "nested%d:%s_%s" % (n.count("."), MEMBERS[k][1].replace(" ", "_") or "plain", MEMBERS[k][2])
            else:
                what = "helper:" + n
            viol.append(("misclassified:%s:%s->%s" % (what, cat, "+".join(g) or "nowhere"), "%s should be in %s exactly once, found in %r\n%s" % (n, cat, g, text), case))
    extra = sorted(set(got) - set(ref))
    if extra:
        viol.append(("unexpected-variable", "model has variables %r that the source does not declare\n%s" % (extra, text), case))
    ders = [v.symbol.name() for v in m.der_states]
    if ders != ["der(%s)" % s for s in lists["states"]]:
        viol.append(("der-states-mismatch", "der_states %r do not match states %r one to one\n%s" % (ders, lists["states"], text), case))
    # declaration order within a category, among the variables declared in one class
    for g, ns in lists.items():
        for grp in groups:
            mine = [n for n in ns if n in grp]
            order = [n for n in grp if n in mine]
            if mine != order:
                viol.append(("order-within-category:" + g, "%s lists %r, declaration order is %r\n%s" % (g, mine, order, text), case))
    if sorted(m.outputs) != sorted(outputs) or len(m.outputs) != len(set(m.outputs)):
        viol.append(("outputs", "outputs %r, expected %r\n%s" % (m.outputs, outputs, text), case))
    # every symbol the equations depend on is a listed variable: the residual functions take exactly the listed
    # symbols (the objects, not their names) as arguments, anything else is a free variable nobody can supply.
    # Not demanded: der(u) of a top-level input u -- see the assumptions.
    listed = {m.time.__hash__(): m.time.name()}
    for g in ("states", "der_states", "alg_states", "inputs", "constants", "parameters"):
        for v in getattr(m, g):
            listed[v.symbol.__hash__()] = v.symbol.name()
    tolerated = {"der(%s)" % n for n, cat in ref.items() if cat == "inputs"}
    stray = {}
    for eq in list(m.equations) + list(m.initial_equations):
        for sym in ca.symvar(ca.MX(eq)):
            if sym.__hash__() not in listed and sym.name() not in tolerated:
                kind = "second-object-of-a-listed-name" if sym.name() in listed.values() else "derivative" if sym.name().startswith("der(") else "symbol"
                stray[sym.name()] = kind
    if stray:
        viol.append(
            (
                "unlisted-symbol-in-equations:" + "+".join(sorted(set(stray.values()))),
                "the equations depend on %r, which are in no variable list (so the residual function has free variables)\n%s" % (sorted(stray.items()), text),
                case,
            )
        )
    py = {}
    for k, (typ, var, cau, use) in enumerate(cfgs):
        if BASE[typ] in PYTYPE:
            py[names[k]] = (typ, PYTYPE[BASE[typ]])
    for pre in LEVELS.values():
        for mm, prefix, typ in MEMBERS:
            py[pre + mm] = (typ, PYTYPE[BASE[typ]])
    for g in ("states", "alg_states", "inputs", "constants", "parameters"):
        for v in getattr(m, g):
            n = v.symbol.name()
            if n in py and v.python_type is not py[n][1]:
                viol.append(("python-type:" + py[n][0], "%s is %s but python_type is %s\n%s" % (n, py[n][0], v.python_type.__name__, text), case))
    return viol


def nontrivial(job):
    cfgs, nested = job
    return nested is not None or any(c[1] or c[2] or c[3] is not None for c in cfgs)


def jobs(tier):
    out = []
    cs = configs(tier)
    for c in cs:
        out.append(((c,), None))
    for c in cs:
        if is_basic(c):
            out.append(((c,), NESTED_DIRECT))
    for nu in nested_uses(tier):
        out.append(((), nu))
    pc = pair_configs(tier)
    for a, b in itertools.product(pc, repeat=2):
        out.append(((a, b), None))
    # a top-level der() tree followed / preceded by a nested one (the two walks share the annotator)
    for nu in [(1, "s", "own-eq", PROD_SUM, "var"), (2, "a", "own-init", PROD_SUM, "var"), (1, "ai", "top", SUM, "var")]:
        for c in pc:
            out.append(((c,), nu))
    if tier == "thorough":
        core = [c for c in cs if c[0] == "Real" and c[3] in (None, ("eq", LEAF, "var"))]
        for t in itertools.product(core, repeat=3):
            out.append((t, NESTED_DIRECT))
    return out


def run(ctx):
    js = jobs(ctx.tier)
    with common.Pool() as pool:
        res = pool.map(check, js, chunksize=8)
    nontriv = set()
    for j, viol in zip(js, res):
        for sig, msg, case in viol:
            ctx.violation(sig, msg, case)
        if nontrivial(j):
            nontriv.add(build(*j)[0])
    for k in (0, len(js) // 2, len(js) - 1):
        ctx.sample({"configs": [cfg_label(c) for c in js[k][0]], "nested": nested_label(js[k][1]) if js[k][1] else None, "model": build(*js[k])[0]})
    kmax = 2 if ctx.tier == "quick" else 3
    ctx.coverage.update(
        {
            "evaluations": len(js),
            "distinct_nontrivial": len(nontriv),
            "single_configurations": len(configs(ctx.tier)),
            "der_argument_trees": len(trees(kmax)),
            "der_argument_trees_two_or_more_operators": len(trees(kmax, 2)),
            "nested_der_placements": len(nested_uses(ctx.tier)),
            "pair_configurations": len(pair_configs(ctx.tier)),
            "exhaustive": True,
            "rule": "all single variable configurations: 4 variabilities x 3 causalities x {Real, Integer, Boolean, and the derived "
            "types VR = Real(unit), VI = Integer(min), VB = Boolean} + String parameter/constant; a Real variable without "
            "variability prefix additionally with every der() placement = site {side of an equation, inside a larger expression, "
            "initial equation only} x every argument tree with <= %d operator nodes (+ - * and unary -) x every leaf position of "
            "the variable (other leaves helper variables%s); a VR variable with der(v), der(v + h), der(h1 * h2 + v) at every site. "
            "Every model contains a component with a sub-component (two nesting levels), each with plain / input / output members of "
            "Real, Integer, Boolean, VR, VI, VB and parameter / constant members. Nested der(): level {1, 2} x site {top-level equation "
            "with dotted names, the component's own equation, its own initial equation} x member {plain Real: all trees; input / "
            "output Real, plain / input / output VR: %s}. All ordered pairs of %d core configurations, each core configuration with "
            "three nested der() placements%s. Non-trivial = at least one prefix or der() placement is present."
            % (
                kmax,
                "" if ctx.tier == "quick" else "; for <= 2 operator nodes also literals",
                "one tree per shape and position" if ctx.tier == "quick" else "all trees with <= 2 operator nodes",
                len(pair_configs(ctx.tier)),
                "" if ctx.tier == "quick" else ", all triples of the Real none/der(v) configurations",
            ),
        }
    )
    ctx.assumptions.append("a variable differentiated only in an initial equation counts as differentiated (as the quantifier lists it)")
    ctx.assumptions.append(
        "der(u) of a top-level input u: the statement puts u in the inputs and says nothing about its derivative; pymoca leaves an "
        "unlisted der(u) symbol in the equations -- not demanded, every other unlisted symbol is a violation"
    )
    ctx.assumptions.append("der() of parameters / constants / discrete / Integer variables and flow / stream prefixes are outside the alphabet")


def _tup(x):
    return tuple(_tup(y) for y in x) if isinstance(x, (list, tuple)) else x


def replay(case):
    if "job" in case:
        j = _tup(case["job"])
        j = (j[0], j[1] if j[1] else None)
        v = check(j)
        print(build(*j)[0], [m.split("\n")[0] for _, m, _ in v] or "ok")
        return not v
    for j in jobs("thorough"):
        if build(*j)[0] == case["text"]:
            v = check(j)
            print(case["text"], [m.split("\n")[0] for _, m, _ in v] or "ok")
            return not v
    return True
