"""C16 -- alias elimination merges variable metadata soundly.

E4: every alias "chain" (spanning tree of alias equations) over v1..vn, n = 2..4: every labeled tree,
every orientation of every link (`vi = vj` / `vj = vi`), every link form out of `a = b`, `a = -b`,
`a - b = 0`, `a + b = 0`, every order of the equation list, v1 a state / an algebraic variable / an input;
crossed with every set of <= k explicit attributes (min, max, nominal, fixed, start) placed on the
variables (the exact sub-bounds per tier are listed in PLAN and written to the evidence).

The model is generated and simplified exactly as pymoca's own `_compile_model` does
(`generator.generate(tree, cls, opts)` followed by `model.simplify(opts)`, opts = {"detect_aliases": True};
generate() itself never calls simplify).

Reference (independent of pymoca): a signed union-find over the equations *we* wrote gives, for any two
variables, whether they are equal or opposite.  Which variable survives is read from the model (the
statement does not prescribe it).  For every surviving variable r and the set of eliminated variables the
model says were merged into it (Variable.aliases), the statement gives

  min(r)  = max(own min, min of +aliases, -max of -aliases)     max(r) symmetrically
  nominal = the largest of the class
  fixed   = any of the class fixed
  start   = own explicit start if there is one, else s * start(a) of some alias a with an explicit start

and the same numbers must be in r's row of variable_metadata_function.  model.alias_relation and
Variable.aliases must agree with the union-find (membership and signs) and every eliminated variable must be
accounted for by exactly one survivor.

Attribute bound.  Besides "every set of <= k attributes" the quick tier runs *merge matrices*: the attribute
combinations the merge loop branches on are complete for every (surviving variable, alias) pair, whichever
variable pymoca keeps.  SF: per variable start in {absent, 0, a, b, -a, p, -p} x fixed in {absent, true}
(own start absent / present x alias start absent / equal / different / negated / zero / symbolic x fixed
of either side); BD: per variable bounds in {none, min only, max only, both}.  n = 2: full products over
every structure; n = 3: reduced alphabets over tree x sign x kind.

Histories.  A class can also be completed by a LATER detect_aliases pass (old_alias_relation in the merge
loop).  Every link of a tree is early or late:
  H2: simplify({detect_aliases}); simplify({replace_constant_values, detect_aliases}) with the late links
      written `a = (-)b + c`, c a constant 0 (not an alias equation until c is replaced);
  HI: simplify({detect_aliases, iterative_simplification}) with the late links written
      `a = (-)b + (u -/+ w)` where `u = (-)w` is the first early link (an alias equation only after the
      first pass has substituted u).
The same oracle is applied after the last pass (the union-find holds early and late links).
"""
import hashlib
import itertools
import math
import os
from functools import lru_cache

import numpy as np

from vf.checks import c13
from vf.core import common

LEVEL = "exploration"

OPTS = {"detect_aliases": True}
KINDS = ("state", "alg", "input")
FORMS = {  # form -> (equation template over (a, b), sign s of the relation a = s * b)
    "eq+": ("%s = %s", 1),
    "eq-": ("%s = -%s", -1),
    "z+": ("%s - %s = 0", 1),
    "z-": ("%s + %s = 0", -1),
}
ALL_FORMS = ("eq+", "eq-", "z+", "z-")
PLAIN_FORMS = ("eq+", "eq-")
P_POINTS = (2.5, -0.75)  # values given to the parameter p when an attribute is written as `p`
ATTR_ORDER = ("min", "max", "nominal", "fixed", "start")

# ----------------------------------------------------------------------------
# structures


@lru_cache(maxsize=None)
def trees(n):
    """All labeled spanning trees on 1..n as sorted edge tuples (i < j)."""
    edges = list(itertools.combinations(range(1, n + 1), 2))
    out = []
    for sub in itertools.combinations(edges, n - 1):
        comp = {i: i for i in range(1, n + 1)}
        for i, j in sub:
            ci, cj = comp[i], comp[j]
            if ci != cj:
                for k in comp:
                    if comp[k] == cj:
                        comp[k] = ci
        if len(set(comp.values())) == 1:
            out.append(sub)
    return out


def structures(n, mode):
    """(n, kind, ((a, b, form), ...) in printed order).
    full  : every tree x orientation x 4 forms per link x permutation of the equation list x kind
    plain : forms restricted to `a = b` / `a = -b`
    orient: plain, equation list in the tree's own (sorted) order only
    basic : orient, links written low index = high index only"""
    forms = ALL_FORMS if mode == "full" else PLAIN_FORMS
    out = []
    for kind in KINDS:
        for tree in trees(n):
            orients = [(0,) * (n - 1)] if mode == "basic" else list(itertools.product((0, 1), repeat=n - 1))
            for orient in orients:
                for fs in itertools.product(forms, repeat=n - 1):
                    links = tuple((j, i, f) if o else (i, j, f) for (i, j), o, f in zip(tree, orient, fs))
                    perms = itertools.permutations(links) if mode in ("full", "plain") else [links]
                    for p in perms:
                        out.append((n, kind, tuple(p)))
    return out


# histories: name -> list of option sets given to successive simplify() calls
HISTORIES = {
    "H2": ({"detect_aliases": True}, {"replace_constant_values": True, "detect_aliases": True}),
    "HI": ({"detect_aliases": True, "iterative_simplification": True},),
}
LATE_H2 = {"eq+": "%s = %s + c", "eq-": "%s = -%s + c", "z+": "%s - %s = c", "z-": "%s + %s = c"}
LATE_HI = {"eq+": "%s = %s + (%s)", "eq-": "%s = -%s + (%s)", "z+": "%s - %s = %s", "z-": "%s + %s = %s"}


def two_pass(n, mode, hname):
    """(n, kind, links, (history, late)) -- every structure of the mode x every split of its links into early
    (plain alias equations) and late (become alias equations for the second pass only).  H2: every split, the
    all-early one included (a second pass that has nothing new to do); HI: at least one early link (the late
    form is built from it)."""
    out = []
    for st in structures(n, mode):
        for late in itertools.product((False, True), repeat=n - 1):
            if hname == "HI" and all(late):
                continue
            out.append(st + ((hname, late),))
    return out


def hist_of(struct):
    return struct[3] if len(struct) > 3 else None


# ----------------------------------------------------------------------------
# attribute sets


def tables(seed):
    """Numeric grids; the seed only rotates the numbers, never the shape of the space."""
    r = seed % 3
    sc = (1.0, 1.5, 0.5)[r]
    return {
        "min": (-3.0 * sc, 1.0 * sc),
        "max": (2.0 * sc, 6.0 * sc),
        "nominal": ((0.5, 4.0), (0.25, 3.0), (0.75, 2.5))[r],
        "start": lambda i: (1.5 + 0.25 * i) * sc,  # distinct per variable: whose start was taken is visible
        # one value per (attribute, variable) for the widest level
        "min_i": lambda i: (-3.0, 1.0, -1.0, -5.0)[(i + r) % 4] * sc,
        "max_i": lambda i: (6.0, 2.0, 4.0, 8.0)[(i + r) % 4] * sc,
        "nominal_i": lambda i: (0.5, 4.0, 2.0, 0.25)[(i + r) % 4],
    }


def singles(n, fam, seed):
    t = tables(seed)
    out = []
    for i in range(1, n + 1):
        if fam in ("VA", "VB"):
            out += [(i, "min", v) for v in t["min"]]
            out += [(i, "max", v) for v in t["max"]]
            out += [(i, "nominal", v) for v in t["nominal"]]
            if fam == "VA":
                out.append((i, "fixed", False))
            out.append((i, "fixed", True))
            out.append((i, "start", t["start"](i)))
            if fam == "VA":
                out.append((i, "max", "p"))
                out.append((i, "start", "p"))
        else:  # VC
            out += [(i, "min", t["min_i"](i)), (i, "max", t["max_i"](i)), (i, "nominal", t["nominal_i"](i))]
            out += [(i, "fixed", True), (i, "start", t["start"](i))]
    return out


def combos(items, k):
    for c in itertools.combinations(items, k):
        if len({(i, a) for i, a, _ in c}) == k:
            yield c


def start_pairs(n, seed):
    """Explicit zero start / parameter start on one variable against an explicit start on another (the
    `_DefaultValue` and symbolic-start branches of the merge)."""
    t = tables(seed)
    out = []
    for a in range(1, n + 1):
        for b in range(1, n + 1):
            if a != b:
                out.append(tuple(sorted([(a, "start", 0.0), (b, "start", t["start"](b))], key=lambda x: x[0])))
                out.append(tuple(sorted([(a, "start", "p"), (b, "start", t["start"](b))], key=lambda x: x[0])))
                if a < b:
                    out.append(((a, "start", "p"), (b, "start", "p")))
    return out


def profiles_product(n, per_var):
    """per_var(i) -> list of attribute tuples ((attr, value), ...) for variable i; -> every choice of one profile per
    variable, as attribute sets."""
    out = []
    for choice in itertools.product(*[per_var(i) for i in range(1, n + 1)]):
        out.append(tuple((i, a, v) for i, prof in zip(range(1, n + 1), choice) for a, v in prof))
    return out


def sf_profiles(seed, wide):
    """start x fixed profiles of one variable.  a / b: two different numbers, -a: the negated one (the consistent value
    on a negative alias, a 'different' value for pymoca's conflict test, which compares without the sign), 0: explicit
    zero (not the _DefaultValue), p / -p: symbolic."""
    t = tables(seed)
    a, b = t["start"](0), t["start"](4)
    starts = [None, a, b, -a] + ([0.0, "p", "-p"] if wide else [])
    out = []
    for st in starts:
        for fx in (None, True):
            out.append((() if st is None else (("start", st),)) + (() if fx is None else (("fixed", fx),)))
    return out


def bd_profiles(seed, i, wide):
    """bound profiles of one variable: none / min only / max only / both (wide: from the 2-value grids, else one
    variable-specific value each)."""
    t = tables(seed)
    mins = t["min"] if wide else (t["min_i"](i),)
    maxs = t["max"] if wide else (t["max_i"](i),)
    out = [()]
    out += [(("min", lo),) for lo in mins]
    out += [(("max", hi),) for hi in maxs]
    out += [(("min", lo), ("max", hi)) for lo in mins for hi in maxs]
    return out


@lru_cache(maxsize=None)
def attr_sets(n, key, seed):
    if key == "A0":
        return ((),)
    if key == "A1C":
        return tuple((s,) for s in singles(n, "VC", seed))
    if key == "SF":  # n = 2: 14 profiles per variable
        return tuple(profiles_product(n, lambda i: sf_profiles(seed, True)))
    if key == "SF3":  # 8 profiles per variable
        return tuple(profiles_product(n, lambda i: sf_profiles(seed, False)))
    if key == "BD":  # 9 profiles per variable
        return tuple(profiles_product(n, lambda i: bd_profiles(seed, i, True)))
    if key == "BD3":  # 4 profiles per variable
        return tuple(profiles_product(n, lambda i: bd_profiles(seed, i, False)))
    if key == "SFP":  # SF3 x at most one further attribute (min / max / nominal) on any variable
        t = tables(seed)
        pay = [()] + [((i, a, t[a + "_i"](i)),) for i in range(1, n + 1) for a in ("min", "max", "nominal")]
        return tuple(tuple(sorted(x + y, key=lambda e: (e[0], ATTR_ORDER.index(e[1])))) for x in profiles_product(n, lambda i: sf_profiles(seed, False)) for y in pay)
    if key == "SFBD":  # 8 x 9 profiles per variable
        sf = sf_profiles(seed, False)
        return tuple(profiles_product(n, lambda i: [x + y for x in sf for y in bd_profiles(seed, i, True)]))
    if key == "A1":
        return tuple((s,) for s in singles(n, "VA", seed))
    if key == "A2A":
        out = list(combos(singles(n, "VA", seed), 2))
        have = set(out)
        return tuple(out + [p for p in start_pairs(n, seed) if p not in have])
    if key == "A2B":
        return tuple(list(combos(singles(n, "VB", seed), 2)) + start_pairs(n, seed))
    if key == "A3B":
        return tuple(combos(singles(n, "VB", seed), 3))
    if key == "A3C":
        return tuple(combos(singles(n, "VC", seed), 3))
    raise KeyError(key)


# tier -> [(structure mode, n, attribute-set keys, history or None)]
PLAN = {
    "quick": [
        ("full", 2, ("A0", "A1", "A2A", "SF", "BD"), None),
        ("plain", 2, ("SFP",), None),
        ("full", 3, ("A0",), None),
        ("plain", 3, ("A1",), None),
        ("orient", 3, ("A2B",), None),
        ("basic", 3, ("SF3", "BD3"), None),
        ("orient", 3, ("A0", "A1C"), "H2"),
        ("orient", 3, ("A0", "A1C"), "HI"),
    ],
    "thorough": [
        ("full", 2, ("A0", "A1", "A2A", "A3B", "SF", "BD"), None),
        ("plain", 2, ("SFP", "SFBD"), None),
        ("full", 3, ("A0", "A1", "A2A"), None),
        ("plain", 3, ("A3B",), None),
        ("orient", 3, ("SF3", "BD3"), None),
        ("full", 4, ("A0",), None),
        ("orient", 4, ("A1",), None),
        ("basic", 4, ("A2B", "A3C"), None),
        ("orient", 3, ("A0", "A1"), "H2"),
        ("orient", 3, ("A0", "A1"), "HI"),
        ("basic", 3, ("A2B", "SF3"), "H2"),
        ("basic", 3, ("A2B", "SF3"), "HI"),
        ("basic", 4, ("A0", "A1C"), "H2"),
        ("basic", 4, ("A0", "A1C"), "HI"),
    ],
}
KEY_DOC = {
    "A0": "no attribute",
    "A1": "1 attribute out of per-variable {min x2, max x2, nominal x2, fixed=false, fixed=true, start, max=p, start=p}",
    "A1C": "1 attribute out of per-variable {min, max, nominal (one variable-specific value each), fixed=true, start}",
    "A2A": "2 attributes out of the A1 alphabet (not the same attribute of the same variable twice) + explicit `start = 0` on one "
    "variable against an explicit start on another",
    "A2B": "2 attributes out of per-variable {min x2, max x2, nominal x2, fixed=true, start} + start=0 / start=p on one variable "
    "against an explicit start on another + start=p on two variables",
    "A3B": "3 attributes out of per-variable {min x2, max x2, nominal x2, fixed=true, start}",
    "A3C": "3 attributes out of per-variable {min, max, nominal (one variable-specific value each), fixed=true, start}",
    "SF": "start/fixed matrix: one profile per variable out of start {absent, a, b, -a, 0, p, -p} x fixed {absent, true}, every "
    "combination over the variables (14^n sets, up to 2n attributes)",
    "SF3": "start/fixed matrix with start {absent, a, b, -a} x fixed {absent, true} per variable (8^n sets)",
    "BD": "bounds matrix: one profile per variable out of {none, min x2, max x2, (min, max) x4}, every combination (9^n sets)",
    "BD3": "bounds matrix with {none, min, max, (min, max)} per variable, one variable-specific value each (4^n sets)",
    "SFP": "SF3 x at most one further attribute out of {min, max, nominal} on any variable (what a branch of the start handling "
    "could drag along)",
    "SFBD": "product of the SF3 and BD profiles per variable ((8 x 9)^n sets)",
}
MODE_DOC = {
    "full": "every labeled tree x both orientations of every link x 4 forms per link x every permutation of the equation list x 3 kinds",
    "plain": "as full with forms `a = b`, `a = -b` only",
    "orient": "as plain with the equation list in one order",
    "basic": "every labeled tree x sign per link x 3 kinds, links written `v_low = (-)v_high`, one order",
}
HIST_DOC = {
    "H2": "x every split of the links into early / late (all-early included); late links `a = (-)b + c`, constant c = 0; "
    "simplify({detect_aliases}) then simplify({replace_constant_values, detect_aliases})",
    "HI": "x every split of the links into early / late with >= 1 early link; late links `a = (-)b + (u -/+ w)` for the first early "
    "link u = (-)w; simplify({detect_aliases, iterative_simplification})",
}
TARGET = 240  # programs per job


def level_structures(mode, n, hname):
    return structures(n, mode) if hname is None else two_pass(n, mode, hname)


def make_jobs(tier, seed, only=None):
    jobs = []
    levels = []
    for li, (mode, n, keys, hname) in enumerate(PLAN[tier]):
        if only is not None and li not in only:
            continue
        ss = level_structures(mode, n, hname)
        for key in keys:
            m = len(attr_sets(n, key, seed))
            lv = len(levels)
            levels.append({"structures": mode, "n": n, "attributes": key, "history": hname or "single pass", "n_structures": len(ss), "n_attribute_sets": m, "programs": len(ss) * m})
            if m >= TARGET:
                parts = -(-m // TARGET)
                for s in ss:
                    for p in range(parts):
                        jobs.append(((s,), key, p, parts, seed, lv))
            else:
                g = max(1, TARGET // m)
                for k in range(0, len(ss), g):
                    jobs.append((tuple(ss[k : k + g]), key, 0, 1, seed, lv))
    return jobs, levels


# ----------------------------------------------------------------------------
# program text


def num(v):
    if v in ("p", "-p"):
        return v
    if isinstance(v, bool):
        return "true" if v else "false"
    return repr(float(v))


def text_of(struct, aset):
    n, kind, eqs = struct[:3]
    hist = hist_of(struct)
    hname, late = hist if hist else (None, (False,) * len(eqs))
    per = {}
    for i, a, v in aset:
        per.setdefault(i, {})[a] = v
    lines = ["model M"]
    if any(v in ("p", "-p") for _, _, v in aset):
        lines.append("  parameter Real p = 2.5;")
    for i in range(1, n + 1):
        d = "  %sReal v%d" % ("input " if (kind == "input" and i == 1) else "", i)
        if i in per:
            d += "(%s)" % ", ".join("%s = %s" % (a, num(per[i][a])) for a in ATTR_ORDER if a in per[i])
        lines.append(d + ";")
    zero = None
    if hname == "H2" and any(late):
        lines.append("  constant Real c = 0;")
    elif hname == "HI" and any(late):
        u, w, f = [e for e, l in zip(eqs, late) if not l][0]
        zero = "v%d %s v%d" % (u, "-" if FORMS[f][1] > 0 else "+", w)  # 0 by the first early link
    lines.append("equation")
    for (a, b, f), l in zip(eqs, late):
        if not l:
            lines.append("  " + FORMS[f][0] % ("v%d" % a, "v%d" % b) + ";")
        elif hname == "H2":
            lines.append("  " + LATE_H2[f] % ("v%d" % a, "v%d" % b) + ";")
        else:
            lines.append("  " + LATE_HI[f] % ("v%d" % a, "v%d" % b, zero) + ";")
    if kind == "state":
        lines.append("  der(v1) = 1;")
    elif kind == "alg":
        lines.append("  v1 = sin(time);")
    return "\n".join(lines + ["end M;"]) + "\n"


# ----------------------------------------------------------------------------
# reference


class SignedUF:
    """x = sign(x) * root(x)."""

    def __init__(self, names):
        self.parent = {x: x for x in names}
        self.sign = {x: 1 for x in names}

    def find(self, x):
        s = 1
        while self.parent[x] != x:
            s *= self.sign[x]
            x = self.parent[x]
        return x, s

    def union(self, a, b, s):
        """record a = s * b"""
        ra, sa = self.find(a)
        rb, sb = self.find(b)
        if ra == rb:
            if sa * sb != s:
                raise ValueError("contradictory alias equations")
            return
        self.parent[ra] = rb
        self.sign[ra] = sa * s * sb

    def rel(self, a, b):
        """+1 / -1 if a = +-b follows from the equations, None if unrelated."""
        ra, sa = self.find(a)
        rb, sb = self.find(b)
        return sa * sb if ra == rb else None


def uf_of(struct):
    """Early and late links alike: a late link `a = s b + 0` states a = s b."""
    n, kind, eqs = struct[:3]
    uf = SignedUF(["v%d" % i for i in range(1, n + 1)])
    for a, b, f in eqs:
        uf.union("v%d" % a, "v%d" % b, FORMS[f][1])
    return uf


def val(v, pv):
    return pv if v == "p" else (-pv if v == "-p" else float(v))


def expected(r, aliases, per, pv):
    """aliases: {name: sign relative to r}; per: {name: {attr: value}}.
    -> dict attr -> set/list of acceptable numbers at parameter value pv."""
    own = per.get(r, {})
    lo = val(own["min"], pv) if "min" in own else -math.inf
    hi = val(own["max"], pv) if "max" in own else math.inf
    noms = [val(own["nominal"], pv)] if "nominal" in own else []
    some_absent = "nominal" not in own
    fixed = bool(own.get("fixed", False))
    cand = []
    for a, s in sorted(aliases.items()):
        at = per.get(a, {})
        amin = val(at["min"], pv) if "min" in at else -math.inf
        amax = val(at["max"], pv) if "max" in at else math.inf
        if s > 0:
            lo, hi = max(lo, amin), min(hi, amax)
        else:
            lo, hi = max(lo, -amax), min(hi, -amin)
        if "nominal" in at:
            noms.append(val(at["nominal"], pv))
        else:
            some_absent = True
        fixed = fixed or bool(at.get("fixed", False))
        if "start" in at:
            cand.append((a, s * val(at["start"], pv)))
    if not noms:
        nominal = [0.0]  # pymoca's representation of "no nominal given" (C13)
    elif some_absent:
        # an absent nominal is 0 for pymoca (test_simplify_alias_small_nominal) and 1 in Modelica: either reading of
        # "the largest among them" is accepted
        nominal = sorted({max(noms), max(noms + [1.0])})
    else:
        nominal = [max(noms)]
    if "start" in own:
        start = [("own", val(own["start"], pv))]
    elif cand:
        start = cand
    else:
        start = [("default", 0.0)]
    return {"min": [lo], "max": [hi], "nominal": nominal, "fixed": [1.0 if fixed else 0.0], "start": start, "own_start": "start" in own, "alias_start": bool(cand)}


def close(x, y):
    if math.isnan(x) or math.isnan(y):
        return False
    if math.isinf(x) or math.isinf(y):
        return x == y
    return abs(x - y) <= 1e-9 * max(1.0, abs(x), abs(y))


# ----------------------------------------------------------------------------
# one program

MD_GROUPS = ("states", "alg_states", "inputs", "parameters", "constants")
MD_COL = {a: k for k, a in enumerate(c13.ATTRS)}


def spec_of(struct, aset, text):
    n, kind, eqs = struct[:3]
    spec = {"n": n, "kind": kind, "eqs": [list(e) for e in eqs], "attrs": [list(a) for a in aset], "text": text}
    if hist_of(struct):
        spec["history"] = [hist_of(struct)[0], list(hist_of(struct)[1])]
    return spec


def from_spec(spec):
    struct = (spec["n"], spec["kind"], tuple((a, b, f) for a, b, f in spec["eqs"]))
    if spec.get("history"):
        struct += ((spec["history"][0], tuple(bool(x) for x in spec["history"][1])),)
    aset = tuple((i, a, v) for i, a, v in spec["attrs"])
    return struct, aset


def check_one(struct, aset):
    """-> (violations [(sig, msg, case)], info)"""
    import casadi as ca
    from pymoca import parser
    from pymoca.backends.casadi import generator

    n, kind, eqs = struct[:3]
    hist = hist_of(struct)
    hname, late = hist if hist else (None, (False,) * len(eqs))
    text = text_of(struct, aset)
    case = spec_of(struct, aset, text)
    info = {"text": text, "eliminated": 0, "nontrivial": False, "canon": None, "neg": False, "later_pass": False}
    names = ["v%d" % i for i in range(1, n + 1)]
    uf = uf_of(struct)
    has_neg = any(FORMS[f][1] < 0 for _, _, f in eqs)
    info["neg"] = has_neg
    htag = "/" + hname if hname else ""
    tag = kind + ("/neg" if has_neg else "/pos") + htag

    after_first = None
    try:
        tree = parser.parse(text, bypass_cache=True)
        if tree is None:
            raise SyntaxError("pymoca reports a syntax error")
        m = generator.generate(tree, "M", dict(OPTS))
        if hname is None:
            m.simplify(dict(OPTS))
        else:
            for k, o in enumerate(HISTORIES[hname]):
                m.simplify(dict(o))
                if k == 0 and len(HISTORIES[hname]) > 1:
                    after_first = {v.symbol.name() for g in MD_GROUPS[:3] for v in getattr(m, g)}
        fmd = m.variable_metadata_function
    except Exception as e:
        # signature = failing site + the attribute kinds present (symbolic ones marked), not the structure
        feats = "+".join(sorted("%s=p" % a if v in ("p", "-p") else a for _, a, v in aset)) or "no-attributes"
        sig = "simplify-raises:%s:%s%s%s" % (common.exc_sig(e), feats, ":negative-link" if has_neg else "", htag.replace("/", ":"))
        return [(sig, "generation / alias elimination raises %r\n%s" % (e, text), case)], info

    where = {}
    for gi, g in enumerate(MD_GROUPS[:3]):
        for row, v in enumerate(getattr(m, g)):
            where[v.symbol.name()] = (gi, row, v)
    remaining = [x for x in names if x in where]
    gone = [x for x in names if x not in where]
    info["eliminated"] = len(gone)
    if hname == "H2":
        info["later_pass"] = bool(after_first - set(where))
    elif hname == "HI":
        info["later_pass"] = len(gone) > sum(1 for l in late if not l)  # the first pass cannot see the late links
    viol = []

    # --- which variable stands for which: Variable.aliases and alias_relation against the union-find ----
    claimed = {}  # eliminated name -> (survivor, sign)
    struct_ok = True
    rel_items = {}
    for c, al in m.alias_relation:
        rel_items[c] = set(al)
    # a variable that is listed as somebody's alias but was left in the model: reported alone (its own stale alias
    # set would only repeat the finding under other names)
    for r in remaining:
        for sa in sorted(set(where[r][2].aliases) | rel_items.get(r, set())):
            a = sa[1:] if sa.startswith("-") else sa
            if a in where:
                sig = "alias-not-eliminated:" + tag + ((":negative-alias" if sa.startswith("-") else ":positive-alias") if hname else "")
                viol.append((sig, "%s lists alias %r, which is still a model variable (not merged, not substituted)\n%s" % (r, sa, text), case))
    if viol:
        return viol, info
    for r in remaining:
        al = set(where[r][2].aliases)
        if al != rel_items.get(r, set()):
            viol.append(("aliases-vs-relation:" + tag, "Variable(%s).aliases = %r but alias_relation lists %r\n%s" % (r, sorted(al), sorted(rel_items.get(r, set())), text), case))
            struct_ok = False
        for sa in al:
            s, a = (-1, sa[1:]) if sa.startswith("-") else (1, sa)
            want = uf.rel(r, a) if a in uf.parent else None
            if want is None:
                viol.append(("alias-not-implied:" + tag, "%s lists alias %r, which does not follow from the equations\n%s" % (r, sa, text), case))
                struct_ok = False
            elif want != s:
                viol.append(("alias-sign:" + tag, "%s lists alias %r, the equations imply %s = %s%s\n%s" % (r, sa, a, "-" if want < 0 else "", r, text), case))
                struct_ok = False
            elif a in claimed:
                viol.append(("alias-claimed-twice:" + tag, "%s is an alias of both %s and %s\n%s" % (a, claimed[a][0], r, text), case))
                struct_ok = False
            else:
                claimed[a] = (r, s)
    for c in rel_items:
        if c not in where:
            viol.append(("canonical-not-in-model:" + tag, "alias_relation has canonical %r, which is not a variable of the model\n%s" % (c, text), case))
            struct_ok = False
    for a in gone:
        if a not in claimed:
            viol.append(("eliminated-unaccounted:" + tag, "%s was eliminated but is nobody's alias: its attributes are lost\n%s" % (a, text), case))
            struct_ok = False
    for x in names:
        c, s = m.alias_relation.canonical_signed(x)
        want = uf.rel(x, c) if c in uf.parent else None
        if want is None or want != s or c not in where:
            viol.append(("canonical-signed:" + tag, "alias_relation.canonical_signed(%r) = %r; the equations give %s, survivors %r\n%s" % (x, (c, s), want, remaining, text), case))
            struct_ok = False
    if not struct_ok:
        return viol, info

    # --- merged attributes ---------------------------------------------------------------------------
    per = {}
    for i, a, v in aset:
        per.setdefault("v%d" % i, {})[a] = v
    has_p = any(v in ("p", "-p") for _, _, v in aset)
    points = P_POINTS if has_p else (0.0,)
    info["nontrivial"] = bool(gone) and bool(aset)
    if gone and kind == "alg":
        info["canon"] = ",".join(remaining)
    for r in remaining:
        aliases = {a: s for a, (rr, s) in claimed.items() if rr == r}
        if not aliases:
            continue  # nothing was merged into r; its attributes are C13's business
        gi, row, var = where[r]
        cls_neg = any(s < 0 for s in aliases.values())
        ctag = kind + ("/negative-alias" if cls_neg else "/positive-aliases") + htag
        got_obj = {a: [] for a in ATTR_ORDER}
        got_md = {a: [] for a in ATTR_ORDER}
        exp = []
        bad_read = False
        for pv in points:
            pvals = {"p": pv} if has_p else {}
            exp.append(expected(r, aliases, per, pv))
            for a in ATTR_ORDER:
                try:
                    g = c13.attr_value(m, getattr(var, a), pvals)
                    got_obj[a].append(float(g[0]) if g.size == 1 else float("nan"))
                except Exception as e:
                    viol.append(("attribute-unreadable:%s:%s" % (ctag, a), "Variable(%s).%s = %r cannot be evaluated: %r\n%s" % (r, a, getattr(var, a), e, text), case))
                    bad_read = True
            if bad_read:
                break
            outs = fmd(ca.DM([pv] if has_p else []))
            mat = np.array(ca.DM(outs[gi]))
            for a in ATTR_ORDER:
                got_md[a].append(float(mat[row, MD_COL[a]]))
        if bad_read:
            continue
        desc = "%s stands for %s" % (r, ", ".join(("-" if s < 0 else "") + a for a, s in sorted(aliases.items())))
        for src, got in (("variable", got_obj), ("metadata-function", got_md)):
            for a in ("min", "max", "nominal", "fixed"):
                # acceptable alternatives must be matched consistently over the parameter points
                alts = range(len(exp[0][a]))
                ok = any(all(close(got[a][k], exp[k][a][j]) if a != "fixed" else ((got[a][k] != 0) == (exp[k][a][j] != 0)) for k in range(len(points))) for j in alts)
                if not ok:
                    viol.append(("wrong-%s:%s:%s" % (a, ctag, src), "%s: %s of %s is %r (%s), the statement gives %r%s\n%s" % (desc, a, r, got[a], src, [e[a] for e in exp], " at p = %r" % (points,) if has_p else "", text), case))
            alts = range(len(exp[0]["start"]))
            ok = any(all(close(got["start"][k], exp[k]["start"][j][1]) for k in range(len(points))) for j in alts)
            if not ok:
                clause = "start-not-kept" if exp[0]["own_start"] else ("start-not-from-alias" if exp[0]["alias_start"] else "start-not-default")
                viol.append(("%s:%s:%s" % (clause, ctag, src), "%s: start of %s is %r (%s), acceptable %r%s\n%s" % (desc, r, got["start"], src, [e["start"] for e in exp], " at p = %r" % (points,) if has_p else "", text), case))
        # a wrong Variable attribute shows again in the function derived from it: keep the first
        seen = {v[0].rsplit(":", 1)[0] for v in viol if v[0].endswith(":variable")}
        viol = [v for v in viol if not (v[0].endswith(":metadata-function") and v[0].rsplit(":", 1)[0] in seen)]
    return viol, info


def h64(text):
    return hashlib.blake2b(text.encode(), digest_size=8).digest()


PER_SIG = 3  # violations carried back per signature and job (all are counted)


def work(job):
    import time

    structs, key, part, parts, seed, lv = job
    t0 = time.process_time()
    res = {"level": lv, "programs": 0, "nontrivial": [], "all": [], "viol": [], "sigs": {}, "eliminated": {}, "canon": {}, "neg_nontrivial": 0, "violating": 0, "later_pass": 0, "later_pass_neg": 0}
    for s in structs:
        sets = attr_sets(s[0], key, seed)
        hn = hist_of(s)[0] if hist_of(s) else ""
        for aset in sets[part::parts]:
            viol, info = check_one(s, aset)
            res["programs"] += 1
            h = h64(hn + info["text"])
            res["all"].append(h)
            if info["nontrivial"]:
                res["nontrivial"].append(h)
                if info["neg"]:
                    res["neg_nontrivial"] += 1
            if info["later_pass"]:
                res["later_pass"] += 1
                if info["neg"]:
                    res["later_pass_neg"] += 1
            k = "%d-of-%d" % (info["eliminated"], s[0])
            res["eliminated"][k] = res["eliminated"].get(k, 0) + 1
            if info["canon"]:
                res["canon"][info["canon"]] = res["canon"].get(info["canon"], 0) + 1
            if viol:
                res["violating"] += 1
            for sig, msg, case in viol:
                c = res["sigs"].get(sig, 0)
                res["sigs"][sig] = c + 1
                if c < PER_SIG:
                    res["viol"].append((sig, msg, case))
    res["nontrivial"] = b"".join(res["nontrivial"])
    res["all"] = b"".join(res["all"])
    res["cpu"] = time.process_time() - t0
    return res


def run(ctx):
    only = None  # development aid: restrict to some PLAN entries (never claimed as the tier's evidence)
    if os.environ.get("VERIF_C16_ONLY"):
        only = {int(x) for x in os.environ["VERIF_C16_ONLY"].split(",")}
        ctx.cap("VERIF_C16_ONLY=%s: only these PLAN entries were run" % os.environ["VERIF_C16_ONLY"])
    jobs, levels = make_jobs(ctx.tier, ctx.seed, only)
    if jobs:  # the seed rotates the order of work only
        k = (ctx.seed * 7919) % len(jobs)
        jobs = jobs[k:] + jobs[:k]
    with common.Pool() as pool:
        results = pool.map(work, jobs, chunksize=1)
    programs = 0
    elim, canon, sigs = {}, {}, {}
    neg_nt = violating = later = later_neg = 0
    cpu = 0.0
    kept = {}
    for lv in levels:
        lv.update({"cpu_s": 0.0, "completed_by_a_later_pass": 0})
    for r in results:
        programs += r["programs"]
        neg_nt += r["neg_nontrivial"]
        violating += r["violating"]
        later += r["later_pass"]
        later_neg += r["later_pass_neg"]
        cpu += r["cpu"]
        levels[r["level"]]["cpu_s"] += r["cpu"]
        levels[r["level"]]["completed_by_a_later_pass"] += r["later_pass"]
        for d, src in ((elim, r["eliminated"]), (canon, r["canon"]), (sigs, r["sigs"])):
            for k, v in src.items():
                d[k] = d.get(k, 0) + v
        for sig, msg, case in r["viol"]:
            if kept.get(sig, 0) < 5:
                kept[sig] = kept.get(sig, 0) + 1
                ctx.violation(sig, msg, case)
    nt = np.unique(np.frombuffer(b"".join(r["nontrivial"] for r in results), dtype=np.uint64))
    distinct = np.unique(np.frombuffer(b"".join(r["all"] for r in results), dtype=np.uint64))
    if programs and len(nt) == 0:
        raise RuntimeError("no program had a variable eliminated: alias detection never fired, the property was not exercised")
    for lv in levels:
        lv["cpu_s"] = round(lv["cpu_s"], 1)
        if lv["history"] == "single pass":
            del lv["completed_by_a_later_pass"]
    if any(lv["history"] != "single pass" for lv in levels) and later_neg == 0:
        raise RuntimeError("no history had a later pass eliminate a variable over a negative link: the multi-pass merge was not exercised")
    by_level = {}
    for j, jb in enumerate(jobs):
        by_level[jb[5]] = j
    for j in sorted(set([0, len(jobs) // 2, len(jobs) - 1] + [j for lv, j in by_level.items() if levels[lv]["history"] != "single pass"]))[:6]:
        structs, key, part, parts, seed, _ = jobs[j]
        sets = attr_sets(structs[-1][0], key, seed)[part::parts]
        ctx.sample({"attributes": key, "history": (hist_of(structs[-1]) or ["single pass"])[0], "model": text_of(structs[-1], sets[len(sets) // 2])})
    ctx.coverage.update(
        {
            "evaluations": programs,
            "programs": programs,
            "distinct_programs": int(len(distinct)),
            "distinct_nontrivial": int(len(nt)),
            "nontrivial_with_negative_link": neg_nt,
            "completed_by_a_later_pass": later,
            "completed_by_a_later_pass_with_negative_link": later_neg,
            "cpu_s": round(cpu, 1),
            "levels": levels,
            "eliminated_variables": elim,
            "surviving_variable_when_all_algebraic": canon,
            "violating_programs": violating,
            "violations_by_signature": sigs,
            "exhaustive": True,
            "structure_sets": MODE_DOC,
            "attribute_sets": KEY_DOC,
            "histories": HIST_DOC,
            "rule": "alias trees over v1..vn (v1 a state with der(v1) = 1 / algebraic / input, the others algebraic); a level is "
            "(structure set, n, attribute sets, history) and every element of the product is run -- see `levels`, `structure_sets`, "
            "`attribute_sets`, `histories`. Attribute sets are either 'every set of <= k attributes' or merge matrices (one "
            "profile per variable, every combination: start absent / a / b / -a / 0 / p / -p x fixed; bounds none / min / max / "
            "both), so that every (survivor, alias) pair meets every combination the merge loop branches on whichever variable "
            "pymoca keeps. Histories split the links into early and late ones; the late ones become alias equations only for "
            "a second detect_aliases pass, and the same oracle is applied after the last pass (`completed_by_a_later_pass` "
            "counts the programs in which a later pass eliminated a variable). Numeric grids: min {-3, 1}, max {2, 6}, nominal {0.5, 4}, start 1.5 + 0.25 i (scaled per seed), "
            "p evaluated at %r. Each program is generated and simplified with detect_aliases; alias_relation and Variable.aliases "
            "are compared with a signed union-find of the written equations, and min/max/nominal/fixed/start of every surviving "
            "variable with the statement's merge of its class, on the Variable and in variable_metadata_function. Non-trivial = "
            "pymoca eliminated at least one variable and the class carries at least one explicit attribute (the merge has "
            "something to get wrong)." % (P_POINTS,),
        }
    )
    ctx.assumptions.append(
        "which variable survives is read from the model, not prescribed; with several explicit alias starts any of them is "
        "accepted; a class mixing explicit and absent nominals may report the largest explicit one (absent = 0, pymoca) or "
        "max(1, that) (absent = 1, Modelica); exactly one of v1..vn is a state or an input; attributes are literals or the "
        "single parameter p (or -p); a late link `a = s b + 0` is taken to state a = s b; whether every alias equation is detected is not demanded (C14/C15), only counted in "
        "`eliminated_variables`"
    )


def replay(case):
    struct, aset = from_spec(case)
    viol, info = check_one(struct, aset)
    print(info["text"])
    for sig, msg, _ in viol:
        print(" ", sig, "--", msg.split("\n")[0])
    if not viol:
        print("  ok")
    return not viol
