"""C16 -- alias elimination merges variable metadata soundly.

E4: every alias "chain" (spanning tree of alias equations) over v1..vn, n = 2..4: every labeled tree,
every orientation of every link (`vi = vj` / `vj = vi`), every link form out of `a = b`, `a = -b`,
`a - b = 0`, `a + b = 0`, every order of the equation list, v1 a state / an algebraic variable / an input;
crossed with every set of <= k explicit attributes (min, max, nominal, fixed, start) placed on the
variables (the exact sub-bounds per tier are listed in PLAN and written to the evidence).

The model is generated and simplified exactly as pymoca's own `_compile_model` does
(`generator.generate(tree, cls, opts)` followed by `model.simplify(opts)`, opts = {"detect_aliases": True};
generate() itself never calls simplify).

Reference (independent of pymoca): a signed union-find over the equations *we* wrote gives, for any two
variables, whether they are equal or opposite.  Which variable survives is read from the model (the
statement does not prescribe it).  For every surviving variable r and the set of eliminated variables the
model says were merged into it (Variable.aliases), the statement gives

  min(r)  = max(own min, min of +aliases, -max of -aliases)     max(r) symmetrically
  nominal = the largest of the class
  fixed   = any of the class fixed
  start   = own explicit start if there is one, else s * start(a) of some alias a with an explicit start

and the same numbers must be in r's row of variable_metadata_function.  model.alias_relation and
Variable.aliases must agree with the union-find (membership and signs) and every eliminated variable must be
accounted for by exactly one survivor.
"""
import hashlib
import itertools
import math
from functools import lru_cache

import numpy as np

from vf.checks import c13
from vf.core import common

LEVEL = "exploration"

OPTS = {"detect_aliases": True}
KINDS = ("state", "alg", "input")
FORMS = {  # form -> (equation template over (a, b), sign s of the relation a = s * b)
    "eq+": ("%s = %s", 1),
    "eq-": ("%s = -%s", -1),
    "z+": ("%s - %s = 0", 1),
    "z-": ("%s + %s = 0", -1),
}
ALL_FORMS = ("eq+", "eq-", "z+", "z-")
PLAIN_FORMS = ("eq+", "eq-")
P_POINTS = (2.5, -0.75)  # values given to the parameter p when an attribute is written as `p`
ATTR_ORDER = ("min", "max", "nominal", "fixed", "start")

# ----------------------------------------------------------------------------
# structures


@lru_cache(maxsize=None)
def trees(n):
    """All labeled spanning trees on 1..n as sorted edge tuples (i < j)."""
    edges = list(itertools.combinations(range(1, n + 1), 2))
    out = []
    for sub in itertools.combinations(edges, n - 1):
        comp = {i: i for i in range(1, n + 1)}
        for i, j in sub:
            ci, cj = comp[i], comp[j]
            if ci != cj:
                for k in comp:
                    if comp[k] == cj:
                        comp[k] = ci
        if len(set(comp.values())) == 1:
            out.append(sub)
    return out


def structures(n, mode):
    """(n, kind, ((a, b, form), ...) in printed order).
    full  : every tree x orientation x 4 forms per link x permutation of the equation list x kind
    plain : forms restricted to `a = b` / `a = -b`
    orient: plain, equation list in the tree's own (sorted) order only
    basic : orient, links written low index = high index only"""
    forms = ALL_FORMS if mode == "full" else PLAIN_FORMS
    out = []
    for kind in KINDS:
        for tree in trees(n):
            orients = [(0,) * (n - 1)] if mode == "basic" else list(itertools.product((0, 1), repeat=n - 1))
            for orient in orients:
                for fs in itertools.product(forms, repeat=n - 1):
                    links = tuple((j, i, f) if o else (i, j, f) for (i, j), o, f in zip(tree, orient, fs))
                    perms = itertools.permutations(links) if mode in ("full", "plain") else [links]
                    for p in perms:
                        out.append((n, kind, tuple(p)))
    return out


# ----------------------------------------------------------------------------
# attribute sets


def tables(seed):
    """Numeric grids; the seed only rotates the numbers, never the shape of the space."""
    r = seed % 3
    sc = (1.0, 1.5, 0.5)[r]
    return {
        "min": (-3.0 * sc, 1.0 * sc),
        "max": (2.0 * sc, 6.0 * sc),
        "nominal": ((0.5, 4.0), (0.25, 3.0), (0.75, 2.5))[r],
        "start": lambda i: (1.5 + 0.25 * i) * sc,  # distinct per variable: whose start was taken is visible
        # one value per (attribute, variable) for the widest level
        "min_i": lambda i: (-3.0, 1.0, -1.0, -5.0)[(i + r) % 4] * sc,
        "max_i": lambda i: (6.0, 2.0, 4.0, 8.0)[(i + r) % 4] * sc,
        "nominal_i": lambda i: (0.5, 4.0, 2.0, 0.25)[(i + r) % 4],
    }


def singles(n, fam, seed):
    t = tables(seed)
    out = []
    for i in range(1, n + 1):
        if fam in ("VA", "VB"):
            out += [(i, "min", v) for v in t["min"]]
            out += [(i, "max", v) for v in t["max"]]
            out += [(i, "nominal", v) for v in t["nominal"]]
            if fam == "VA":
                out.append((i, "fixed", False))
            out.append((i, "fixed", True))
            out.append((i, "start", t["start"](i)))
            if fam == "VA":
                out.append((i, "max", "p"))
                out.append((i, "start", "p"))
        else:  # VC
            out += [(i, "min", t["min_i"](i)), (i, "max", t["max_i"](i)), (i, "nominal", t["nominal_i"](i))]
            out += [(i, "fixed", True), (i, "start", t["start"](i))]
    return out


def combos(items, k):
    for c in itertools.combinations(items, k):
        if len({(i, a) for i, a, _ in c}) == k:
            yield c


def start_pairs(n, seed):
    """Explicit zero start / parameter start on one variable against an explicit start on another (the
    `_DefaultValue` and symbolic-start branches of the merge)."""
    t = tables(seed)
    out = []
    for a in range(1, n + 1):
        for b in range(1, n + 1):
            if a != b:
                out.append(tuple(sorted([(a, "start", 0.0), (b, "start", t["start"](b))], key=lambda x: x[0])))
                out.append(tuple(sorted([(a, "start", "p"), (b, "start", t["start"](b))], key=lambda x: x[0])))
                if a < b:
                    out.append(((a, "start", "p"), (b, "start", "p")))
    return out


@lru_cache(maxsize=None)
def attr_sets(n, key, seed):
    if key == "A0":
        return ((),)
    if key == "A1":
        return tuple((s,) for s in singles(n, "VA", seed))
    if key == "A2A":
        out = list(combos(singles(n, "VA", seed), 2))
        have = set(out)
        return tuple(out + [p for p in start_pairs(n, seed) if p not in have])
    if key == "A2B":
        return tuple(list(combos(singles(n, "VB", seed), 2)) + start_pairs(n, seed))
    if key == "A3B":
        return tuple(combos(singles(n, "VB", seed), 3))
    if key == "A3C":
        return tuple(combos(singles(n, "VC", seed), 3))
    raise KeyError(key)


# tier -> [(structure mode, n, attribute-set keys)]
PLAN = {
    "quick": [
        ("full", 2, ("A0", "A1", "A2A")),
        ("full", 3, ("A0", "A1")),
        ("orient", 3, ("A2B",)),
    ],
    "thorough": [
        ("full", 2, ("A0", "A1", "A2A", "A3B")),
        ("full", 3, ("A0", "A1", "A2A")),
        ("plain", 3, ("A3B",)),
        ("full", 4, ("A0",)),
        ("orient", 4, ("A1",)),
        ("basic", 4, ("A2B", "A3C")),
    ],
}
KEY_DOC = {
    "A0": "no attribute",
    "A1": "1 attribute out of per-variable {min x2, max x2, nominal x2, fixed=false, fixed=true, start, max=p, start=p}",
    "A2A": "2 attributes out of the A1 alphabet (not the same attribute of the same variable twice) + explicit `start = 0` on one "
    "variable against an explicit start on another",
    "A2B": "2 attributes out of per-variable {min x2, max x2, nominal x2, fixed=true, start} + start=0 / start=p on one variable "
    "against an explicit start on another + start=p on two variables",
    "A3B": "3 attributes out of per-variable {min x2, max x2, nominal x2, fixed=true, start}",
    "A3C": "3 attributes out of per-variable {min, max, nominal (one variable-specific value each), fixed=true, start}",
}
MODE_DOC = {
    "full": "every labeled tree x both orientations of every link x 4 forms per link x every permutation of the equation list x 3 kinds",
    "plain": "as full with forms `a = b`, `a = -b` only",
    "orient": "as plain with the equation list in one order",
    "basic": "every labeled tree x sign per link x 3 kinds, links written `v_low = (-)v_high`, one order",
}
TARGET = 240  # programs per job


def make_jobs(tier, seed):
    jobs = []
    levels = []
    for mode, n, keys in PLAN[tier]:
        ss = structures(n, mode)
        for key in keys:
            m = len(attr_sets(n, key, seed))
            levels.append({"structures": mode, "n": n, "attributes": key, "n_structures": len(ss), "n_attribute_sets": m, "programs": len(ss) * m})
            if m >= TARGET:
                parts = -(-m // TARGET)
                for s in ss:
                    for p in range(parts):
                        jobs.append(((s,), key, p, parts, seed))
            else:
                g = max(1, TARGET // m)
                for k in range(0, len(ss), g):
                    jobs.append((tuple(ss[k : k + g]), key, 0, 1, seed))
    return jobs, levels


# ----------------------------------------------------------------------------
# program text


def num(v):
    if v == "p":
        return "p"
    if isinstance(v, bool):
        return "true" if v else "false"
    return repr(float(v))


def text_of(struct, aset):
    n, kind, eqs = struct
    per = {}
    for i, a, v in aset:
        per.setdefault(i, {})[a] = v
    lines = ["model M"]
    if any(v == "p" for _, _, v in aset):
        lines.append("  parameter Real p = 2.5;")
    for i in range(1, n + 1):
        d = "  %sReal v%d" % ("input " if (kind == "input" and i == 1) else "", i)
        if i in per:
            d += "(%s)" % ", ".join("%s = %s" % (a, num(per[i][a])) for a in ATTR_ORDER if a in per[i])
        lines.append(d + ";")
    lines.append("equation")
    for a, b, f in eqs:
        lines.append("  " + FORMS[f][0] % ("v%d" % a, "v%d" % b) + ";")
    if kind == "state":
        lines.append("  der(v1) = 1;")
    elif kind == "alg":
        lines.append("  v1 = sin(time);")
    return "\n".join(lines + ["end M;"]) + "\n"


# ----------------------------------------------------------------------------
# reference


class SignedUF:
    """x = sign(x) * root(x)."""

    def __init__(self, names):
        self.parent = {x: x for x in names}
        self.sign = {x: 1 for x in names}

    def find(self, x):
        s = 1
        while self.parent[x] != x:
            s *= self.sign[x]
            x = self.parent[x]
        return x, s

    def union(self, a, b, s):
        """record a = s * b"""
        ra, sa = self.find(a)
        rb, sb = self.find(b)
        if ra == rb:
            if sa * sb != s:
                raise ValueError("contradictory alias equations")
            return
        self.parent[ra] = rb
        self.sign[ra] = sa * s * sb

    def rel(self, a, b):
        """+1 / -1 if a = +-b follows from the equations, None if unrelated."""
        ra, sa = self.find(a)
        rb, sb = self.find(b)
        return sa * sb if ra == rb else None


def uf_of(struct):
    n, kind, eqs = struct
    uf = SignedUF(["v%d" % i for i in range(1, n + 1)])
    for a, b, f in eqs:
        uf.union("v%d" % a, "v%d" % b, FORMS[f][1])
    return uf


def val(v, pv):
    return pv if v == "p" else float(v)


def expected(r, aliases, per, pv):
    """aliases: {name: sign relative to r}; per: {name: {attr: value}}.
    -> dict attr -> set/list of acceptable numbers at parameter value pv."""
    own = per.get(r, {})
    lo = val(own["min"], pv) if "min" in own else -math.inf
    hi = val(own["max"], pv) if "max" in own else math.inf
    noms = [val(own["nominal"], pv)] if "nominal" in own else []
    some_absent = "nominal" not in own
    fixed = bool(own.get("fixed", False))
    cand = []
    for a, s in sorted(aliases.items()):
        at = per.get(a, {})
        amin = val(at["min"], pv) if "min" in at else -math.inf
        amax = val(at["max"], pv) if "max" in at else math.inf
        if s > 0:
            lo, hi = max(lo, amin), min(hi, amax)
        else:
            lo, hi = max(lo, -amax), min(hi, -amin)
        if "nominal" in at:
            noms.append(val(at["nominal"], pv))
        else:
            some_absent = True
        fixed = fixed or bool(at.get("fixed", False))
        if "start" in at:
            cand.append((a, s * val(at["start"], pv)))
    if not noms:
        nominal = [0.0]  # pymoca's representation of "no nominal given" (C13)
    elif some_absent:
        # an absent nominal is 0 for pymoca (test_simplify_alias_small_nominal) and 1 in Modelica: either reading of
        # "the largest among them" is accepted
        nominal = sorted({max(noms), max(noms + [1.0])})
    else:
        nominal = [max(noms)]
    if "start" in own:
        start = [("own", val(own["start"], pv))]
    elif cand:
        start = cand
    else:
        start = [("default", 0.0)]
    return {"min": [lo], "max": [hi], "nominal": nominal, "fixed": [1.0 if fixed else 0.0], "start": start, "own_start": "start" in own, "alias_start": bool(cand)}


def close(x, y):
    if math.isnan(x) or math.isnan(y):
        return False
    if math.isinf(x) or math.isinf(y):
        return x == y
    return abs(x - y) <= 1e-9 * max(1.0, abs(x), abs(y))


# ----------------------------------------------------------------------------
# one program

MD_GROUPS = ("states", "alg_states", "inputs", "parameters", "constants")
MD_COL = {a: k for k, a in enumerate(c13.ATTRS)}


def spec_of(struct, aset, text):
    n, kind, eqs = struct
    return {"n": n, "kind": kind, "eqs": [list(e) for e in eqs], "attrs": [list(a) for a in aset], "text": text}


def from_spec(spec):
    struct = (spec["n"], spec["kind"], tuple((a, b, f) for a, b, f in spec["eqs"]))
    aset = tuple((i, a, v) for i, a, v in spec["attrs"])
    return struct, aset


def check_one(struct, aset):
    """-> (violations [(sig, msg, case)], info)"""
    import casadi as ca
    from pymoca import parser
    from pymoca.backends.casadi import generator

    n, kind, eqs = struct
    text = text_of(struct, aset)
    case = spec_of(struct, aset, text)
    info = {"text": text, "eliminated": 0, "nontrivial": False, "canon": None, "neg": False}
    names = ["v%d" % i for i in range(1, n + 1)]
    uf = uf_of(struct)
    has_neg = any(FORMS[f][1] < 0 for _, _, f in eqs)
    info["neg"] = has_neg
    tag = kind + ("/neg" if has_neg else "/pos")

    try:
        tree = parser.parse(text, bypass_cache=True)
        if tree is None:
            raise SyntaxError("pymoca reports a syntax error")
        m = generator.generate(tree, "M", dict(OPTS))
        m.simplify(dict(OPTS))
        fmd = m.variable_metadata_function
    except Exception as e:
        # signature = failing site + the attribute kinds present (symbolic ones marked), not the structure
        feats = "+".join(sorted("%s=p" % a if v == "p" else a for _, a, v in aset)) or "no-attributes"
        sig = "simplify-raises:%s:%s%s" % (common.exc_sig(e), feats, ":negative-link" if has_neg else "")
        return [(sig, "generation / alias elimination raises %r\n%s" % (e, text), case)], info

    where = {}
    for gi, g in enumerate(MD_GROUPS[:3]):
        for row, v in enumerate(getattr(m, g)):
            where[v.symbol.name()] = (gi, row, v)
    remaining = [x for x in names if x in where]
    gone = [x for x in names if x not in where]
    info["eliminated"] = len(gone)
    viol = []

    # --- which variable stands for which: Variable.aliases and alias_relation against the union-find ----
    claimed = {}  # eliminated name -> (survivor, sign)
    struct_ok = True
    rel_items = {}
    for c, al in m.alias_relation:
        rel_items[c] = set(al)
    for r in remaining:
        al = set(where[r][2].aliases)
        if al != rel_items.get(r, set()):
            viol.append(("aliases-vs-relation:" + tag, "Variable(%s).aliases = %r but alias_relation lists %r\n%s" % (r, sorted(al), sorted(rel_items.get(r, set())), text), case))
            struct_ok = False
        for sa in al:
            s, a = (-1, sa[1:]) if sa.startswith("-") else (1, sa)
            want = uf.rel(r, a) if a in uf.parent else None
            if want is None:
                viol.append(("alias-not-implied:" + tag, "%s lists alias %r, which does not follow from the equations\n%s" % (r, sa, text), case))
                struct_ok = False
            elif want != s:
                viol.append(("alias-sign:" + tag, "%s lists alias %r, the equations imply %s = %s%s\n%s" % (r, sa, a, "-" if want < 0 else "", r, text), case))
                struct_ok = False
            elif a in where:
                viol.append(("alias-not-eliminated:" + tag, "%s lists alias %r, which is still a model variable\n%s" % (r, sa, text), case))
                struct_ok = False
            elif a in claimed:
                viol.append(("alias-claimed-twice:" + tag, "%s is an alias of both %s and %s\n%s" % (a, claimed[a][0], r, text), case))
                struct_ok = False
            else:
                claimed[a] = (r, s)
    for c in rel_items:
        if c not in where:
            viol.append(("canonical-not-in-model:" + tag, "alias_relation has canonical %r, which is not a variable of the model\n%s" % (c, text), case))
            struct_ok = False
    for a in gone:
        if a not in claimed:
            viol.append(("eliminated-unaccounted:" + tag, "%s was eliminated but is nobody's alias: its attributes are lost\n%s" % (a, text), case))
            struct_ok = False
    for x in names:
        c, s = m.alias_relation.canonical_signed(x)
        want = uf.rel(x, c) if c in uf.parent else None
        if want is None or want != s or c not in where:
            viol.append(("canonical-signed:" + tag, "alias_relation.canonical_signed(%r) = %r; the equations give %s, survivors %r\n%s" % (x, (c, s), want, remaining, text), case))
            struct_ok = False
    if not struct_ok:
        return viol, info

    # --- merged attributes ---------------------------------------------------------------------------
    per = {}
    for i, a, v in aset:
        per.setdefault("v%d" % i, {})[a] = v
    has_p = any(v == "p" for _, _, v in aset)
    points = P_POINTS if has_p else (0.0,)
    info["nontrivial"] = bool(gone) and bool(aset)
    if gone and kind == "alg":
        info["canon"] = ",".join(remaining)
    for r in remaining:
        aliases = {a: s for a, (rr, s) in claimed.items() if rr == r}
        if not aliases:
            continue  # nothing was merged into r; its attributes are C13's business
        gi, row, var = where[r]
        cls_neg = any(s < 0 for s in aliases.values())
        ctag = kind + ("/negative-alias" if cls_neg else "/positive-aliases")
        got_obj = {a: [] for a in ATTR_ORDER}
        got_md = {a: [] for a in ATTR_ORDER}
        exp = []
        bad_read = False
        for pv in points:
            pvals = {"p": pv} if has_p else {}
            exp.append(expected(r, aliases, per, pv))
            for a in ATTR_ORDER:
                try:
                    g = c13.attr_value(m, getattr(var, a), pvals)
                    got_obj[a].append(float(g[0]) if g.size == 1 else float("nan"))
                except Exception as e:
                    viol.append(("attribute-unreadable:%s:%s" % (ctag, a), "Variable(%s).%s = %r cannot be evaluated: %r\n%s" % (r, a, getattr(var, a), e, text), case))
                    bad_read = True
            if bad_read:
                break
            outs = fmd(ca.DM([pv] if has_p else []))
            mat = np.array(ca.DM(outs[gi]))
            for a in ATTR_ORDER:
                got_md[a].append(float(mat[row, MD_COL[a]]))
        if bad_read:
            continue
        desc = "%s stands for %s" % (r, ", ".join(("-" if s < 0 else "") + a for a, s in sorted(aliases.items())))
        for src, got in (("variable", got_obj), ("metadata-function", got_md)):
            for a in ("min", "max", "nominal", "fixed"):
                # acceptable alternatives must be matched consistently over the parameter points
                alts = range(len(exp[0][a]))
                ok = any(all(close(got[a][k], exp[k][a][j]) if a != "fixed" else ((got[a][k] != 0) == (exp[k][a][j] != 0)) for k in range(len(points))) for j in alts)
                if not ok:
                    viol.append(("wrong-%s:%s:%s" % (a, ctag, src), "%s: %s of %s is %r (%s), the statement gives %r%s\n%s" % (desc, a, r, got[a], src, [e[a] for e in exp], " at p = %r" % (points,) if has_p else "", text), case))
            alts = range(len(exp[0]["start"]))
            ok = any(all(close(got["start"][k], exp[k]["start"][j][1]) for k in range(len(points))) for j in alts)
            if not ok:
                clause = "start-not-kept" if exp[0]["own_start"] else ("start-not-from-alias" if exp[0]["alias_start"] else "start-not-default")
                viol.append(("%s:%s:%s" % (clause, ctag, src), "%s: start of %s is %r (%s), acceptable %r%s\n%s" % (desc, r, got["start"], src, [e["start"] for e in exp], " at p = %r" % (points,) if has_p else "", text), case))
        # a wrong Variable attribute shows again in the function derived from it: keep the first
        seen = {v[0].rsplit(":", 1)[0] for v in viol if v[0].endswith(":variable")}
        viol = [v for v in viol if not (v[0].endswith(":metadata-function") and v[0].rsplit(":", 1)[0] in seen)]
    return viol, info


def h64(text):
    return hashlib.blake2b(text.encode(), digest_size=8).digest()


PER_SIG = 3  # violations carried back per signature and job (all are counted)


def work(job):
    structs, key, part, parts, seed = job
    res = {"programs": 0, "nontrivial": [], "all": [], "viol": [], "sigs": {}, "eliminated": {}, "canon": {}, "neg_nontrivial": 0, "violating": 0}
    for s in structs:
        sets = attr_sets(s[0], key, seed)
        for aset in sets[part::parts]:
            viol, info = check_one(s, aset)
            res["programs"] += 1
            h = h64(info["text"])
            res["all"].append(h)
            if info["nontrivial"]:
                res["nontrivial"].append(h)
                if info["neg"]:
                    res["neg_nontrivial"] += 1
            k = "%d-of-%d" % (info["eliminated"], s[0])
            res["eliminated"][k] = res["eliminated"].get(k, 0) + 1
            if info["canon"]:
                res["canon"][info["canon"]] = res["canon"].get(info["canon"], 0) + 1
            if viol:
                res["violating"] += 1
            for sig, msg, case in viol:
                c = res["sigs"].get(sig, 0)
                res["sigs"][sig] = c + 1
                if c < PER_SIG:
                    res["viol"].append((sig, msg, case))
    res["nontrivial"] = b"".join(res["nontrivial"])
    res["all"] = b"".join(res["all"])
    return res


def run(ctx):
    jobs, levels = make_jobs(ctx.tier, ctx.seed)
    if jobs:  # the seed rotates the order of work only
        k = (ctx.seed * 7919) % len(jobs)
        jobs = jobs[k:] + jobs[:k]
    with common.Pool() as pool:
        results = pool.map(work, jobs, chunksize=1)
    programs = 0
    elim, canon, sigs = {}, {}, {}
    neg_nt = violating = 0
    kept = {}
    for r in results:
        programs += r["programs"]
        neg_nt += r["neg_nontrivial"]
        violating += r["violating"]
        for d, src in ((elim, r["eliminated"]), (canon, r["canon"]), (sigs, r["sigs"])):
            for k, v in src.items():
                d[k] = d.get(k, 0) + v
        for sig, msg, case in r["viol"]:
            if kept.get(sig, 0) < 5:
                kept[sig] = kept.get(sig, 0) + 1
                ctx.violation(sig, msg, case)
    nt = np.unique(np.frombuffer(b"".join(r["nontrivial"] for r in results), dtype=np.uint64))
    distinct = np.unique(np.frombuffer(b"".join(r["all"] for r in results), dtype=np.uint64))
    if programs and len(nt) == 0:
        raise RuntimeError("no program had a variable eliminated: alias detection never fired, the property was not exercised")
    for j in (0, len(jobs) // 2, len(jobs) - 1):
        structs, key, part, parts, seed = jobs[j]
        sets = attr_sets(structs[-1][0], key, seed)[part::parts]
        ctx.sample({"attributes": key, "model": text_of(structs[-1], sets[len(sets) // 2])})
    ctx.coverage.update(
        {
            "evaluations": programs,
            "programs": programs,
            "distinct_programs": int(len(distinct)),
            "distinct_nontrivial": int(len(nt)),
            "nontrivial_with_negative_link": neg_nt,
            "levels": levels,
            "eliminated_variables": elim,
            "surviving_variable_when_all_algebraic": canon,
            "violating_programs": violating,
            "violations_by_signature": sigs,
            "exhaustive": True,
            "structure_sets": MODE_DOC,
            "attribute_sets": KEY_DOC,
            "rule": "alias trees over v1..vn (v1 a state with der(v1) = 1 / algebraic / input, the others algebraic); a level is "
            "(structure set, n, attribute sets) and every element of the product is run -- see `levels`, `structure_sets`, "
            "`attribute_sets`. Numeric grids: min {-3, 1}, max {2, 6}, nominal {0.5, 4}, start 1.5 + 0.25 i (scaled per seed), "
            "p evaluated at %r. Each program is generated and simplified with detect_aliases; alias_relation and Variable.aliases "
            "are compared with a signed union-find of the written equations, and min/max/nominal/fixed/start of every surviving "
            "variable with the statement's merge of its class, on the Variable and in variable_metadata_function. Non-trivial = "
            "pymoca eliminated at least one variable and the class carries at least one explicit attribute (the merge has "
            "something to get wrong)." % (P_POINTS,),
        }
    )
    ctx.assumptions.append(
        "which variable survives is read from the model, not prescribed; with several explicit alias starts any of them is "
        "accepted; a class mixing explicit and absent nominals may report the largest explicit one (absent = 0, pymoca) or "
        "max(1, that) (absent = 1, Modelica); exactly one of v1..vn is a state or an input; attributes are literals or the "
        "single parameter p; whether every alias equation is detected is not demanded (C14/C15), only counted in "
        "`eliminated_variables`"
    )


def replay(case):
    struct, aset = from_spec(case)
    viol, info = check_one(struct, aset)
    print(info["text"])
    for sig, msg, _ in viol:
        print(" ", sig, "--", msg.split("\n")[0])
    if not viol:
        print("  ok")
    return not viol
