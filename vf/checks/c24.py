"""C24 -- the SymPy backend emits code with the flat model's meaning.

E4, five bounded-exhaustive families of models fed as text to the real
pymoca.backends.sympy.generator.generate; the generated source is compiled and executed with the real
OdeModel whose solver step (compute_fg) is stubbed out, and the resulting object is compared with a small
reference (own flattener for one level of components + vf.ref.mast evaluator):

* expr   every expression tree with <= N operator nodes over + - * / ^, unary minus, sin/cos/tan, der(state)
         and leaves of every classification (state, algebraic, parameter, constant, input, time, literal), as
         right-hand side (small ones also as left-hand side), printed with minimal and with full parentheses;
* lit    every tree with <= n operator nodes over + - * / ^ and unary - / + in which every leaf position takes each
         of: a real-valued variable, an integer-valued variable, an integer literal, a real literal -- so bare and
         signed literals are met as base and as exponent of ^, as left / right operand of - and /, under a sign, ...;
         the integer-valued variable makes powers of negative bases real, so the grouping shows in the value;
* names  the base model (one variable per classification + one component `a` with a.b, a.k) with <= k variables
         renamed to names that are Python builtins / names on pymoca's own clash list / the suffixed or
         double-underscore names its mangler produces;
* mangle a systematic set of flat names: every plain or dotted spelling (any nesting depth) that '.' -> '__' turns into
         one of a few identifiers (a.b / a__b; a._b / a_.b / a___b; a.b.c / a.b__c / a__b.c / a__b__c; the same with an
         underscore appended), and reserved names with their suffixed twins; models with one / two / three of these
         names in every combination of categories (nested component classes are generated as the dots require);
* struct the base model under <= k structural deviations (a class of variables absent / doubled, output that is
         a state, der inside an expression, components with input/output members, declaration forms).

Oracle (exactly the statement): the source compiles and instantiates; every entry of `eqs`, with grid values put
in for symbols, derivatives and time, equals lhs - rhs of one flat equation (sign convention of the template:
left - right); x / v / c / p / u / y hold exactly the variables the flat model classifies as state / variable
(no prefix, or output that is not a state) / constant / parameter / input / output; distinct Modelica variables
(and time) are distinct symbols and distinct Python identifiers.
"""
import ast as pyast
import gc
import itertools
import math
import sys
import types

from vf.core import common
from vf.ref import expr as X
from vf.ref import mast as M
from vf.ref.mast import B, N, V, Decl

LEVEL = "exploration"
RUNTIME = "pymoca.backends.sympy.runtime"

# ---------------------------------------------------------------------------------------------------------
# models of our own: top-level declarations + equations + components of one small class each


class Comp:
    """`cls inst;` in the model, with `model cls <decls> equation <eqs> end cls;` next to it."""

    def __init__(self, cls, inst, decls, eqs):
        self.cls, self.inst, self.decls, self.eqs = cls, inst, list(decls), list(eqs)

    def text(self):
        out = ["model " + self.cls] + ["  " + d.text() for d in self.decls] + ["equation"]
        for e in self.eqs:
            out += M.peq(e)
        return "\n".join(out + ["end %s;" % self.cls]) + "\n"


class SModel:
    def __init__(self, decls, eqs, comps=(), name="M", mode="min"):
        self.name, self.decls, self.eqs, self.comps, self.mode = name, list(decls), list(eqs), list(comps), mode

    def text(self):
        out = [c.text() for c in self.comps]
        out.append("model " + self.name)
        out += ["  " + d.text() for d in self.decls]
        out += ["  %s %s;" % (c.cls, c.inst) for c in self.comps]
        out.append("equation")
        for e in self.eqs:
            out.append("  %s = %s;" % (pexpr(e[1], self.mode), pexpr(e[2], self.mode)))
        out.append("end %s;" % self.name)
        return "\n".join(out) + "\n"

    # ---- reference flat model -------------------------------------------------------------------------
    def flat(self):
        """(variables, equations): variables = [(flat name, prefix at flat level)], equations over flat names.
        One level of components: members are prefixed with the instance name, member equations likewise,
        input/output of members are not kept (only the top level has inputs and outputs)."""
        fvars = [(d.name, d.prefix) for d in self.decls]
        feqs = list(self.eqs)
        for c in self.comps:
            for d in c.decls:
                fvars.append((c.inst + "." + d.name, d.prefix if d.prefix in ("parameter", "constant") else ""))
            local = {d.name for d in c.decls}
            feqs += [("eq", rename(e[1], local, c.inst), rename(e[2], local, c.inst)) for e in c.eqs]
        return fvars, feqs

    def classification(self):
        fvars, feqs = self.flat()
        states = set()
        for e in feqs:
            for side in (e[1], e[2]):
                states |= ders(side)
        cl = {k: [] for k in "xvcpuy"}
        for n, pre in fvars:
            if n in states:
                cl["x"].append(n)
            if pre == "constant":
                cl["c"].append(n)
            elif pre == "parameter":
                cl["p"].append(n)
            elif pre == "input":
                cl["u"].append(n)
            elif pre == "output":
                cl["y"].append(n)
                if n not in states:
                    cl["v"].append(n)
            elif n not in states:
                cl["v"].append(n)
        return cl


def rename(n, local, inst):
    k = n[0]
    if k == "var":
        return ("var", inst + "." + n[1]) if n[1] in local else n
    if k == "num":
        return n
    if k == "der":
        return ("der", rename(n[1], local, inst))
    if k == "un":
        return ("un", n[1], rename(n[2], local, inst))
    if k == "bin":
        return ("bin", n[1], rename(n[2], local, inst), rename(n[3], local, inst))
    if k == "call":
        return ("call", n[1], tuple(rename(a, local, inst) for a in n[2]))
    raise ValueError(n)


def ders(n):
    k = n[0]
    if k == "der":
        return {n[1][1]}
    if k == "un":
        return ders(n[2])
    if k == "bin":
        return ders(n[2]) | ders(n[3])
    if k == "call":
        return set().union(*[ders(a) for a in n[2]])
    return set()


def pexpr(n, mode):
    return M.pe(n) if mode == "min" else _pfull(n)


def _pfull(n):
    """Every operator node in its own parentheses (calls and der bring theirs)."""
    k = n[0]
    if k in ("var", "num"):
        return n[1]
    if k == "der":
        return "der(%s)" % _pfull(n[1])
    if k == "call":
        return "%s(%s)" % (n[1], ", ".join(_pfull(a) for a in n[2]))
    if k == "un":
        return "(%s%s)" % (n[1], _pfull(n[2]))
    return "(%s %s %s)" % (_pfull(n[2]), n[1], _pfull(n[3]))


# ---------------------------------------------------------------------------------------------------------
# family `expr`

BINOPS = ["+", "-", "*", "/", "^"]
CALLS = ["sin", "cos", "tan"]
LEAVES = [V("x"), V("v"), V("p"), V("c"), V("u"), V("time"), N(2)]


def gen(n, memo):
    """All trees with exactly n operator nodes; leaves are ("leaf",); der(<state>) is one operator node."""
    if n in memo:
        return memo[n]
    if n == 0:
        out = [("leaf",)]
    else:
        out = [("der", V("x"))] if n == 1 else []
        sub = gen(n - 1, memo)
        out += [("un", "-", t) for t in sub]
        for c in CALLS:
            out += [("call", c, (t,)) for t in sub]
        for i in range(n):
            ls, rs = gen(i, memo), gen(n - 1 - i, memo)
            for op in BINOPS:
                out += [("bin", op, l, r) for l in ls for r in rs]
    memo[n] = out
    return out


def bind(tree, offset):
    """Leaves left to right: LEAVES[offset], LEAVES[offset + 1], ... (cyclic)."""
    cnt = [offset]

    def rec(n):
        k = n[0]
        if k == "leaf":
            v = LEAVES[cnt[0] % len(LEAVES)]
            cnt[0] += 1
            return v
        if k == "der":
            return n
        if k == "un":
            return ("un", n[1], rec(n[2]))
        if k == "call":
            return ("call", n[1], tuple(rec(a) for a in n[2]))
        l = rec(n[2])
        return ("bin", n[1], l, rec(n[3]))

    return rec(tree)


def nops(n):
    k = n[0]
    if k in ("var", "num", "leaf"):
        return 0
    if k == "der":
        return 1
    if k == "un":
        return 1 + nops(n[2])
    if k == "call":
        return 1 + sum(nops(a) for a in n[2])
    return 1 + nops(n[2]) + nops(n[3])


# parent:child:side pairs whose parentheses Modelica's grammar needs but whose removal leaves the value alone
# (associativity / sign laws): they cannot be the cause of a wrong value
_HARMLESS = {"*:*:right", "*:/:right", "*:neg:left", "*:neg:right", "/:neg:left", "+:+:right", "+:-:right",
             "+:neg:right", "-:neg:right", "^:^:right"}  # fmt: skip


def _pairs(n, out):
    k = n[0]
    if k in ("var", "num", "der"):
        return out
    if k == "call":
        for a in n[2]:
            _pairs(a, out)
        return out
    if k == "un":
        c = n[2]
        if M._lvl(c) < X.L_TERM:
            out.append("neg:%s" % _opname(c))
        return _pairs(c, out)
    op, l, r = n[1], n[2], n[3]
    if M._lvl(l) < X._left_min(op):
        out.append("%s:%s:left" % (op, _opname(l)))
    if M._lvl(r) < X._right_min(op):
        out.append("%s:%s:right" % (op, _opname(r)))
    _pairs(l, out)
    return _pairs(r, out)


def grouping(n):
    """A parent/child pair (pre-order) for which Modelica needs parentheses round the child, as `parent:child:side`
    -- the first one whose parentheses matter for the value if there is one; None if the minimal text has no
    parentheses of its own.  A child that is a sign applied directly to a numeric literal is named `signed-literal`
    (a printer may treat that as a literal of its own)."""
    ps = _pairs(n, [])
    for p in ps:
        if p.replace("signed-literal", "neg") not in _HARMLESS:
            return p
    return ps[0] if ps else None


def _opname(n):
    if n[0] == "un":
        return "signed-literal" if n[2][0] == "num" else "neg"
    return n[1] if n[0] == "bin" else n[0]


PACK = 16


def base_decls():
    return [
        Decl("x"),
        Decl("v"),
        Decl("p", prefix="parameter", value=N(2.5)),
        Decl("c", prefix="constant", value=N(3)),
        Decl("u", prefix="input"),
        Decl("y", prefix="output"),
    ]


def expr_cases(tier):
    """[(tree, mode, orient)]: orient 'rhs' = tree on the right, 'lhs' = tree on the left (small trees)."""
    nmax = 3 if tier == "quick" else 4
    memo = {}
    cases = []
    idx = 0
    for n in range(1, nmax + 1):
        for t in gen(n, memo):
            nleaves = _nleaves(t)
            if tier == "thorough" and n <= 3:
                offs = range(len(LEAVES)) if nleaves else (0,)
            else:
                offs = (idx % len(LEAVES),)
            for o in offs:
                b = bind(t, o)
                for mode in ("min", "full"):
                    cases.append((b, mode, "rhs"))
                    if n <= 2 and o == offs[0]:
                        cases.append((b, mode, "lhs"))
            idx += 1
    return cases, nmax


def _nleaves(t):
    k = t[0]
    if k == "leaf":
        return 1
    if k == "der":
        return 0
    if k == "un":
        return _nleaves(t[2])
    if k == "call":
        return sum(_nleaves(a) for a in t[2])
    return _nleaves(t[2]) + _nleaves(t[3])


def expr_model(items, fam="expr"):
    """items: [(tree, mode, orient)], all of one mode.  First three defined quantities are der(x), y, v so that the
    frame has a variable of every classification in every model; the rest are fresh algebraic variables.
    fam 'lit': one more parameter, n, whose grid values are integers (so that a negative base has a real power)."""
    decls = base_decls()
    if fam == "lit":
        decls.append(Decl("n", prefix="parameter", value=N(2)))
    eqs = []
    for j, (t, mode, orient) in enumerate(items):
        if j == 0:
            q = ("der", V("x"))
        elif j == 1:
            q = V("y")
        elif j == 2:
            q = V("v")
        else:
            decls.append(Decl("w%d" % j))
            q = V("w%d" % j)
        eqs.append(("eq", q, t) if orient == "rhs" else ("eq", t, q))
    # x must be a state in every model of the family
    if not any("x" in (ders(e[1]) | ders(e[2])) for e in eqs):
        decls.append(Decl("w_s"))
        eqs.append(("eq", ("der", V("x")), V("w_s")))
    m = SModel(decls, eqs, mode=items[0][1] if items else "min")
    if fam == "lit":
        m.ints = ("n",)
    return m


# ---------------------------------------------------------------------------------------------------------
# family `lit`: numeric literals (bare and signed) in every operand position

LIT_LEAVES = [V("p"), V("n"), N(2), N("0.5")]  # real-valued variable, integer-valued variable, integer and real literal
LIT_UN = ["-", "+"]


def gen_lit(n, memo):
    """All trees with exactly n operator nodes over binary + - * / ^ and unary - +, every leaf position taking every
    element of LIT_LEAVES (so a literal, and a sign applied directly to a literal, is met as base and as exponent of
    ^, as left and right operand of - and /, ...)."""
    if n in memo:
        return memo[n]
    if n == 0:
        out = list(LIT_LEAVES)
    else:
        out = [("un", sg, t) for sg in LIT_UN for t in gen_lit(n - 1, memo)]
        for i in range(n):
            ls, rs = gen_lit(i, memo), gen_lit(n - 1 - i, memo)
            for op in BINOPS:
                out += [("bin", op, l, r) for l in ls for r in rs]
    memo[n] = out
    return out


def consts_defined(t):
    """False if some literal-only sub-expression has no real finite value (2 / (2 - 2), (-2) ^ 0.5): Python would
    raise / go complex while the module is constructed, and the model means nothing in Modelica either."""

    def rec(n):  # -> is n literal-only
        k = n[0]
        if k == "num":
            return True
        if k == "un":
            return rec(n[2])
        if k == "bin":
            l, r = rec(n[2]), rec(n[3])
            if l and r:
                M.evn(n, {})
                return True
        return False

    try:
        rec(t)
        return True
    except X.Undefined:
        return False


def has_literal(n):
    k = n[0]
    if k == "num":
        return True
    if k == "un":
        return has_literal(n[2])
    if k == "bin":
        return has_literal(n[2]) or has_literal(n[3])
    return False


def lit_cases(tier):
    """-> ([(tree, mode, orient)], max operator nodes, number of trees left out by consts_defined)"""
    nmax = 2 if tier == "quick" else 3
    memo = {}
    cases, skipped = [], 0
    for n in range(0, nmax + 1):
        for t in gen_lit(n, memo):
            if not consts_defined(t):
                skipped += 1
                continue
            for mode in ("min", "full"):
                cases.append((t, mode, "rhs"))
                if n <= 1:
                    cases.append((t, mode, "lhs"))
    return cases, nmax, skipped


# ---------------------------------------------------------------------------------------------------------
# family `names`

SLOTS = ["x", "v", "p", "c", "u", "y"]
NAME_POOL = [
    "copy", "copy_", "copy__", "keys", "psi", "psi_",  # on pymoca's clash list (dict attributes, psi) + their suffixed forms
    "print", "print_", "len", "super",  # Python builtins
    "a__b", "a__b_", "a__k", "a_b",  # what a mangler makes (could make) of a.b, a.k
    "x_", "t", "t_",  # suffixed form of a base name; the name of the time symbol
]  # fmt: skip
QUICK_POOL = ["copy", "copy_", "psi", "psi_", "print", "print_", "super", "a__b", "a__k", "x_", "t"]
DEEP_POOL = ["copy", "copy_", "copy__", "print", "print_", "a__b", "a__b_", "a__k", "t", "t_"]  # for the third renaming (thorough)


def names_model(ren):
    """Base model; ren: slot -> new name."""
    nm = {s: ren.get(s, s) for s in SLOTS}
    x, v, p, c, u, y = (V(nm[s]) for s in SLOTS)
    decls = base_decls()
    for d, s in zip(decls, SLOTS):
        d.name = nm[s]
    comp = Comp("A", "a", [Decl("b"), Decl("k", prefix="parameter", value=N(1.5))], [("eq", V("b"), B("+", B("*", V("k"), N(2)), V("time")))])
    eqs = [
        ("eq", ("der", x), B("-", B("*", p, u), B("*", c, x))),
        ("eq", v, B("+", B("-", B("*", x, N(2)), B("/", u, p)), V("a.b"))),
        ("eq", y, B("-", B("+", v, B("*", c, V("time"))), B("*", V("a.k"), x))),
    ]
    return SModel(decls, eqs, [comp])


def names_cases(tier):
    pool = QUICK_POOL if tier == "quick" else NAME_POOL
    kmax = 2 if tier == "quick" else 3
    out = [{}]
    for k in range(1, kmax + 1):
        for slots in itertools.combinations(SLOTS, k):
            for names in itertools.permutations(pool if k <= 2 else DEEP_POOL, k):
                out.append(dict(zip(slots, names)))
    return out, kmax, pool


def name_relations(names, comp_names=("a.b", "a.k")):
    """Which collisions a mangler could produce among these names (used for the non-trivial rule and signatures)."""
    import builtins

    names = list(names) + list(comp_names)
    rel = set()
    for n in names:
        if n in dir(dict) or n == "psi":
            rel.add("on-clash-list")
        elif n in dir(builtins):
            rel.add("python-builtin")
        if n == "t":
            rel.add("time-symbol-name")
    for a in names:
        for b in names:
            if a != b and b.rstrip("_") == a and b != a:
                rel.add("suffixed-twin")
            if a != b and "." in a and a.replace(".", "__") == b:
                rel.add("dotted-vs-double-underscore")
    return rel


# ---------------------------------------------------------------------------------------------------------
# family `struct`

DEVS = [
    "no-state", "no-alg", "no-param", "no-const", "no-input", "no-output",
    "two-state", "two-alg", "two-param", "two-const", "two-input", "two-output",
    "output-is-state", "der-in-expression", "component", "component-io",
    "param-no-value", "param-start-only", "param-negative", "state-start",
]  # fmt: skip
EXCL = [("no-state", "two-state"), ("no-alg", "two-alg"), ("no-param", "two-param"), ("no-const", "two-const"),
        ("no-input", "two-input"), ("no-output", "two-output"), ("no-output", "output-is-state"), ("no-state", "der-in-expression"),
        ("no-state", "state-start"), ("no-param", "param-no-value"), ("no-param", "param-start-only"), ("no-param", "param-negative"),
        ("param-no-value", "param-start-only"), ("param-no-value", "param-negative"), ("param-start-only", "param-negative"),
        ("component", "component-io")]  # fmt: skip
COEF = [1.2345678, 2.5, 3.5, 4.5, 5.5, 6.5, 7.5, 8.5, 9.5, 10.5, 11.5, 12.5, 13.5, 14.5]


def struct_model(devs):
    devs = set(devs)
    decls, defined = [], []  # defined: (lhs expression) needing an equation

    def cls(tag, names, mk):
        n = 0 if "no-" + tag in devs else 2 if "two-" + tag in devs else 1
        for nme in names[:n]:
            decls.append(mk(nme))
        return names[:n]

    xs = cls("state", ["x", "s"], lambda n: Decl(n, mods={"start": N(1.5)} if "state-start" in devs else None))
    vs = cls("alg", ["v", "w"], lambda n: Decl(n))

    def mkparam(n):
        if "param-no-value" in devs:
            return Decl(n, prefix="parameter")
        if "param-start-only" in devs:
            return Decl(n, prefix="parameter", mods={"start": N(2.5)})
        if "param-negative" in devs:
            return Decl(n, prefix="parameter", value=("un", "-", N(2.5)))
        return Decl(n, prefix="parameter", value=N(2.5))

    ps = cls("param", ["p", "q"], mkparam)
    cs = cls("const", ["c", "d"], lambda n: Decl(n, prefix="constant", value=N(3)))
    us = cls("input", ["u", "r"], lambda n: Decl(n, prefix="input"))
    ys = cls("output", ["y", "z"], lambda n: Decl(n, prefix="output"))
    comps = []
    extra = []
    if "component" in devs or "component-io" in devs:
        cd = [Decl("b"), Decl("k", prefix="parameter", value=N(1.5))]
        ce = [("eq", V("b"), B("+", B("*", V("k"), N(2)), V("time")))]
        if "component-io" in devs:
            cd += [Decl("i", prefix="input"), Decl("o", prefix="output")]
            ce.append(("eq", V("o"), B("-", V("b"), V("i"))))
            extra.append(V("a.i"))  # needs an equation at the top level
        comps.append(Comp("A", "a", cd, ce))
    allv = [V(n) for n in xs + vs + ps + cs + us + ys] + [V("time")]
    if comps:
        allv.append(V("a.b"))

    def lin(k):
        """left-nested sum of coefficient * variable over everything visible, coefficients rotated by k: no
        parentheses are needed anywhere, so this family does not depend on the expression printer's grouping"""
        e = None
        for i, v in enumerate(allv):
            term = B("*", N(COEF[(i + k) % len(COEF)]), v)
            e = term if e is None else B("+" if (i + k) % 3 else "-", e, term)
        return e

    eqs = []
    k = 0
    for i, n in enumerate(xs):
        if "der-in-expression" in devs and i == 0:
            eqs.append(("eq", lin(k), B("*", N(2), ("der", V(n)))))
        else:
            eqs.append(("eq", ("der", V(n)), lin(k)))
        k += 1
    for n in vs:
        eqs.append(("eq", V(n), lin(k)))
        k += 1
    for i, n in enumerate(ys):
        if "output-is-state" in devs and i == 0:
            eqs.append(("eq", ("der", V(n)), lin(k)))
        else:
            eqs.append(("eq", V(n), lin(k)))
        k += 1
    for q in extra:
        eqs.append(("eq", q, lin(k)))
        k += 1
    return SModel(decls, eqs, comps)


def struct_cases(tier):
    kmax = 2 if tier == "quick" else 3
    out = []
    for k in range(0, kmax + 1):
        for ds in itertools.combinations(DEVS, k):
            if any(a in ds and b in ds for a, b in EXCL):
                continue
            out.append(list(ds))
    return out, kmax


# ---------------------------------------------------------------------------------------------------------
# family `mangle`: a systematic set of flat names several of which become the same Python identifier


def preimages(ident):
    """Every Modelica name (plain or dotted, any depth) that replacing '.' by '__' turns into `ident`."""
    out = []

    def rec(i, cur):
        if i == len(ident):
            if all(seg and not seg[0].isdigit() for seg in cur.split(".")):
                out.append(cur)
            return
        if ident.startswith("__", i):
            rec(i + 2, cur + ".")
        rec(i + 1, cur + ident[i])

    rec(0, "")
    return out


MANGLE_TARGETS = ["a__b", "a__b_", "a___b", "a__b__c", "a__b__", "a__b__c_"]  # the last two: thorough only
RESERVED_BASES = ["print", "t", "super"]  # a builtin, the time symbol, a builtin the generated module calls
CATS_TOP = ["x", "v", "p", "c", "u", "y"]
CATS_MEMBER = ["x", "v", "p", "c"]  # a component member is not an input / output of the flat model


def mangle_universe(tier):
    targets = MANGLE_TARGETS[:4] if tier == "quick" else MANGLE_TARGETS
    names = [n for t in targets for n in preimages(t)]
    for r in RESERVED_BASES:
        names += [r, r + "_"] + ([r + "__"] if tier != "quick" else [])
    assert len(set(names)) == len(names)
    return names


def _cats(name):
    return CATS_MEMBER if "." in name else CATS_TOP


def _compatible(names):
    """No name is a component on the path of another (a.b next to a.b.c, a__b next to a__b.c)."""
    return not any(a != b and b.startswith(a + ".") for a in names for b in names)


def related(names):
    """All of them come out as the same identifier up to trailing underscores, i.e. they compete for one name."""
    return len({key(n) for n in names}) == 1


def mangle_cases(tier):
    """[((name, category), ...)]: every name alone in every category; every pair of names (competing pairs, thorough:
    all pairs, in every combination of categories, the others in one rotating combination); every triple of competing
    names in every combination of categories (thorough: every other triple in one rotating combination)."""
    names = mangle_universe(tier)
    out = []
    idx = 0
    for k in (1, 2, 3):
        for combo in itertools.combinations(names, k):
            if not _compatible(combo):
                continue
            rel = related(combo)
            if k == 3 and tier == "quick" and not rel:
                continue
            if k == 1 or rel or (k == 2 and tier != "quick"):
                for cats in itertools.product(*[_cats(n) for n in combo]):
                    out.append(tuple(zip(combo, cats)))
            else:
                cats = [_cats(n)[(idx + j) % len(_cats(n))] for j, n in enumerate(combo)]
                out.append(tuple(zip(combo, cats)))
            idx += 1
    return out, names


def _lin(allv, k):
    """left-nested sum of coefficient * variable, coefficients rotated by k: no parentheses are needed anywhere"""
    e = None
    for i, v in enumerate(allv):
        term = B("*", N(COEF[(i + k) % len(COEF)]), v)
        e = term if e is None else B("+" if (i + k) % 3 else "-", e, term)
    return e


def _decl(name, cat):
    if cat == "p":
        return Decl(name, prefix="parameter", value=N(2.5))
    if cat == "c":
        return Decl(name, prefix="constant", value=N(3))
    return Decl(name, prefix={"u": "input", "y": "output"}.get(cat, ""))


class TModel(SModel):
    """A model that has exactly the given flat variables [(flat name, category)] (+ a frame x p u y): dotted names
    become members of (nested) components, one class per component instance; all equations are at the top level."""

    FRAME = (("x", "x"), ("p", "p"), ("u", "u"), ("y", "y"))

    def __init__(self, spec):
        self.spec = [tuple(i) for i in spec]
        allspec = list(self.FRAME) + self.spec
        allv = [V(n) for n, _ in allspec] + [V("time")]
        eqs = []
        for n, cat in allspec:
            if cat == "x":
                eqs.append(("eq", ("der", V(n)), _lin(allv, len(eqs))))
            elif cat in "vy":
                eqs.append(("eq", V(n), _lin(allv, len(eqs))))
        SModel.__init__(self, [], eqs)
        self.allspec = allspec

    def text(self):
        root = {"vars": [], "comps": {}}
        for n, cat in self.allspec:
            segs = n.split(".")
            node = root
            for sg in segs[:-1]:
                node = node["comps"].setdefault(sg, {"vars": [], "comps": {}})
            node["vars"].append(_decl(segs[-1], cat))
        out, cnt = [], [0]

        def emit(node, cname):
            body = ["  " + d.text() for d in node["vars"]]
            for inst, sub in node["comps"].items():
                cnt[0] += 1
                sub_name = "K%d" % cnt[0]
                emit(sub, sub_name)
                body.append("  %s %s;" % (sub_name, inst))
            if cname == self.name:
                body.append("equation")
                body += ["  %s = %s;" % (M.pe(e[1]), M.pe(e[2])) for e in self.eqs]
            out.append("\n".join(["model " + cname] + body + ["end %s;" % cname]) + "\n")

        emit(root, self.name)
        return "\n".join(out)

    def flat(self):
        pre = {"p": "parameter", "c": "constant", "u": "input", "y": "output"}
        return [(n, pre.get(cat, "")) for n, cat in self.allspec], list(self.eqs)


# ---------------------------------------------------------------------------------------------------------
# running the real generator and looking at what it made

POS = [1.75, 0.75, 2.25, 1.25, 2.75, 0.5, 3.25, 1.5, 0.25, 3.75, 2.5, 4.25, 1.125, 0.625, 2.125, 3.5]
MIX = [2.5, -1.5, 3.25, 0.75, -2.25, 1.75, 4.5, -0.5, 5.5, -3.75, 6.25, 0.25, -4.25, 7.5, 1.25, -5.75]


INTS = [2, 3, -2, 4]


def grid_env(names, point, seed, ints=()):
    """Distinct non-integer value per variable and per derivative; point 0 all positive (every power is real),
    other points both signs.  The seed only rotates which variable gets which value.  Names in `ints` get an integer
    (even at point 0, then odd, negative, even), so that a negative base raised to them is real."""
    tab = POS if point == 0 else MIX
    k = (point * 5 + seed * 3) % len(tab)
    env = {}
    for i, n in enumerate(names):
        env[n] = INTS[point % len(INTS)] if n in ints else tab[(k + i) % len(tab)]
        env["der(%s)" % n] = tab[(k + i + 7) % len(tab)] * 0.5 + 0.0625
    env["time"] = 0.375 + 0.5 * point
    return env


def install_runtime():
    """Make `from pymoca.backends.sympy.runtime import OdeModel` resolve to the real OdeModel with the solver
    step stubbed out (compute_fg calls sympy.solve, which is not part of the property)."""
    cur = sys.modules.get(RUNTIME)
    if cur is not None and getattr(cur, "_vf_stub", False):
        return cur._vf_real
    try:
        import importlib

        real = importlib.import_module(RUNTIME)
        base, how = real.OdeModel, "real"
    except Exception:  # the real runtime needs SciPy; keep going with a copy of its constructor
        import sympy

        class base:  # noqa: N801
            def __init__(self):
                self.t = sympy.symbols("t")
                for a in "xuypcv":
                    setattr(self, a, sympy.Matrix([]))
                self.x0, self.u0, self.p0, self.c0, self.eqs, self.f, self.g = {}, {}, {}, {}, [], None, None

        how = "copy"

    class OdeModel(base):
        def compute_fg(self):
            pass

    stub = types.ModuleType(RUNTIME)
    stub.OdeModel = OdeModel
    stub._vf_stub = True
    stub._vf_real = how
    sys.modules[RUNTIME] = stub
    return how


def build(text, name="M"):
    """-> (stage, payload): ('ok', (src, obj)) or (failing stage, exception)."""
    from pymoca import parser
    from pymoca.backends.sympy import generator

    install_runtime()
    tree = parser.parse(text, bypass_cache=True)
    if tree is None:
        return "parse", SyntaxError("pymoca reports a syntax error")
    try:
        src = generator.generate(tree, name)
    except Exception as e:
        return "generate", e
    try:
        code = compile(src, "<generated %s>" % name, "exec")
    except SyntaxError as e:
        return "compile", (e, src)
    ns = {"__name__": "vf_generated_" + name}
    try:
        exec(code, ns)
        obj = ns[name]()
    except Exception as e:
        return "execute", (e, src)
    return "ok", (src, obj)


def key(name):
    """How a symbol is recognised as a Modelica variable: dots and double underscores are the same thing,
    trailing underscores are ignored (the two things pymoca's mangler does); order inside a key group decides."""
    return name.replace(".", "__").rstrip("_")


def symname(s):
    return s.name if hasattr(s, "name") and not s.args else str(s.func)


def assigned_identifiers(src):
    """Local names assigned in the generated __init__ (a, b = ...symbols('...')), in order."""
    out = []
    try:
        tree = pyast.parse(src)
    except SyntaxError:
        return out
    for node in pyast.walk(tree):
        if isinstance(node, pyast.Assign):
            for t in node.targets:
                for el in t.elts if isinstance(t, pyast.Tuple) else [t]:
                    if isinstance(el, pyast.Name):
                        out.append(el.id)
    return out


def collision_kind(a, b):
    if "time" in (a, b):
        return "time-vs-t"
    a, b = sorted((a, b), key=len)
    if ("." in a) != ("." in b) and a.replace(".", "__") == b.replace(".", "__"):
        return "dotted-vs-double-underscore"
    if "." in a and "." in b:
        return "dotted-names-mangle-alike" if a.replace(".", "__") == b.replace(".", "__") else "dotted-names-mangle-alike-up-to-suffix"
    if "." in a or "." in b:
        return "dotted-vs-suffixed-double-underscore"
    if b.rstrip("_") == a.rstrip("_"):
        import builtins

        base = a.rstrip("_")
        return "suffixed-twin-of-" + ("clash-list-name" if base in dir(dict) or base == "psi" else "builtin" if base in dir(builtins) else "plain-name")
    return "other"


def judge(model, seed, npoints):
    """-> list of (signature, message, extra)  for one model (all clauses)."""
    import sympy

    text = model.text()
    stage, payload = build(text, model.name)
    if stage in ("parse", "generate"):
        return [("%s-raises:%s" % (stage, common.exc_sig(payload) if stage == "generate" else "syntax"), "%r\n%s" % (payload, text), {})]
    if stage == "compile":
        e, src = payload
        line = (e.text or "").strip()
        return [("invalid-python", "the generated module is not valid Python: %s at `%s`\n%s" % (e.msg, line, text), {"line": line})]
    if stage == "execute":
        e, src = payload
        return [("instantiate-raises:" + type(e).__name__, "executing the generated module / constructing the class raises %r\n%s" % (e, text), {})]
    src, obj = payload
    viol = []
    fvars, feqs = model.flat()
    ref = model.classification()

    # -- classification: the lists hold exactly the variables of that class (recognised by name key) ------------
    klass = {}
    for L, names in ref.items():
        for n in names:
            klass.setdefault(n, []).append(L)
    got = {L: list(getattr(obj, L)) for L in "xvcpuy"}
    for L in "xvcpuy":
        gk = sorted(key(symname(s)) for s in got[L])
        rk = sorted(key(n) for n in ref[L])
        if gk != rk:
            missing = sorted({"+".join(klass[n]) for n in ref[L] if key(n) not in gk} | ({"count"} if len(gk) < len(rk) else set()))
            extra = sorted(set(gk) - set(rk))
            extra_cls = sorted({"+".join(klass[n]) for n in klass if key(n) in extra}) or (["count"] if len(gk) > len(rk) else [])
            viol.append(
                (
                    "classification:%s:missing[%s]:extra[%s]" % (L, ",".join(missing), ",".join(extra_cls)),
                    "list %s holds %s, the flat model's %s are %s\n%s" % (L, [symname(s) for s in got[L]], L, ref[L], text),
                    {},
                )
            )
    if viol:
        return viol

    # -- one Python identifier per Modelica variable (a re-bound identifier silently changes lists and equations) ---
    ids = assigned_identifiers(src)
    for i in sorted({i for i in ids if ids.count(i) > 1}):
        who = [n for n, _ in fvars if key(n) == key(i)]
        if len(who) > 2:  # the ones whose mangled form the identifier extends, the closest first
            who = sorted((n for n in who if i.startswith(n.replace(".", "__"))), key=lambda n: -len(n.replace(".", "__")))[:2] + who
        if len(who) >= 2:
            viol.append(("symbol-collision:" + collision_kind(who[0], who[1]), "Python identifier %s is assigned for more than one of the Modelica variables %s\n%s" % (i, who, text), {}))
        else:
            viol.append(("classification:identifier-assigned-twice", "Python identifier %s (Modelica %s) is assigned in more than one list\n%s" % (i, who, text), {}))
    if viol:
        return viol

    # -- which symbol is which variable: names decide up to the key; inside a key group (a.b / a__b, copy / copy_) the
    #    printed names are ambiguous by construction, so every assignment is tried (the natural one first) and the
    #    model is accepted if one assignment satisfies all remaining clauses
    best = None
    for sym_of in _correspondences(ref, got):
        v = _judge_assignment(model, obj, sym_of, ref, got, fvars, feqs, seed, npoints, text)
        if v and v[0][0] == "ok":
            return v
        rank = 0 if v[0][0].startswith("classification") else 1 if v[0][0].startswith("symbol-collision") else 2
        if best is None or rank > best[0]:  # report the assignment that gets furthest (the natural one among equals)
            best = (rank, v)
    return best[1]


def _correspondences(ref, got):
    per = []
    for L in "xvcpu":
        gs, gv = {}, {}
        for s in got[L]:
            gs.setdefault(key(symname(s)), []).append(s)
        for n in ref[L]:
            gv.setdefault(key(n), []).append(n)
        for k, vs in gv.items():
            ss = list(gs[k])
            pref = []
            for same in (lambda a, b: a == b, lambda a, b: a.replace(".", "__") == b.replace(".", "__"), lambda a, b: True):
                for n in vs:  # exact name first, then equal up to dots, then whatever is left of the group
                    if not any(m == n for m, _ in pref):
                        hit = [s for s in ss if same(symname(s), n)]
                        if hit:
                            pref.append((n, hit[0]))
                            ss.remove(hit[0])
            order = dict(pref)
            natural = tuple(order[n] for n in vs)
            perms = [natural] + [p for p in dict.fromkeys(itertools.permutations(natural)) if p != natural]
            per.append((vs, perms))
    for combo in itertools.product(*[p for _, p in per]):
        yield {n: s for (vs, _), perm in zip(per, combo) for n, s in zip(vs, perm)}


def _judge_assignment(model, obj, sym_of, ref, got, fvars, feqs, seed, npoints, text):
    import sympy

    viol = []
    # an output is the same symbol in y as in x / v
    want_y = sorted((sym_of[n] for n in ref["y"]), key=str)
    if want_y != sorted(got["y"], key=str):
        return [("classification:y-holds-other-symbols", "list y holds %s, the outputs %s are the symbols %s\n%s" % (got["y"], ref["y"], want_y, text), {})]

    # -- distinct variables (and time) are distinct symbols ---------------------------------------------------
    tsym = obj.t
    by_sym = {tsym: "time"}
    for n, _ in fvars:
        s = sym_of[n]
        if s in by_sym:
            o = by_sym[s]
            viol.append(("symbol-collision:" + collision_kind(o, n), "Modelica variables %s and %s are both the symbol %r\n%s" % (o, n, s, text), {}))
        else:
            by_sym[s] = n
    if viol:
        return viol

    # -- equations ---------------------------------------------------------------------------------------------
    if len(obj.eqs) != len(feqs):
        return [("equation-count", "eqs has %d entries, the flat model has %d equations\n%s" % (len(obj.eqs), len(feqs), text), {})]
    names = [n for n, _ in fvars]
    ints = getattr(model, "ints", ())
    rvals = [[] for _ in feqs]
    envs, reps = [], []
    for p in range(npoints):
        env = grid_env(names, p, seed, ints)
        envs.append(env)
        rep = {tsym: sympy.Float(env["time"])}
        for n in names:
            s = sym_of[n]
            rep[s] = sympy.Integer(env[n]) if n in ints else sympy.Float(env[n])
            if s.args:  # a function of time
                rep[sympy.Derivative(s, tsym)] = sympy.Float(env["der(%s)" % n])
        reps.append(rep)
        env2 = {k: v if k in ints else v * (1 + 1e-11) for k, v in env.items()}
        for i, e in enumerate(feqs):
            try:
                l, r = M.evn(e[1], env), M.evn(e[2], env)
                l2, r2 = M.evn(e[1], env2), M.evn(e[2], env2)
                scale = max(1.0, abs(l), abs(r))
                # ill-conditioned point (next to a pole of tan, towers of powers): rounding decides, nothing to compare
                rvals[i].append((float(l) - float(r), scale) if abs((l - r) - (l2 - r2)) <= 1e-5 * scale else None)
            except X.Undefined:
                rvals[i].append(None)
    cache = {}

    def gval(j, p):  # generated entry j at point p, evaluated only where a reference value exists to compare with
        if (j, p) not in cache:
            cache[j, p] = _num(obj.eqs[j], reps[p])
        return cache[j, p]

    def same(j, i):
        for p, rv in enumerate(rvals[i]):
            if rv is not None:
                gv = gval(j, p)
                if not isinstance(gv, float) or abs(gv - rv[0]) > 1e-7 * rv[1]:
                    return False
        return True

    used = set()
    judged = 0
    for i, e in enumerate(feqs):
        if all(r is None for r in rvals[i]):
            continue
        judged += 1
        j = i if i not in used and same(i, i) else next((j for j in range(len(feqs)) if j not in used and j != i and same(j, i)), None)
        if j is None:
            p = next(q for q, r in enumerate(rvals[i]) if r is not None)
            eqtxt = "%s = %s" % (pexpr(e[1], model.mode), pexpr(e[2], model.mode))
            viol.append(
                (
                    "wrong-value",
                    "flat equation `%s`: no entry of eqs equals lhs - rhs; entry %d is `%s` = %r at %s where lhs - rhs = %r\n%s"
                    % (eqtxt, i, obj.eqs[i], gval(i, p), {k: v for k, v in envs[p].items() if not k.startswith("der(") or k[4:-1] in ders(e[1]) | ders(e[2])}, rvals[i][p][0], text),
                    {"eq": i},
                )
            )
        else:
            used.add(j)
    return viol or [("ok", judged, {})]


def _num(expr, rep):
    """Numeric value of a generated entry (None if it is not a finite real number)."""
    import sympy

    try:
        v = sympy.sympify(expr).xreplace(rep)
        if v.free_symbols:
            return "free symbols %s" % sorted(map(str, v.free_symbols))
        v = complex(v)
    except Exception as e:  # noqa
        return None
    if abs(v.imag) > 1e-9 * max(1.0, abs(v.real)) or not math.isfinite(v.real):
        return None
    return v.real


# ---------------------------------------------------------------------------------------------------------
# jobs


def _defined(tree, seed, npoints, fam="expr"):
    """Does the reference give the expression a real finite value on some grid point (else nothing is compared)?"""
    ints = ("n",) if fam == "lit" else ()
    for p in range(npoints):
        env = grid_env(FRAME + list(ints), p, seed, ints)
        try:
            a, b = M.evn(tree, env), M.evn(tree, {k: v if k in ints else v * (1 + 1e-11) for k, v in env.items()})
            if abs(a - b) <= 1e-5 * max(1.0, abs(a)):
                return True
        except X.Undefined:
            pass
    return False


FRAME = ["x", "v", "p", "c", "u", "y"]


def job_expr(job):
    items, seed, npoints, fam = job
    judged = sum(1 for t, _, _ in items if _defined(t, seed, npoints, fam))
    res = judge(expr_model(items, fam), seed, npoints)
    out = []
    if res and res[0][0] == "ok":
        return {"viol": [], "judged": judged}
    # the frame alone (declarations, no expression) fails: every single expression would only repeat that
    r0 = judge(expr_model([], fam), seed, npoints)
    if not (r0 and r0[0][0] == "ok"):
        t, mode, orient = items[0]
        return {"viol": [("%s:expr" % sig, "frame of the %s family, whatever the expression: %s" % (fam, msg), {"family": fam, "tree": t, "mode": mode, "orient": orient}) for sig, msg, _ in r0], "judged": judged}
    # attribute to single expressions: re-run each alone (a pack fails as a whole when the module does not compile)
    for it in items:
        r1 = judge(expr_model([it], fam), seed, npoints)
        if r1 and r1[0][0] == "ok":
            continue
        for sig, msg, extra in r1:
            t, mode, orient = it
            g = grouping(t)
            sig2 = "%s:%s" % (sig, ("needs-parens:" + g) if g else "no-parens-needed:" + _shape(t)) if sig == "wrong-value" else "%s:expr" % sig
            out.append((sig2, "`%s` (%s parentheses, %s): %s" % (pexpr(t, mode), mode, orient, msg), {"family": fam, "tree": t, "mode": mode, "orient": orient}))
    return {"viol": out, "judged": judged}


def _shape(t):
    k = t[0]
    if k in ("var", "num"):
        return "_"
    if k == "der":
        return "der"
    if k == "un":
        return "neg(%s)" % _shape(t[2])
    if k == "call":
        return "%s(%s)" % (t[1], _shape(t[2][0]))
    return "(%s%s%s)" % (_shape(t[2]), t[1], _shape(t[3]))


def job_names(job):
    ren, seed, npoints = job
    res = judge(names_model(ren), seed, npoints)
    if res and res[0][0] == "ok":
        return {"viol": []}
    rel = sorted(name_relations(ren.values()))
    out = []
    for sig, msg, extra in res:
        blame = ren
        for k in range(0, len(ren)):  # smallest sub-renaming that fails the same clause: the signature names the trigger only
            hit = [dict(sub) for sub in itertools.combinations(sorted(ren.items()), k) if any(s == sig for s, _, _ in judge(names_model(dict(sub)), seed, npoints))]
            if hit:
                blame = hit[0]
                break
        sig2 = "%s:names[%s]" % (sig, ",".join(sorted(_name_feature(n) for n in blame.values())))
        out.append((sig2, "renamed %s (%s): %s" % (ren, ",".join(rel), msg), {"family": "names", "ren": ren}))
    return {"viol": out}


def _name_feature(n):
    import builtins

    b = n.rstrip("_")
    tag = "clash-list" if b in dir(dict) or b == "psi" else "builtin:" + b if b in dir(builtins) else "dunder" if "__" in n else "t" if b == "t" else "plain"
    return tag + ("_" if n.endswith("_") else "")


def job_mangle(job):
    spec, seed, npoints = job
    res = judge(TModel(spec), seed, npoints)
    if res and res[0][0] == "ok":
        return {"viol": []}
    out = []
    for sig, msg, extra in res:
        blame = spec
        for k in range(0, len(spec)):  # smallest part of the case that fails the same clause
            hit = [sub for sub in itertools.combinations(spec, k) if any(s == sig for s, _, _ in judge(TModel(sub), seed, npoints))]
            if hit:
                blame = hit[0]
                break
        sig2 = "%s:mangle[%s]" % (sig, ",".join(sorted(n for n, _ in blame)))
        out.append((sig2, "flat variables %s: %s" % (["%s:%s" % i for i in spec], msg), {"family": "mangle", "spec": [list(i) for i in spec]}))
    return {"viol": out}


def job_struct(job):
    devs, seed, npoints = job
    model = struct_model(devs)
    res = judge(model, seed, npoints)
    if res and res[0][0] == "ok":
        return {"viol": []}
    out = []
    for sig, msg, extra in res:
        blame = _blame(devs, sig, seed, npoints)
        out.append(("%s:struct[%s]" % (sig, ",".join(blame)), "deviations %s: %s" % (devs, msg), {"family": "struct", "devs": devs}))
    return {"viol": out}


def _blame(devs, sig, seed, npoints):
    """Smallest subset of the deviations that still fails with the same signature (so a signature names the trigger)."""
    for k in range(0, len(devs)):
        for sub in itertools.combinations(devs, k):
            r = judge(struct_model(sub), seed, npoints)
            if any(s == sig for s, _, _ in r):
                return list(sub)
    return list(devs)


def _init():
    install_runtime()
    gc.freeze()  # what was inherited from the parent (sympy, the parser's tables, the case lists) never becomes garbage


def run(ctx):
    import sympy  # noqa: F401  (imported before the workers fork)
    import sympy.physics.mechanics  # noqa: F401

    how = install_runtime()
    npoints = 3 if ctx.tier == "quick" else 4
    ecases, nmax = expr_cases(ctx.tier)
    rot = ctx.seed % 7
    ecases = ecases[rot:] + ecases[:rot]  # the seed rotates the order (and so the packing); same set
    packs = []
    for mode in ("min", "full"):
        sel = [c for c in ecases if c[1] == mode]
        packs += [sel[i : i + PACK] for i in range(0, len(sel), PACK)]
    lcases, lmax, lskipped = lit_cases(ctx.tier)
    lcases = lcases[rot:] + lcases[:rot]
    lpacks = []
    for mode in ("min", "full"):
        sel = [c for c in lcases if c[1] == mode]
        lpacks += [sel[i : i + 2 * PACK] for i in range(0, len(sel), 2 * PACK)]
    ncases, kn, pool = names_cases(ctx.tier)
    mcases, mnames = mangle_cases(ctx.tier)
    scases, ks = struct_cases(ctx.tier)
    # warm the parent before the workers fork (ANTLR's lazily built DFA, jinja2, sympy caches are inherited)
    judge(names_model({}), ctx.seed, 1)
    judge(expr_model(packs[0]), ctx.seed, 1)
    # every full collection in a forked worker would walk (and copy, page by page) the whole inherited heap: sympy alone
    # is some million objects, and the generator + sympy allocate enough to trigger collections all the time
    gc.collect()
    gc.freeze()
    with common.Pool(init=_init) as pool_:
        re_ = pool_.map(job_expr, [(p, ctx.seed, npoints, "expr") for p in packs], chunksize=4)
        rl = pool_.map(job_expr, [(p, ctx.seed, npoints, "lit") for p in lpacks], chunksize=4)
        rn = pool_.map(job_names, [(r, ctx.seed, npoints) for r in ncases], chunksize=8)
        rm = pool_.map(job_mangle, [(c, ctx.seed, npoints) for c in mcases], chunksize=8)
        rs = pool_.map(job_struct, [(d, ctx.seed, npoints) for d in scases], chunksize=4)
    gc.unfreeze()
    for r in re_ + rl + rn + rm + rs:
        for sig, msg, case in r["viol"]:
            ctx.violation(sig, msg, case)
    texts = {(pexpr(t, m), o) for t, m, o in ecases}
    nontriv_e = {(pexpr(t, m), o) for t, m, o in ecases if nops(t) >= 2}
    needs = {(pexpr(t, m), o) for t, m, o in ecases if grouping(t)}
    nontriv_n = [r for r in ncases if name_relations(r.values())]
    judged = sum(r["judged"] for r in re_)
    ltexts = {(pexpr(t, m), o) for t, m, o in lcases}
    nontriv_l = {(pexpr(t, m), o) for t, m, o in lcases if has_literal(t) and nops(t) >= 1}
    lsigned = {(pexpr(t, m), o) for t, m, o in lcases if "signed-literal" in "".join(_pairs(t, []))}
    ljudged = sum(r["judged"] for r in rl)
    nontriv_m = [c for c in mcases if any("." in n or n in RESERVED_BASES for n, _ in c) or (len(c) > 1 and related([n for n, _ in c]))]
    mrel = [c for c in mcases if len(c) > 1 and related([n for n, _ in c])]
    ctx.sample({"family": "expr", "model": expr_model(packs[0]).text()})
    ctx.sample({"family": "expr", "model": expr_model(packs[len(packs) // 2]).text()})
    ctx.sample({"family": "names", "renamed": ncases[len(ncases) // 2], "model": names_model(ncases[len(ncases) // 2]).text()})
    ctx.sample({"family": "struct", "deviations": scases[-1], "model": struct_model(scases[-1]).text()})
    ctx.sample({"family": "lit", "model": expr_model(lpacks[len(lpacks) // 3], "lit").text()})
    ctx.sample({"family": "mangle", "spec": mcases[-1], "model": TModel(mcases[-1]).text()})
    ctx.coverage.update(
        {
            "evaluations": len(ecases) + len(lcases) + len(ncases) + len(mcases) + len(scases),
            "distinct_nontrivial": len(nontriv_e) + len(nontriv_l) + len(nontriv_n) + len(nontriv_m) + len(scases),
            "lit_texts": len(ltexts),
            "lit_nontrivial": len(nontriv_l),
            "lit_with_signed_literal_operand": len(lsigned),
            "lit_judged_on_grid": ljudged,
            "lit_models": len(lpacks),
            "lit_max_operator_nodes": lmax,
            "lit_left_out_constant_subexpression_undefined": lskipped,
            "mangle_models": len(mcases),
            "mangle_nontrivial": len(nontriv_m),
            "mangle_competing_pairs_and_triples": len(mrel),
            "mangle_names": mnames,
            "expr_texts": len(texts),
            "expr_with_grouping": len(nontriv_e),
            "expr_needing_parentheses": len(needs),
            "expr_judged_on_grid": judged,
            "expr_without_real_value_on_grid": len(ecases) - judged,
            "expr_models": len(packs),
            "expr_max_operator_nodes": nmax,
            "names_models": len(ncases),
            "names_nontrivial": len(nontriv_n),
            "names_max_renamed": kn,
            "names_pool": pool,
            "struct_models": len(scases),
            "struct_max_deviations": ks,
            "grid_points": npoints,
            "runtime": how,
            "exhaustive": True,
            "rule": "expr: every tree with <= %d operator nodes over + - * / ^, unary minus, sin/cos/tan, der(x) (one node), leaves "
            "bound left to right to x v p c u time 2 (state, algebraic, parameter, constant, input, time, literal) from a rotating "
            "start (thorough: every start for <= 3 nodes), as right-hand side of der(x) / y / v / w_i (trees of <= 2 nodes also as "
            "left-hand side), printed with minimal and with full parentheses, %d per model; non-trivial = >= 2 operator nodes (a "
            "grouping exists). names: base model (x v p c u y + component a with a.b, a.k) with every assignment of <= %d "
            "distinct names of the pool (three names: of the smaller pool %s) to distinct variables; non-trivial = some name is a Python builtin / on pymoca's clash "
            "list / t, or two names are a suffixed twin or a dotted / double-underscore twin. struct: base model under every set of "
            "<= %d compatible deviations out of %d (all non-trivial: each changes a list or a template branch). lit: every tree "
            "with <= %d operator nodes over + - * / ^ and unary - +, every leaf position taking each of p (real values), n "
            "(integer values 2 3 -2 4 on the grid), 2, 0.5 -- trees with a literal-only sub-expression that has no real value "
            "left out -- as right-hand side (<= 1 node also left), both parenthesisations; non-trivial = has a literal and an "
            "operator. mangle: names = every plain or dotted spelling (any depth) that '.' -> '__' turns into one of %s, and %s with "
            "one%s underscore(s) appended; models that have exactly a frame x p u y and: one name in every category (state, "
            "algebraic, parameter, constant, top-level also input, output); two names%s in every pair of categories%s; three "
            "competing names in every triple of categories%s; nested components are generated as the dots require; "
            "non-trivial = some name is dotted or reserved, or the names compete."
            % (
                nmax, PACK, kn, DEEP_POOL, ks, len(DEVS), lmax,
                MANGLE_TARGETS[:4] if ctx.tier == "quick" else MANGLE_TARGETS, RESERVED_BASES, "" if ctx.tier == "quick" else " / two",
                " that compete for one identifier (same mangled form up to trailing underscores)" if ctx.tier == "quick" else "",
                " (other pairs: one rotating pair of categories)" if ctx.tier == "quick" else "",
                "" if ctx.tier == "quick" else " (other triples: one rotating triple of categories)",
            ),  # fmt: skip
        }
    )
    ctx.assumptions += [
        "subset: scalar Real models, literal (possibly negated) parameter / constant values, components without equations of "
        "their own nested <= 2 deep (names / struct: one level, with member equations), no connect; lit: trees in which a "
        "literal-only sub-expression has no real finite value (2 / (2 - 2), (-2) ^ 0.5) are left out; Python keywords (lambda, None, ...) and names the generated module itself uses (sympy, mech, self, sin, "
        "OdeModel, the class name) are not in the name alphabet",
        "a symbol is recognised as a Modelica variable by its name with '.' / '__' identified and trailing underscores ignored; "
        "list order is not judged; eqs entries are matched to flat equations in any order",
        "OdeModel.compute_fg (sympy.solve) is stubbed out; x0 / p0 / c0 / u0 are not judged (not in the statement); finite grid, "
        "points where the reference has no real finite value are skipped",
    ]


def replay(case):
    install_runtime()
    fam = case.get("family")
    if fam in ("expr", "lit"):
        r = job_expr(([(_tuplify(case["tree"]), case["mode"], case["orient"])], 0, 4, fam))
    elif fam == "mangle":
        r = job_mangle((tuple(tuple(i) for i in case["spec"]), 0, 4))
    elif fam == "names":
        r = job_names((case["ren"], 0, 4))
    else:
        r = job_struct((case["devs"], 0, 4))
    for sig, msg, _ in r["viol"]:
        print(sig, "--", msg)
    if not r["viol"]:
        print("ok")
    return not r["viol"]


def _tuplify(x):
    return tuple(_tuplify(i) for i in x) if isinstance(x, list) else x
