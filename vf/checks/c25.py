"""C25 -- the ModelicaXML backend mirrors the flat model.

E4: bounded-exhaustive families of flat (and one-level nested) models.  Every model is built as a value of our
own AST (declarations = `Dcl`, expressions = vf.ref.expr tuples), printed, parsed and sent through the *real*
`pymoca.backends.xml.generator.generate`.  The text that comes back is parsed with the standard library's expat
parser (xml.etree -- not the lxml that produced it), read into a small canonical form and compared with

  R  the reading of *our own* AST under the explicit spelling table below (independent oracle), and
  F  a parallel walk over pymoca's own flat tree (`pymoca.tree.flatten` of a fresh copy; the statement's
     literal referent, "the flat model").

A case is a violation only when the XML differs from **both** R and F.  XML == F but != R means the parser or
the flattener read the program differently from us (the business of C03 / C07 / C08, not of the XML backend):
counted as `upstream_disagreements`, never reported here.

What is compared (only what the statement says): well-formedness; `component` elements <-> flat variables one
to one by name with builtin type, variability and literal start / value items; the children of `equation` <->
flat equations one to one and in order; each expression element against the flat equation node for node
(operator name, number and order of operands, literal values, variable names).
"""
import copy
import xml.etree.ElementTree as ET

from vf.core import common
from vf.ref import expr as X

LEVEL = "exploration"

# ---- how the backend spells things (read off generator.py; the consumer is backends/xml/parser.py) ----------
# An ast.Expression with one operand becomes <operator name=OP>, with two or more <apply builtin=OP>; OP is
# the Modelica spelling itself for operators and the function name for calls (der, sin, max, ...).  pymoca's
# own consumer dispatches both tags through one table keyed by the number of children, and the hand-written
# test/models/bouncing-ball.xml uses <operator name="<"> with two children, so the *tag* is not tied to the
# arity here: the operator's name must sit in `name` of an <operator> or in `builtin` of an <apply>.
UNARY = {"-": "-", "+": "+", "not": "not"}
BINARY = {op: op for op in ("+", "-", "*", "/", "^", "<", "<=", ">", ">=", "==", "<>", "and", "or")}
OP_ATTR = {"operator": "name", "apply": "builtin"}


def call_name(name):
    return name  # sin -> "sin", der -> "der", max -> "max": function calls keep their name


# A component reference is <local name=...>.  Every literal (Real, Integer, Boolean, String) is written
# <real value=str(python value)/>, so Boolean true is value="True".  The statement only asks for the literal's
# value, so literals are compared by meaning: numbers through float(), Booleans through <true/>/<false/> or a
# value reading true/false in any case, strings verbatim; the element may be real/integer/boolean/string.
LIT_TAGS = ("real", "integer", "boolean", "string", "true", "false")
VARIABILITIES = ("continuous", "discrete", "parameter", "constant")
DEFAULT_START = {"Real": ("num", "0"), "Integer": ("num", "0"), "Boolean": ("bool", False), "String": ("str", "")}


# ---- our own model values -----------------------------------------------------------------------------------


def V(n):
    return ("var", n)


def N(s):
    return ("num", str(s))


def Bn(op, l, r):
    return ("bin", op, l, r)


def C(name, *args):
    return ("call", name, tuple(args))


def pe(n):
    """Expression text.  Binary operators: minimal parentheses by the Modelica grammar levels (vf.ref.expr).
    A sign or `not` is written bare only in front of a primary (`-x`, `-sin(x)`, but `-(x * p)`): pymoca
    reads `-x * p` as `(-x) * p`, the specification as `-(x * p)` -- same value (so C03 is content), other
    tree; how the *parser* groups is not this property's business, so the text is kept unambiguous."""
    k = n[0]
    if k in ("num", "bool", "str", "var"):
        return X._atom(n)
    if k == "call":
        return "%s(%s)" % (n[1], ", ".join(pe(a) for a in n[2]))
    if k == "un":
        return ("not " if n[1] == "not" else n[1]) + _need(n[2], X.L_PRIMARY)
    op, l, r = n[1], n[2], n[3]
    return "%s %s %s" % (_need(l, X._left_min(op)), op, _need(r, X._right_min(op)))


def _need(n, minlevel):
    s = pe(n)
    return s if X.level(n) >= minlevel else "(" + s + ")"


class Dcl:
    """One declaration.  var: continuous | discrete | parameter | constant; causality: '' | input | output;
    type: a builtin, or an alias (`type T = Real(unit="V")`, builtin Real); start / value: literal nodes or
    None (or ("un", "-", literal) in the tolerated family); fixed: None | True | False."""

    def __init__(self, name, type="Real", var="continuous", start=None, value=None, fixed=None, causality="", fixed_first=False):
        self.name, self.type, self.var, self.start, self.value, self.fixed = name, type, var, start, value, fixed
        self.causality, self.fixed_first = causality, fixed_first

    @property
    def builtin(self):
        return "Real" if self.type == "T" else self.type

    def text(self):
        pre = [p for p in (self.var if self.var != "continuous" else "", self.causality) if p]
        mods = []
        if self.start is not None:
            mods.append("start = " + pe(self.start))
        if self.fixed is not None:
            mods.append("fixed = " + ("true" if self.fixed else "false"))
        if self.fixed_first:
            mods.reverse()
        s = " ".join(pre + [self.type, self.name])
        if mods:
            s += "(%s)" % ", ".join(mods)
        if self.value is not None:
            s += " = " + pe(self.value)
        return s + ";"


class Inst:
    """A component of class A with modifications  {member: {"value": lit} / {"start": lit, "fixed": bool}}."""

    def __init__(self, name, mods=None):
        self.name, self.mods = name, mods or {}

    def text(self):
        parts = []
        for member, m in self.mods.items():
            if "value" in m:
                parts.append("%s = %s" % (member, pe(m["value"])))
            inner = []
            if "start" in m:
                inner.append("start = " + pe(m["start"]))
            if "fixed" in m:
                inner.append("fixed = " + ("true" if m["fixed"] else "false"))
            if inner:
                parts.append("%s(%s)" % (member, ", ".join(inner)))
        return "A %s%s;" % (self.name, "(%s)" % ", ".join(parts) if parts else "")


def eq_text(e, ind="  "):
    if e[0] == "eq":
        return ["%s%s = %s;" % (ind, pe(e[1]), pe(e[2]))]
    if e[0] == "reinit":
        return ["%sreinit(%s, %s);" % (ind, pe(e[1]), pe(e[2]))]
    if e[0] == "when":
        out = ["%swhen %s then" % (ind, pe(e[1]))]
        for b in e[2]:
            out += eq_text(b, ind + "  ")
        return out + [ind + "end when;"]
    raise ValueError(e)


def class_text(name, elems, eqs):
    out = ["model " + name] + ["  " + d.text() for d in elems] + ["equation"]
    for e in eqs:
        out += eq_text(e)
    return out + ["end %s;" % name]


class Prog:
    """Model M (declarations, instances of A, equations) plus optionally the class A and the alias type T."""

    def __init__(self, elems, eqs, sub=None):
        self.elems, self.eqs, self.sub = list(elems), list(eqs), sub  # sub = (decls of A, equations of A)

    def text(self):
        out = []
        if any(isinstance(d, Dcl) and d.type == "T" for d in self.elems):
            out += ['type T = Real(unit = "V");', ""]
        if self.sub is not None:
            out += class_text("A", self.sub[0], self.sub[1]) + [""]
        return "\n".join(out + class_text("M", self.elems, self.eqs)) + "\n"


# ---- reference R: our own reading of the program -------------------------------------------------------------


def ref_expr(n, ren=None):
    k = n[0]
    if k == "num":
        return ("lit", "num", n[1])
    if k == "bool":
        return ("lit", "bool", bool(n[1]))
    if k == "str":
        return ("lit", "str", n[1])
    if k == "var":
        return ("var", ren(n[1]) if ren else n[1])
    if k == "un":
        return ("op", UNARY[n[1]], (ref_expr(n[2], ren),))
    if k == "bin":
        return ("op", BINARY[n[1]], (ref_expr(n[2], ren), ref_expr(n[3], ren)))
    if k == "call":
        return ("op", call_name(n[1]), tuple(ref_expr(a, ren) for a in n[2]))
    raise ValueError(n)


def ref_eq(e, ren=None):
    if e[0] == "eq":
        return ("eq", ref_expr(e[1], ren), ref_expr(e[2], ren))
    if e[0] == "reinit":
        return ("op", "reinit", (ref_expr(e[1], ren), ref_expr(e[2], ren)))
    if e[0] == "when":
        return ("when", ref_expr(e[1], ren), tuple(ref_eq(b, ren) for b in e[2]))
    raise ValueError(e)


def _lit(n):
    """Literal attribute value; a signed literal (tolerated family) folds into the number."""
    if n is None:
        return None
    if n[0] == "un" and n[1] == "-" and n[2][0] == "num":
        return ("lit", "num", "-" + n[2][1])
    return ref_expr(n)


def _sym(name, d, start, value, fixed):
    """Flat variable.  A declaration value of a variable that is neither parameter nor constant is a flat
    *equation* (pymoca.tree.add_state_value_equations): the variable then has no value; a value item is
    tolerated only if it repeats the declared literal."""
    moved = value is not None and d.var not in ("parameter", "constant")
    return {
        "name": name,
        "type": d.builtin,
        "var": d.var,
        "start": _lit(start),
        "value": None if moved else _lit(value),
        "value_opt": _lit(value) if moved else None,
        "fixed": fixed,
    }, (("eq", ("var", name), _lit(value)) if moved else None)


def reference(prog):
    """{"symbols": [...], "equations": [...]} of the flat model, by plain recursion over one level.  Order
    of the flat equations (pymoca's convention, confirmed against F on every case): equations of the
    components in declaration order, the model's own equations, then the declaration equations in the order
    of the flat variables."""
    syms, comp_eqs, decl_eqs = [], [], []
    for d in prog.elems:
        if isinstance(d, Dcl):
            s, e = _sym(d.name, d, d.start, d.value, d.fixed)
            syms.append(s)
            if e:
                decl_eqs.append(e)
            continue
        adecls, aeqs = prog.sub
        local = {a.name for a in adecls}
        ren = lambda n, p=d.name, local=local: p + "." + n if n in local else n  # noqa: E731
        for a in adecls:
            m = d.mods.get(a.name, {})
            s, e = _sym(d.name + "." + a.name, a, m.get("start", a.start), m.get("value", a.value), m.get("fixed", a.fixed))
            syms.append(s)
            if e:
                decl_eqs.append(e)
        comp_eqs += [ref_eq(e, ren) for e in aeqs]
    own = [ref_eq(e) for e in prog.eqs]
    return {"symbols": syms, "equations": comp_eqs + own + decl_eqs, "first_declaration_equation": len(comp_eqs) + len(own)}


# ---- reference F: parallel walk over pymoca's flat tree ------------------------------------------------------


def past_expr(n):
    from pymoca import ast

    if isinstance(n, ast.Primary):
        v = n.value
        if isinstance(v, bool):
            return ("lit", "bool", v)
        if isinstance(v, (int, float)):
            return ("lit", "num", repr(v))
        if isinstance(v, str):
            return ("lit", "str", v)
        return ("lit", "none", None)
    if isinstance(n, ast.Symbol):  # left-hand side of a declaration equation
        return ("var", n.name)
    if isinstance(n, ast.ComponentRef):
        return ("var", ".".join(n.to_tuple()))
    if isinstance(n, ast.Expression):
        op = n.operator
        return ("op", ".".join(op.to_tuple()) if isinstance(op, ast.ComponentRef) else str(op), tuple(past_expr(x) for x in n.operands))
    if isinstance(n, ast.Function):
        return ("op", n.name, tuple(past_expr(x) for x in n.arguments))
    return ("unsupported", type(n).__name__)


def past_eq(e):
    from pymoca import ast

    if isinstance(e, ast.Equation):
        return ("eq", past_expr(e.left), past_expr(e.right))
    if isinstance(e, ast.WhenEquation):
        if len(e.conditions) != 1 or len(e.blocks) != 1:
            return ("unsupported", "elsewhen")
        return ("when", past_expr(e.conditions[0]), tuple(past_eq(b) for b in e.blocks[0]))
    if isinstance(e, ast.Function):
        return past_expr(e)
    return ("unsupported", type(e).__name__)


def flat_reference(tree, name):
    from pymoca import ast
    from pymoca.tree import flatten

    flat = flatten(copy.deepcopy(tree), ast.ComponentRef.from_string(name))
    cls = flat.classes[name]
    syms = []
    for s in cls.symbols.values():
        var = [v for v in ("discrete", "parameter", "constant") if v in s.prefixes]
        lit = lambda p: None if (isinstance(p, ast.Primary) and p.value is None) else past_expr(p)  # noqa: E731
        syms.append(
            {
                "name": s.name,
                "type": s.type.name if isinstance(s.type, ast.ComponentRef) else str(getattr(s.type, "name", s.type)),
                "var": var[0] if len(var) == 1 else ("continuous" if not var else "+".join(var)),
                "start": lit(s.start),
                "value": lit(s.value),
                "value_opt": None,
                "fixed": s.fixed.value if (isinstance(s.fixed, ast.Primary) and isinstance(s.fixed.value, bool)) else None,
            }
        )
    return {"symbols": syms, "equations": [past_eq(e) for e in cls.equations]}


# ---- reading the XML ------------------------------------------------------------------------------------------


def _tag(el):
    t = el.tag
    return t.rsplit("}", 1)[-1] if isinstance(t, str) else "?"


def xml_expr(el):
    t = _tag(el)
    kids = tuple(xml_expr(c) for c in el)
    if t == "local":
        return ("var", el.get("name")) if not kids else ("bad", "local-with-children")
    if t in OP_ATTR:
        name = el.get(OP_ATTR[t])
        return ("op", name, kids) if name is not None else ("bad", "%s-without-%s" % (t, OP_ATTR[t]))
    if t in LIT_TAGS:
        return ("xlit", t, el.get("value")) if not kids else ("bad", "literal-with-children")
    return ("bad", "element-" + t)


def xml_eq(el):
    t = _tag(el)
    if t == "equal":
        return ("eq",) + tuple(xml_expr(c) for c in el)
    if t == "when":
        parts = {_tag(c): c for c in el}
        if len(el) != 2 or set(parts) != {"cond", "then"} or len(parts["cond"]) != 1:
            return ("bad", "when-structure")
        return ("when", xml_expr(parts["cond"][0]), tuple(xml_eq(c) for c in parts["then"]))
    return xml_expr(el)


def read_xml(text, name):
    """-> (model, problem).  model = {"components": [...], "equations": [...]}"""
    try:
        root = ET.fromstring(text.encode("utf-8"))
    except ET.ParseError as e:
        return None, ("not-well-formed", "output is not well-formed XML: %s" % e)
    defs = [el for el in root.iter() if _tag(el) == "classDefinition" and el.get("name") == name]
    if len(defs) != 1:
        return None, ("structure:classDefinition", "%d classDefinition elements named %s" % (len(defs), name))
    classes = [c for c in defs[0] if _tag(c) == "class"]
    if len(classes) != 1:
        return None, ("structure:class", "%d class elements in the classDefinition" % len(classes))
    comps, eqs = [], []
    for c in classes[0]:
        t = _tag(c)
        if t == "component":
            builtin = [b.get("name") for b in c if _tag(b) == "builtin"]
            items = []
            for m in c:
                if _tag(m) == "modifier":
                    for it in m:
                        if _tag(it) == "item":
                            items.append((it.get("name"), tuple(xml_expr(v) for v in it)))
            comps.append({"name": c.get("name"), "builtin": builtin, "var": c.get("variability"), "items": items})
        elif t == "equation":
            eqs += [xml_eq(e) for e in c]
    return {"components": comps, "equations": eqs}, None


# ---- comparison -------------------------------------------------------------------------------------------------


def lit_ok(ref, got):
    """ref = ("lit", kind, value); got = the XML node."""
    if got[0] == "op" and got[1] == "-" and len(got[2]) == 1 and ref[1] == "num" and ref[2].startswith("-"):
        return lit_ok(("lit", "num", ref[2][1:]), got[2][0])  # -1.5 written as a sign applied to 1.5
    if got[0] != "xlit":
        return False
    _, tag, val = got
    kind, want = ref[1], ref[2]
    if kind == "num":
        try:
            return tag in ("real", "integer") and float(val) == float(want)
        except (TypeError, ValueError):
            return False
    if kind == "bool":
        if tag in ("true", "false"):
            return (tag == "true") == want
        return isinstance(val, str) and val.lower() in ("true", "false") and (val.lower() == "true") == want
    if kind == "str":
        return tag in ("real", "string") and val == want
    return False


def _kind(n):
    return {"lit": "literal", "xlit": "literal", "var": "variable", "op": "operator"}.get(n[0], n[0])


def _norm(n):
    """Order-insensitive key of a reference / XML node (to tell a reordering from a replacement; it only
    chooses the clause a difference is filed under, never whether there is one)."""
    if n[0] == "lit":
        if n[1] == "num":
            return ("L", float(n[2]))
        return ("L", str(n[2]).lower())
    if n[0] == "xlit":
        if n[1] in ("true", "false"):
            return ("L", n[1])
        try:
            return ("L", float(n[2]))
        except (TypeError, ValueError):
            return ("L", str(n[2]).lower())
    if n[0] == "var":
        return ("V", n[1])
    if n[0] == "op":
        return ("O", n[1], tuple(sorted(repr(_norm(c)) for c in n[2])))  # a reordering at any depth is "order"
    return ("?", repr(n))


def cmp_expr(ref, got, path="expression"):
    """-> None or (clause, feature, detail)"""
    if got[0] == "bad":
        return ("expr-element", got[1], "%s: unexpected XML (%s)" % (path, got[1]))
    if ref[0] == "lit":
        if not lit_ok(ref, got):
            if _kind(got) != "literal":
                return ("expr-node-kind", "literal", "%s: expected literal %r, XML has %r" % (path, ref[2], got))
            return ("expr-literal", ref[1], "%s: literal %r written as <%s value=%r>" % (path, ref[2], got[1], got[2]))
        return None
    if ref[0] == "var":
        if got[0] != "var":
            return ("expr-node-kind", "variable", "%s: expected a reference to %s, XML has %r" % (path, ref[1], got))
        if got[1] != ref[1]:
            return ("expr-variable", "name", "%s: expected a reference to %s, XML refers to %r" % (path, ref[1], got[1]))
        return None
    if ref[0] == "op":
        if got[0] != "op":
            return ("expr-node-kind", "operator", "%s: expected operator %s, XML has %r" % (path, ref[1], got))
        if got[1] != ref[1]:
            return ("expr-operator-name", ref[1], "%s: operator %s written as %r" % (path, ref[1], got[1]))
        if len(got[2]) != len(ref[2]):
            return ("expr-operand-count", ref[1], "%s: %s has %d operand(s) in the flat model, %d in the XML" % (path, ref[1], len(ref[2]), len(got[2])))
        diffs = [cmp_expr(r, g, "%s/%s[%d]" % (path, ref[1], i + 1)) for i, (r, g) in enumerate(zip(ref[2], got[2]))]
        first = next((d for d in diffs if d), None)
        if first:
            rn, gn = [repr(_norm(r)) for r in ref[2]], [repr(_norm(g)) for g in got[2]]
            if rn != gn and sorted(rn) == sorted(gn):  # the same operands, permuted at this node
                return ("expr-operand-order", ref[1], "%s: operands of %s are in a different order" % (path, ref[1]))
        return first
    return ("expr-unsupported", ref[0], "%s: flat node %r is outside the subset" % (path, ref))


def cmp_eq(ref, got, path):
    if ref[0] == "unsupported":
        return ("flat-unsupported", str(ref[1]), "%s: %r" % (path, ref))
    if ref[0] == "eq":
        if got[0] != "eq":
            return ("equation-kind", "equal", "%s: expected an <equal>, XML has %r" % (path, got[:2]))
        if len(got) != 3:
            return ("equation-shape", "equal-with-%d-children" % (len(got) - 1), "%s: <equal> has %d child element(s) instead of 2" % (path, len(got) - 1))
        return cmp_expr(ref[1], got[1], path + "/left") or cmp_expr(ref[2], got[2], path + "/right")
    if ref[0] == "when":
        if got[0] == "bad":
            return ("equation-shape", got[1], "%s: %s" % (path, got[1]))
        if got[0] != "when":
            return ("equation-kind", "when", "%s: expected a <when>, XML has %r" % (path, got[:2]))
        d = cmp_expr(ref[1], got[1], path + "/cond")
        if d:
            return d
        if len(ref[2]) != len(got[2]):
            return ("when-body-count", "then", "%s: %d equation(s) in the when-body, %d in <then>" % (path, len(ref[2]), len(got[2])))
        for i, (r, g) in enumerate(zip(ref[2], got[2])):
            d = cmp_eq(r, g, "%s/then[%d]" % (path, i + 1))
            if d:
                return d
        return None
    if got[0] == "eq":
        return ("equation-kind", "call", "%s: expected %s(...), XML has an <equal>" % (path, ref[1]))
    return cmp_expr(ref, got, path)


def _eq_key(n):
    if n[0] == "eq":
        return ("eq",) + tuple(_norm(c) for c in n[1:])
    if n[0] == "when":
        return ("when", _norm(n[1]), tuple(_eq_key(b) for b in n[2]))
    return _norm(n)


def compare(ref, xm):
    """All differences between a reference {"symbols", "equations"} and the XML reading, as
    (clause, feature, detail).  At most one difference per component and per equation."""
    out = []
    # -- components <-> flat variables
    names = [c["name"] for c in xm["components"]]
    want = [s["name"] for s in ref["symbols"]]
    for n in want:
        if names.count(n) == 0:
            out.append(("component-missing", "variable", "flat variable %s has no component element" % n))
        elif names.count(n) > 1:
            out.append(("component-duplicate", "variable", "flat variable %s has %d component elements" % (n, names.count(n))))
    for n in names:
        if n not in want:
            out.append(("component-extra", "variable", "component %r is not a flat variable" % n))
    byname = {c["name"]: c for c in xm["components"]}
    for s in ref["symbols"]:
        c = byname.get(s["name"])
        if c is None or names.count(s["name"]) != 1:
            continue
        d = cmp_component(s, c)
        if d:
            out.append(d)
    # -- equation elements <-> flat equations, in order
    re, xe = ref["equations"], xm["equations"]
    if len(re) != len(xe):
        out.append(("equation-count", "count", "%d flat equation(s), %d element(s) in <equation>" % (len(re), len(xe))))
    else:
        diffs = [cmp_eq(r, g, "equation[%d]" % (i + 1)) for i, (r, g) in enumerate(zip(re, xe))]
        bad = [d for d in diffs if d]
        rk, xk = [repr(_eq_key(r)) for r in re], [repr(_eq_key(g)) for g in xe]
        if len(bad) > 1 and rk != xk and sorted(rk) == sorted(xk):  # the same equations, permuted
            out.append(("equation-order", "order", "the equation elements are a permutation of the flat equations"))
        else:
            first_decl = ref.get("first_declaration_equation", len(re))
            for i, d in enumerate(diffs):
                if d:
                    out.append((d[0], d[1] + (":declaration-equation" if i >= first_decl else ""), d[2]))
    return out


def cmp_component(s, c):
    n = s["name"]
    if c["builtin"] != [s["type"]]:
        return ("component-type", s["type"], "%s: builtin type %s, XML has %r" % (n, s["type"], c["builtin"]))
    var = c["var"] if c["var"] is not None else "continuous"
    if var != s["var"]:
        return ("component-variability", s["var"], "%s: variability %s, XML has %r" % (n, s["var"], c["var"]))
    for f in ("start", "value"):
        got = [v for k, v in c["items"] if k == f]
        want = s[f]
        if len(got) > 1:
            return ("component-item-duplicate", f, "%s: %d items named %s" % (n, len(got), f))
        if want is not None:
            if not got:
                return ("component-item-missing", "%s:%s" % (f, want[1]), "%s: %s = %r is missing from the modifier" % (n, f, want[2]))
            if len(got[0]) != 1 or not lit_ok(want, got[0][0]):
                return ("component-item-wrong", "%s:%s" % (f, want[1]), "%s: %s = %r, XML item holds %r" % (n, f, want[2], got[0]))
        elif got:
            alt = s["value_opt"] if f == "value" else ("lit",) + DEFAULT_START.get(s["type"], ("none", None))
            if alt is None or len(got[0]) != 1 or not lit_ok(alt, got[0][0]):
                return ("component-item-unexpected", f, "%s: the flat variable has no %s, XML item holds %r" % (n, f, got[0]))
    if s["fixed"] is not None:  # not in the statement's list: only a *contradicting* item is reported
        got = [v for k, v in c["items"] if k == "fixed"]
        if got and not (len(got[0]) == 1 and lit_ok(("lit", "bool", s["fixed"]), got[0][0])):
            return ("component-item-wrong", "fixed:bool", "%s: fixed = %s, XML item holds %r" % (n, s["fixed"], got[0]))
    return None


# ---- enumeration ------------------------------------------------------------------------------------------------

CALL1_DEEP = ["sin", "cos"]
CALL1_ALL = ["sin", "cos", "tan", "asin", "acos", "atan", "sinh", "cosh", "tanh", "exp", "log", "log10", "sqrt", "abs", "sign", "floor", "ceil", "noEvent", "pre"]
CALL2_DEEP = ["max", "min"]
CALL2_ALL = ["max", "min", "atan2", "mod", "rem", "div", "smooth"]
CALL3_DEEP = ["semiLinear"]
CALL3_ALL = ["semiLinear", "delay"]
RBIN = ["+", "-", "*", "/", "^"]
REL = ["<", "<=", ">", ">=", "==", "<>"]


def gen(t, n, memo):
    """All well-typed shapes of type t (R numeric, B Boolean) with exactly n operator nodes; leaves are
    placeholders ("leaf", R | B | S | D): D = a differentiated variable (operand of der), S = String."""
    key = (t, n)
    if key in memo:
        return memo[key]
    out = []
    m = n - 1
    if n == 0:
        out.append(("leaf", t))
    elif t == "R":
        for u in ("-", "+"):
            out += [("un", u, x) for x in gen("R", m, memo)]
        for c in CALL1_DEEP:
            out += [("call", c, (x,)) for x in gen("R", m, memo)]
        if m == 0:
            out.append(("call", "der", (("leaf", "D"),)))
        for i in range(m + 1):
            ls, rs = gen("R", i, memo), gen("R", m - i, memo)
            for op in RBIN:
                out += [("bin", op, l, r) for l in ls for r in rs]
            for c in CALL2_DEEP:
                out += [("call", c, (l, r)) for l in ls for r in rs]
            for j in range(m - i + 1):
                for c in CALL3_DEEP:
                    out += [("call", c, (a, b, d)) for a in ls for b in gen("R", j, memo) for d in gen("R", m - i - j, memo)]
    else:
        out += [("un", "not", x) for x in gen("B", m, memo)]
        for i in range(m + 1):
            for op in ("and", "or"):
                out += [("bin", op, l, r) for l in gen("B", i, memo) for r in gen("B", m - i, memo)]
            for op in REL:
                out += [("bin", op, l, r) for l in gen("R", i, memo) for r in gen("R", m - i, memo)]
        if m == 0:
            out += [("bin", op, ("leaf", "S"), ("leaf", "S")) for op in ("==", "<>")]
    memo[key] = out
    return out


# leaf cycles: every kind of variable (by variability and type) and every kind of literal; neighbours differ,
# so a swapped or dropped operand is always visible
LEAVES = {
    "R": [V("x"), V("p"), N("1.5"), V("d"), N("2"), V("c"), V("i"), V("time")],
    "B": [V("b"), ("bool", True), V("pb"), ("bool", False)],
    "S": [V("sp"), ("str", "s")],
    "D": [V("x"), V("y")],
}
HEADER = [
    Dcl("x", start=N("1.5")),
    Dcl("y"),
    Dcl("d", var="discrete"),
    Dcl("p", var="parameter", value=N("2.5")),
    Dcl("c", var="constant", value=N("3")),
    Dcl("i", "Integer"),
    Dcl("b", "Boolean"),
    Dcl("pb", "Boolean", var="parameter", value=("bool", True)),
    Dcl("sp", "String", var="parameter", value=("str", "s")),
]


def bind(shape, rot, leaves=LEAVES):
    """Placeholders -> leaves, left to right through the cycles, starting at offset rot."""
    cnt = {k: rot for k in leaves}

    def rec(n):
        if n[0] == "leaf":
            cyc = leaves[n[1]]
            v = cyc[cnt[n[1]] % len(cyc)]
            cnt[n[1]] += 1
            return v
        if n[0] == "un":
            return ("un", n[1], rec(n[2]))
        if n[0] == "bin":
            l = rec(n[2])
            return ("bin", n[1], l, rec(n[3]))
        return ("call", n[1], tuple([rec(a) for a in n[2]]))

    return rec(shape)


def nops(n):
    if n[0] == "un":
        return 1 + nops(n[2])
    if n[0] == "bin":
        return 1 + nops(n[2]) + nops(n[3])
    if n[0] == "call":
        return 1 + sum(nops(a) for a in n[2])
    return 0


def typ_of(n):
    if n[0] == "bool" or (n[0] == "var" and n[1] in ("b", "pb")):
        return "B"
    if n[0] == "un":
        return "B" if n[1] == "not" else "R"
    if n[0] == "bin":
        return "B" if n[1] in REL or n[1] in ("and", "or") else "R"
    return "R"


PACK = 12


def pack(exprs, fam):
    """Expressions -> models: the fixed header plus one fresh variable per expression, PACK equations a model;
    every third numeric expression stands on the left of its equation."""
    progs = []
    for i in range(0, len(exprs), PACK):
        decls, eqs = list(HEADER), []
        for j, e in enumerate(exprs[i : i + PACK]):
            t = typ_of(e)
            decls.append(Dcl("v%d" % j, "Real" if t == "R" else "Boolean"))
            lhs_ok = t == "R" and j % 3 == 2 and e[0] in ("bin", "call")
            eqs.append(("eq", e, V("v%d" % j)) if lhs_ok else ("eq", V("v%d" % j), e))
        progs.append((fam, Prog(decls, eqs)))
    return progs


def fam_trees(nmax):
    memo, exprs = {}, []
    for n in range(0, nmax + 1):
        for t in ("R", "B"):
            for sh in gen(t, n, memo):
                seen = set()
                for r in range(len(LEAVES[t])):
                    e = bind(sh, r)
                    if e not in seen:
                        seen.add(e)
                        exprs.append(e)
    return pack(exprs, "trees")


def fam_leaf_product():
    """One operator node, every leaf in every operand position, every call name."""
    R, Bl = LEAVES["R"], LEAVES["B"]
    ex = []
    for a in R:
        ex += [("un", u, a) for u in ("-", "+")] + [C(f, a) for f in CALL1_ALL]
        for b in R:
            ex += [Bn(op, a, b) for op in RBIN + REL] + [C(f, a, b) for f in CALL2_ALL]
            for c in R:
                ex += [C(f, a, b, c) for f in CALL3_ALL]
    for a in Bl:
        ex.append(("un", "not", a))
        ex += [Bn(op, a, b) for op in ("and", "or") for b in Bl]
    for a in LEAVES["S"]:
        ex += [Bn(op, a, b) for op in ("==", "<>") for b in LEAVES["S"]]
    ex += [C("der", V("x")), C("der", V("y"))]
    return pack(ex, "leaf-product")


# 1.0 / 0.0 / 1 / 0 next to true / false: values that compare equal across Python types
NUMS = ["0", "1", "1.0", "0.0", "7", "2.5", "1.50", "0.1", "3.0", "1e3", "1E-3", "2.5e+2", "1.2345678", "0.30000000000000004", "123456789", "1e22", "1e-7"]
STRS = ["", "s", "a<b&c", "with space", "it's", ">]]>", "ünï", "1", "true"]


def fam_literals():
    ex = []
    for s in NUMS:
        L = N(s)
        ex += [L, Bn("+", L, V("x")), Bn("-", V("x"), L), C("sin", L), C("max", L, V("x")), C("max", V("x"), L), ("un", "-", L), Bn("<", V("x"), L)]
    for v in (True, False):
        L = ("bool", v)
        ex += [L, Bn("and", V("b"), L), Bn("or", L, V("b")), ("un", "not", L)]
    for s in STRS:
        ex += [Bn("==", V("sp"), ("str", s)), Bn("<>", ("str", s), V("sp"))]
    progs = pack(ex, "literals")
    decls = []
    for k, s in enumerate(NUMS):
        decls += [Dcl("a%d" % k, start=N(s)), Dcl("q%d" % k, var="parameter", value=N(s)), Dcl("k%d" % k, var="constant", start=N(s), value=N(s))]
    for k, s in enumerate(STRS):
        decls += [Dcl("s%d" % k, "String", var="parameter", value=("str", s)), Dcl("t%d" % k, "String", var="constant", value=("str", s))]
    for i in range(0, len(decls), 10):
        progs.append(("literals", Prog(decls[i : i + 10], [])))
    return progs


def decl_space():
    lits = {
        "Real": [N("0"), N("1.5"), N("2"), N("1e3")],
        "Integer": [N("0"), N("3")],
        "Boolean": [("bool", True), ("bool", False)],
    }
    out = []
    for ty in ("Real", "Integer", "Boolean"):
        for var in VARIABILITIES:
            for st in [None] + lits[ty]:
                for val in [None] + lits[ty]:
                    for fx in (None, True, False):
                        out.append(dict(type=ty, var=var, start=st, value=val, fixed=fx))
                        if st is not None and fx is not None and val is None:
                            out.append(dict(type=ty, var=var, start=st, value=val, fixed=fx, fixed_first=True))
    for var in ("parameter", "constant"):
        for val in (None, ("str", ""), ("str", "s"), ("str", "a<b&c")):
            out.append(dict(type="String", var=var, value=val))
    for var in VARIABILITIES:  # alias of a builtin: the *builtin* type is what the component carries
        for st in (None, N("1.5")):
            for val in (None, N("2.5")):
                out.append(dict(type="T", var=var, start=st, value=val))
    for ca in ("input", "output"):
        for st in (None, N("1.5")):
            out.append(dict(type="Real", causality=ca, start=st))
    return out


def fam_decls():
    space = decl_space()
    progs = []
    for i in range(0, len(space), 8):
        decls = [Dcl("n%d" % j, **kw) for j, kw in enumerate(space[i : i + 8])]
        # one ordinary equation, so that declaration equations have something to be ordered against
        progs.append(("declarations", Prog(decls + [Dcl("z")], [("eq", V("z"), Bn("*", N("2"), V("time")))])))
    return progs


def fam_tolerated():
    """Signed literals in start / value: `-1.5` is an expression, not a literal.  Rejection is accepted; an
    accepted model must carry the number."""
    neg = lambda s: ("un", "-", N(s))  # noqa: E731
    progs = []
    for var in VARIABILITIES:
        progs.append(("signed-literal", Prog([Dcl("n", var=var, start=neg("1.5"))], [])))
        progs.append(("signed-literal", Prog([Dcl("n", var=var, value=neg("2"))], [])))
        progs.append(("signed-literal", Prog([Dcl("n", "Integer", var=var, start=neg("3"), value=N("1"))], [])))
    return progs


SUB_LEAVES = {"R": [V("u"), V("k"), N("1.5"), V("time")], "B": [V("f"), ("bool", True)], "S": [("str", "s"), ("str", "t")], "D": [V("u")]}
SUB_DECLS = [Dcl("u", start=N("1.5")), Dcl("k", var="parameter", value=N("2.5")), Dcl("f", "Boolean"), Dcl("g")]
INST_MODS = [
    {},
    {"k": {"value": N("7")}},
    {"u": {"start": N("2")}},
    {"k": {"value": N("7")}, "u": {"start": N("2"), "fixed": True}},
    {"g": {"value": N("4")}},  # a declaration equation a.g = 4 through a modification
]


def fam_nested(nmax):
    memo = {}
    shapes = [sh for n in range(0, nmax + 1) for sh in gen("R", n, memo)]
    bodies = []
    for sh in shapes:
        for r in (0, 1) if nops(sh) else (0, 1, 2, 3):
            e = bind(sh, r, SUB_LEAVES)
            if e not in bodies[-8:]:
                bodies.append(e)
    main_eqs = [
        [("eq", V("w"), V("a.u"))],
        [("eq", Bn("+", V("a.u"), V("w")), Bn("*", V("a.k"), V("time")))],
        [("eq", V("w"), C("max", V("a.k"), V("a.u"))), ("eq", C("der", V("w")), ("un", "-", V("a.u")))],
    ]
    progs = []
    k = 0
    for e in bodies:
        for two in (False, True):
            # the product body x instances x modification x main equation is walked diagonally for the last
            # two factors (every modification and every main equation with every body; not every pair)
            for mi in range(len(INST_MODS)):
                mods = INST_MODS[mi]
                meq = main_eqs[(k + mi) % len(main_eqs)]
                insts = [Inst("a", mods)] + ([Inst("a2", INST_MODS[(mi + 1) % len(INST_MODS)])] if two else [])
                is_der = e[0] == "call" and e[1] == "der"
                sub_eqs = [("eq", e, V("g")) if is_der else ("eq", V("g"), e), ("eq", V("f"), Bn("<", V("u"), V("k")))]
                progs.append(("nested", Prog([Dcl("w", start=N("0"))] + insts + [Dcl("r", var="parameter", value=N("1"))], meq, sub=(SUB_DECLS, sub_eqs))))
        k += 1
    return progs


def fam_when(tier):
    memo = {}
    conds = []
    for n in (0, 1, 2) if tier == "thorough" else (0, 1):
        for sh in gen("B", n, memo):
            for r in range(len(LEAVES["B"])):
                e = bind(sh, r)
                if e not in conds:
                    conds.append(e)
    bodies = [
        [("eq", V("d"), Bn("+", V("x"), N("1")))],
        [("eq", V("d"), V("x")), ("reinit", V("x"), Bn("*", N("2"), V("d")))],
        [("reinit", V("x"), ("un", "-", V("p"))), ("eq", V("d"), C("max", V("x"), V("y"))), ("eq", V("b"), ("un", "not", V("pb")))],
    ]
    progs = []
    for k, c in enumerate(conds):
        for body in bodies:
            eqs = [("eq", C("der", V("x")), ("un", "-", V("x"))), ("when", c, body), ("eq", V("y"), Bn("*", V("p"), V("time")))]
            progs.append(("when", Prog(HEADER, eqs)))
    return progs


def programs(tier):
    nmax = 3 if tier == "thorough" else 2
    return fam_trees(nmax) + fam_leaf_product() + fam_literals() + fam_decls() + fam_nested(nmax - 1) + fam_when(tier) + fam_tolerated()


# ---- running one model ------------------------------------------------------------------------------------------


def _tuplify(x):
    if isinstance(x, (list, tuple)):
        return tuple(_tuplify(v) for v in x)
    if isinstance(x, dict):
        return {k: _tuplify(v) for k, v in x.items()}
    return x


def check_text(fam, text, ref):
    """Run the real backend on one text.  -> dict(viol=[(signature, message)], upstream=[...], rejected=str|None)"""
    from pymoca import parser
    from pymoca.backends.xml import generator

    res = {"viol": [], "upstream": [], "rejected": None}
    tolerated = fam == "signed-literal"
    try:
        tree = parser.parse(text, bypass_cache=True)
        if tree is None:
            raise SyntaxError("pymoca reports a syntax error")
        xml_text = generator.generate(tree, "M")
    except Exception as e:
        res["rejected"] = common.exc_sig(e)
        if not tolerated:
            res["viol"].append(("rejected:%s:%s" % (fam, common.exc_sig(e)), "a model of the subset does not generate: %r" % (e,)))
        return res
    xm, problem = read_xml(xml_text, "M")
    if problem:
        res["viol"].append((problem[0], problem[1] + "\n--- XML\n" + xml_text[:1500]))
        return res
    dr = compare(ref, xm)
    try:
        fref = flat_reference(tree, "M")
        df = compare(fref, xm)
    except Exception as e:  # the backend flattened it, so this cannot happen; never let it mask a verdict
        fref, df = None, [("flat-walk-failed", common.exc_sig(e), repr(e))]
    if dr and df:
        for clause, feat, detail in dr:
            res["viol"].append(("%s:%s" % (clause, feat), detail))
        res["xml"] = xml_text
    elif dr or df:
        res["upstream"] = [("xml==flat, differs from our reading: " if dr else "xml==our reading, differs from pymoca's flat tree: ") + "; ".join(d[2] for d in (dr or df))]
    res["n_eq"], res["n_sym"] = len(ref["equations"]), len(ref["symbols"])
    return res


def singles(fam, prog):
    """The model split into one model per equation / per declaration (for small replay cases)."""
    out = []
    if fam in ("trees", "leaf-product", "literals") and prog.eqs:
        nh = len(HEADER)
        for j, e in enumerate(prog.eqs):
            out.append(Prog(prog.elems[:nh] + [prog.elems[nh + j]], [e]))
    elif fam in ("declarations", "literals"):
        for d in prog.elems:
            out.append(Prog([d], []))
    return out


def check(job):
    fam, prog = job
    text = prog.text()
    ref = reference(prog)
    r = check_text(fam, text, ref)
    out = {"fam": fam, "viol": [], "upstream": r["upstream"], "rejected": r["rejected"], "n_eq": r.get("n_eq", 0), "n_sym": r.get("n_sym", 0)}
    if r["viol"]:
        small = []
        for p in singles(fam, prog):
            t1, ref1 = p.text(), reference(p)
            r1 = check_text(fam, t1, ref1)
            small += [(sig, "%s\n--- model\n%s" % (msg, t1), {"family": fam, "text": t1, "ref": ref1}) for sig, msg in r1["viol"]]
        # keep what only shows in the packed model (an interaction between equations), next to the small cases
        have = {sig for sig, _, _ in small}
        out["viol"] = small + [(sig, "%s\n--- model\n%s" % (msg, text), {"family": fam, "text": text, "ref": ref}) for sig, msg in r["viol"] if sig not in have]
    return out


def _rot(xs, k):
    k %= max(1, len(xs))
    return xs[k:] + xs[:k]


# ---- histories on one parsed tree: generate, edit in place, generate again ------------------------------------------
# The XML must mirror the flat model of the tree *as it is now*.  Differential oracle: the same edits applied to a
# fresh parse, generated once.


def _edit(tree, name, kind, n):
    from pymoca import ast

    c = tree.classes[name]
    if kind == "add":
        v = "zz_added%d" % n
        c.add_symbol(ast.Symbol(name=v, type=ast.ComponentRef(name="Real")))
        c.add_equation(ast.Equation(left=ast.ComponentRef(name=v), right=ast.Primary(value=41.5 + n)))
    elif kind == "drop" and c.equations:
        c.remove_equation(c.equations[0])
    elif kind == "value":
        for s_ in c.symbols.values():
            if isinstance(s_.type, ast.ComponentRef) and s_.type.name == "Real" and "parameter" in s_.prefixes and s_.class_modification is not None:
                for arg in s_.class_modification.arguments:
                    if getattr(arg.value, "component", None) is not None and arg.value.component.name == "value":
                        arg.value.modifications = [ast.Primary(value=99.25 + n)]
                        return


def _canon_xml(text):
    import xml.etree.ElementTree as ET

    return ET.tostring(ET.fromstring(text))


def check_history(job):
    from pymoca import parser
    from pymoca.backends.xml import generator

    fam, prog, edits = job
    text = prog.text()
    case = {"family": "history", "text": text, "edits": list(edits)}
    try:
        tree = parser.parse(text, bypass_cache=True)
        generator.generate(tree, "M")
    except Exception:
        return {"viol": [], "skipped": True}
    viol = []
    for k in range(len(edits)):
        _edit(tree, "M", edits[k], k)
        fresh = parser.parse(text, bypass_cache=True)
        for j in range(k + 1):
            _edit(fresh, "M", edits[j], j)
        try:
            want = _canon_xml(generator.generate(fresh, "M"))
        except Exception:
            return {"viol": viol, "skipped": True}
        try:
            got = _canon_xml(generator.generate(tree, "M"))
        except Exception as e:
            viol.append(("history-generate-raises:" + type(e).__name__, "generate after in-place edits %r raises %r\n%s" % (edits[: k + 1], e, text), case))
            break
        if got != want:
            viol.append(("history-stale-xml:after-" + edits[k], "XML generated after in-place edits %r differs from the XML of a fresh parse with the same edits\n%s" % (list(edits[: k + 1]), text), case))
            break
    return {"viol": viol, "skipped": False}


def history_jobs(tier):
    progs = [(f, p) for f, p in programs(tier) if f in ("declarations", "trees", "nested")]
    step = max(1, len(progs) // (12 if tier == "quick" else 60))
    chosen = progs[::step]
    seqs = [("add",), ("drop",), ("value",), ("add", "drop"), ("value", "add"), ("add", "add"), ("drop", "value")]
    if tier == "thorough":
        import itertools

        seqs = [s_ for n in (1, 2, 3) for s_ in itertools.product(("add", "drop", "value"), repeat=n)]
    return [(f, p, s_) for f, p in chosen for s_ in seqs]


def run(ctx):
    from pymoca import parser, tree  # noqa: F401  (imported before the fork: the workers inherit the modules)
    from pymoca.backends.xml import generator  # noqa: F401

    progs = _rot(programs(ctx.tier), ctx.seed * 37)
    hjobs = history_jobs(ctx.tier)
    with common.Pool() as pool:
        res = pool.map(check, progs, chunksize=4)
        hres = pool.map(check_history, hjobs, chunksize=2)
    hist_run = 0
    for r in hres:
        hist_run += 0 if r["skipped"] else 1
        for sig, msg, case in r["viol"]:
            ctx.violation(sig, msg, case)
    ctx.coverage["edit_histories"] = hist_run
    fams, rejected, upstream = {}, {}, []
    eq_texts, nontrivial_eq, decl_texts, nontrivial_decl = set(), set(), set(), set()
    n_eq = n_sym = 0
    for (fam, prog), r in zip(progs, res):
        fams[fam] = fams.get(fam, 0) + 1
        n_eq += r["n_eq"]
        n_sym += r["n_sym"]
        if r["rejected"]:
            rejected[fam] = rejected.get(fam, 0) + 1
        upstream += r["upstream"]
        for sig, msg, case in r["viol"]:
            ctx.violation(sig, msg, case)
        allq = list(prog.eqs) + (list(prog.sub[1]) if prog.sub else [])
        for e in allq:
            t = "\n".join(eq_text(e)) + ("@nested" if prog.sub else "")
            eq_texts.add(t)
            if e[0] == "when" or nops(e[1]) + nops(e[2]) > 0:
                nontrivial_eq.add(t)
        for d in prog.elems:
            t = d.text()
            decl_texts.add(t)
            if isinstance(d, Inst) or d.var != "continuous" or d.start is not None or d.value is not None or d.fixed is not None or d.type == "T":
                nontrivial_decl.add(t)
    for k in (0, len(progs) // 2, len(progs) - 1):
        ctx.sample({"family": progs[k][0], "model": progs[k][1].text()})
    nmax = 3 if ctx.tier == "thorough" else 2
    ctx.coverage.update(
        {
            "evaluations": len(progs),
            "models_per_family": fams,
            "flat_equations_compared": n_eq,
            "flat_variables_compared": n_sym,
            "distinct_equation_texts": len(eq_texts),
            "distinct_declaration_texts": len(decl_texts),
            "distinct_nontrivial": len(nontrivial_eq) + len(nontrivial_decl),
            "nontrivial_equations": len(nontrivial_eq),
            "nontrivial_declarations": len(nontrivial_decl),
            "max_operator_nodes": nmax,
            "rejected_tolerated": rejected.get("signed-literal", 0),
            "upstream_disagreements": len(upstream),
            "upstream_examples": upstream[:3],
            "exhaustive": True,
            "rule": "trees: every well-typed expression shape with <= %d operator nodes over unary - + not, binary + - * / ^ "
            "< <= > >= == <> and or, calls sin cos (1), max min (2), semiLinear (3), der(variable), String == / <>, each with its "
            "leaves bound left to right through a cycle of all leaf kinds (continuous / parameter / discrete / constant / "
            "Integer variable, time, Real and Integer literal; Boolean variable, parameter, true, false) at every rotation of the "
            "cycle, %d equations a model, every third numeric one on the left-hand side; leaf-product: one operator node, every "
            "leaf in every operand position, 19 + 7 + 2 call names; literals: %d number spellings, both Booleans, %d strings as "
            "operands and as start / value; declarations: type x variability x start x value x fixed (+ attribute order, "
            "String, alias type, input / output), 8 a model; nested: one level, class A with every shape with <= %d operator "
            "nodes as its equation, 1-2 instances, 5 modifications, 3 outer equations; when: single-branch when-equations with "
            "every Boolean shape as condition and 3 bodies (equations, reinit); signed literals as start / value (rejection "
            "tolerated). Non-trivial = an equation with at least one operator node (name, operand count and operand order can "
            "go wrong) or a declaration with a variability, start, value, fixed or alias type; distinct texts are counted. "
            "Histories: on a fixed sub-sample of the models, generate, then every sequence of 1-2 (thorough 1-3) in-place edits out of "
            "{add a variable and its equation, drop the first equation, change a parameter value}, generating after each; the XML "
            "must equal the XML of a fresh parse carrying the same edits."
            % (nmax, PACK, len(NUMS), len(STRS), nmax - 1),
        }
    )
    ctx.assumptions.append(
        "subset = what generator.py has a handler for: scalar Real/Integer/Boolean/String variables, literal start/value/fixed, "
        "equations, single-branch when, reinit; excluded (rejected by the backend or silently outside its format): if-expressions, "
        "arrays, for/if-equations, elsewhen, initial equations, annotations, user functions, signed literals as attribute values"
    )
    ctx.assumptions.append(
        "the element *tag* of a literal and operator-vs-apply are not judged (Boolean true is written <real value=\"True\"/>); "
        "`fixed` is not in the statement: only an item contradicting the declaration is reported; component order is not judged"
    )
    ctx.assumptions.append("a case is reported only if the XML differs from both our reading of the source and pymoca's own flat tree")


def replay(case):
    if case.get("family") == "history":
        for f, p_, e in history_jobs("thorough"):
            if p_.text() == case["text"] and list(e) == list(case["edits"]):
                r = check_history((f, p_, e))
                print(case["text"], case["edits"], [m.split("\n")[0] for _, m, _ in r["viol"]] or "ok")
                return not r["viol"]
        return True
    ref = _tuplify(case["ref"])
    ref["symbols"] = [dict(s) for s in ref["symbols"]]
    r = check_text(case["family"], case["text"], ref)
    print(case["text"])
    if r.get("xml"):
        print(r["xml"])
    print([m for _, m in r["viol"]] or "ok")
    return not r["viol"]
