"""C03 -- parsed expressions follow Modelica precedence / associativity and literal values.

E4: every well-typed expression tree with <= N operator nodes over the alphabet, printed with minimal,
full and doubled parentheses, parsed by pymoca; an evaluator over pymoca's AST must give, on every grid
point, the value the reference evaluator gives the *source tree*.
"""
import itertools
import math

from vf.core import common
from vf.ref import expr as X

LEVEL = "exploration"

_CFG = {}


def opset(tier, n):
    """Operator alphabet; the full alphabet where the count allows it, the core one at the deepest level."""
    core = dict(un=["-"], rbin=["+", "-", "*", "/", "^"], rel=["<", ">=", "=="], calls=[], bif=False)
    full = dict(
        un=["-", "+"],
        rbin=["+", "-", "*", "/", "^", ".+", ".-", ".*", "./", ".^"],
        rel=["<", "<=", ">", ">=", "==", "<>"],
        calls=["sin", "max"],
        bif=True,
    )
    return core, full


def gen(t, n, ops, memo):
    """All trees of type t ('R'/'B') with exactly n operator nodes; leaves are placeholders."""
    key = (t, n)
    if key in memo:
        return memo[key]
    out = []
    if n == 0:
        out.append(("leaf", t))
    else:
        m = n - 1
        if t == "R":
            for u in ops["un"]:
                out += [("un", u, x) for x in gen("R", m, ops, memo)]
            for i in range(m + 1):
                ls, rs = gen("R", i, ops, memo), gen("R", m - i, ops, memo)
                for op in ops["rbin"]:
                    out += [("bin", op, l, r) for l in ls for r in rs]
            for c in ops["calls"]:
                if c in ("sin", "cos", "tan", "abs", "exp"):
                    out += [("call", c, (x,)) for x in gen("R", m, ops, memo)]
                else:
                    for i in range(m + 1):
                        out += [("call", c, (l, r)) for l in gen("R", i, ops, memo) for r in gen("R", m - i, ops, memo)]
        else:
            out += [("un", "not", x) for x in gen("B", m, ops, memo)]
            for i in range(m + 1):
                for op in ("and", "or"):
                    out += [("bin", op, l, r) for l in gen("B", i, ops, memo) for r in gen("B", m - i, ops, memo)]
                ls, rs = gen("R", i, ops, memo), gen("R", m - i, ops, memo)
                for op in ops["rel"]:
                    out += [("bin", op, l, r) for l in ls for r in rs]
        if t == "R" or ops["bif"]:
            for i in range(m + 1):
                for j in range(m - i + 1):
                    k = m - i - j
                    out += [
                        ("if", c, a, b)
                        for c in gen("B", i, ops, memo)
                        for a in gen(t, j, ops, memo)
                        for b in gen(t, k, ops, memo)
                    ]
    memo[key] = out
    return out


RNAMES = ["a", "b", "c", "d"]
BNAMES = ["p", "q"]


def bind(tree):
    """Replace placeholders by variables, left to right (a b c d a ... / p q p ...)."""
    cnt = {"R": 0, "B": 0}

    def rec(n):
        if n[0] == "leaf":
            t = n[1]
            names = RNAMES if t == "R" else BNAMES
            v = names[cnt[t] % len(names)]
            cnt[t] += 1
            return ("var", v)
        if n[0] == "un":
            return ("un", n[1], rec(n[2]))
        if n[0] == "bin":
            l = rec(n[2])
            return ("bin", n[1], l, rec(n[3]))
        if n[0] == "if":
            c = rec(n[1])
            a = rec(n[2])
            return ("if", c, a, rec(n[3]))
        if n[0] == "call":
            return ("call", n[1], tuple(rec(x) for x in n[2]))
        raise ValueError(n)

    return rec(tree)


def grid(seed):
    base = [
        (2.5, -1.5, 3.0, 0.75),
        (-0.5, 2.0, -3.5, 1.25),
        (1.5, 4.0, 0.5, -2.0),
        (3.0, 2.0, 2.0, 3.0),
    ]
    rot = seed % 4
    pts = []
    for vals in base:
        vals = vals[rot:] + vals[:rot]
        for p, q in itertools.product((False, True), repeat=2):
            env = dict(zip(RNAMES, vals))
            env.update(p=p, q=q)
            pts.append(env)
    return pts


# ---- evaluating pymoca's AST -----------------------------------------------------------------------------


def ev_past(n, env):
    from pymoca import ast

    if isinstance(n, ast.Primary):
        return n.value
    if isinstance(n, ast.ComponentRef):
        return env[n.name]
    if isinstance(n, ast.IfExpression):
        for c, e in zip(n.conditions, n.expressions):
            if ev_past(c, env):
                return ev_past(e, env)
        return ev_past(n.expressions[-1], env)
    if isinstance(n, ast.Expression):
        op = n.operator
        args = n.operands
        if isinstance(op, ast.ComponentRef):
            try:
                return X.FUNCS[op.name](*[ev_past(a, env) for a in args])
            except (ValueError, OverflowError):
                raise X.Undefined()
        if op == "not":
            return not ev_past(args[0], env)
        if op == "and":
            return bool(ev_past(args[0], env)) and bool(ev_past(args[1], env))
        if op == "or":
            return bool(ev_past(args[0], env)) or bool(ev_past(args[1], env))
        if len(args) == 1:
            v = ev_past(args[0], env)
            return -v if op == "-" else +v
        vals = [ev_past(a, env) for a in args]
        if op in X.REL:
            return X.relop(op, vals[0], vals[1])
        r = vals[0]
        for v in vals[1:]:  # an n-ary node means left to right
            r = X.arith(op, r, v)
        if isinstance(r, float) and (math.isinf(r) or math.isnan(r)):
            raise X.Undefined()
        return r
    raise TypeError("unexpected node %r" % (n,))


def same(a, b):
    if isinstance(a, bool) or isinstance(b, bool):
        return bool(a) == bool(b) and isinstance(a, bool) == isinstance(b, bool)
    return abs(a - b) <= 1e-9 * max(1.0, abs(a), abs(b))


def model_text(exprs):
    lines = ["model M", "  Real a, b, c, d;", "  Boolean p, q;"]
    for i, (t, _) in enumerate(exprs):
        lines.append("  %s v%d;" % ("Real" if t == "R" else "Boolean", i))
    lines.append("equation")
    for i, (_, s) in enumerate(exprs):
        lines.append("  v%d = %s;" % (i, s))
    lines.append("end M;")
    return "\n".join(lines) + "\n"


def check_chunk(chunk):
    """chunk: list of (tree, mode).  Returns (stats, violations)."""
    from pymoca import parser

    pts = _CFG["grid"]
    items = [(X.typ(t), X.pr(t, m), t, m) for t, m in chunk]
    viol = []
    stats = {"texts": len(items), "nontrivial": 0, "points": 0}
    tree = parser.parse(model_text([(ty, s) for ty, s, _, _ in items]), bypass_cache=True)
    if tree is None:
        # find the culprit(s) one by one
        for ty, s, t, m in items:
            one = parser.parse(model_text([(ty, s)]), bypass_cache=True)
            if one is None:
                viol.append(("valid-expression-rejected", "pymoca reports a syntax error for `%s`" % s, {"expr": s, "tree": t, "mode": m}))
            else:
                viol += judge(one.classes["M"].equations[0].right, ty, s, t, m, pts, stats)
        return stats, viol
    eqs = tree.classes["M"].equations
    for eq, (ty, s, t, m) in zip(eqs, items):
        viol += judge(eq.right, ty, s, t, m, pts, stats)
    return stats, viol


def judge(past, ty, s, t, m, pts, stats):
    bad = None
    usable = 0
    refvals = []
    for env in pts:
        try:
            want = X.ev(t, env)
        except X.Undefined:
            refvals.append(None)
            continue
        refvals.append(want)
        try:
            got = ev_past(past, env)
        except X.Undefined:
            continue
        except Exception as e:
            bad = "evaluating pymoca's tree failed: %r" % e
            break
        usable += 1
        if not same(got, want):
            bad = "at %r pymoca's tree evaluates to %r, Modelica gives %r" % (
                {k: env[k] for k in sorted(env)},
                got,
                want,
            )
            break
    stats["points"] += usable
    if m == "min" and _sensitive(t, pts, refvals):
        stats["nontrivial"] += 1
    if bad:
        return [("wrong-value:" + _shape(t), "`%s` (%s parentheses): %s" % (s, m, bad), {"expr": s, "tree": t, "mode": m})]
    return []


def _sensitive(t, pts, refvals):
    """Does some other reading of the same tokens evaluate differently somewhere on the grid?"""
    for alt in X.rotations(t):
        for env, want in zip(pts, refvals):
            if want is None:
                continue
            try:
                v = X.ev(alt, env)
            except X.Undefined:
                continue
            if not same(v, want):
                return True
    return False


def _shape(t):
    """operator skeleton, e.g. un-(bin^) : the signature of a failing case"""
    k = t[0]
    if k in ("var", "num", "bool", "str"):
        return "_"
    if k == "un":
        return "%s(%s)" % (t[1], _shape(t[2]))
    if k == "bin":
        return "(%s%s%s)" % (_shape(t[2]), t[1], _shape(t[3]))
    if k == "if":
        return "if(%s,%s,%s)" % (_shape(t[1]), _shape(t[2]), _shape(t[3]))
    return "%s(%s)" % (t[1], ",".join(_shape(x) for x in t[2]))


LITERALS = [
    "0", "1", "7", "42", "007", "10", "1234567890", "123456789012345678901234567890",
    "1.", "1.0", "0.5", "3.25", "1.5e-3", "1E5", "2e+2", "1e0", "12.5E-1", "6.02e23", "1.e2", "0.1", "100.001",
]  # fmt: skip
STRINGS = ["", "abc", "with space", "it's", "ünïcödé", "a,b;c", "tab\tin", "1+2", "end M;"]
# Strings with Modelica escape sequences, as spelled in the source (between the quotes).  pymoca keeps the raw
# text; resolving the escapes would be right as well.  Anything else (e.g. a codec that mangles the non-ASCII
# characters next to an escape) is a wrong literal value.
ESCAPED = ['a\\"b', "tab\\tin", '20 \\"°C\\"', "back\\\\slash", "é\\nü", "q\\?", "x\\'y", "€ 5 \\\\ ½"]
_ESC = {"'": "'", '"': '"', "?": "?", "\\": "\\", "a": "\a", "b": "\b", "f": "\f", "n": "\n", "r": "\r", "t": "\t", "v": "\v"}


def unescape(raw):
    out, i = [], 0
    while i < len(raw):
        if raw[i] == "\\" and i + 1 < len(raw) and raw[i + 1] in _ESC:
            out.append(_ESC[raw[i + 1]])
            i += 2
        else:
            out.append(raw[i])
            i += 1
    return "".join(out)


def check_literals(_):
    from pymoca import ast, parser

    viol = []
    n = 0
    lines = ["model L"]
    decl = []
    eqs = []
    for i, s in enumerate(LITERALS):
        decl.append("  Real n%d;" % i)
        eqs.append("  n%d = %s;" % (i, s))
    for i, s in enumerate(STRINGS + ESCAPED):
        decl.append("  String s%d;" % i)
        eqs.append('  s%d = "%s";' % (i, s))
    decl.append("  Boolean t, f;")
    eqs += ["  t = true;", "  f = false;"]
    txt = "\n".join(lines + decl + ["equation"] + eqs + ["end L;"]) + "\n"
    tree = parser.parse(txt, bypass_cache=True)
    if tree is None:
        return 0, [("literal-rejected", "literal model does not parse", {"text": txt})]
    got = [e.right for e in tree.classes["L"].equations]
    want = [X.num_value(s) for s in LITERALS] + list(STRINGS) + list(ESCAPED) + [True, False]
    spell = LITERALS + ['"%s"' % s for s in STRINGS + ESCAPED] + ["true", "false"]
    for g, w, sp in zip(got, want, spell):
        n += 1
        if isinstance(w, str) and w in ESCAPED and isinstance(g, ast.Primary) and g.value == unescape(w):
            continue  # escapes resolved correctly: also a faithful value
        if not isinstance(g, ast.Primary) or type(g.value) is not type(w) or g.value != w:
            viol.append(("literal-value", "literal %s parsed as %r, expected %r (%s)" % (sp, getattr(g, "value", g), w, type(w).__name__), {"literal": sp}))
    return n, viol


def _init(seed):
    _CFG["grid"] = grid(seed)


def enumerate_trees(tier):
    core, full = opset(tier, 0)
    plans = [(full, 2), (core, 3)] if tier == "quick" else [(full, 3), (core, 4)]
    seen = set()
    out = []
    for ops, N in plans:
        memo = {}
        for n in range(1, N + 1):
            for t in ("R", "B"):
                for tr in gen(t, n, ops, memo):
                    b = bind(tr)
                    if b not in seen:
                        seen.add(b)
                        out.append(b)
    return out, plans


def run(ctx):
    _init(ctx.seed)
    trees, plans = enumerate_trees(ctx.tier)
    cases = [(t, m) for t in trees for m in ("min", "full", "double")]
    size = 40
    chunks = [cases[i : i + size] for i in range(0, len(cases), size)]
    with common.Pool(init=_init, initargs=(ctx.seed,)) as pool:
        res = pool.map(check_chunk, chunks)
        nlit, vlit = pool.map(check_literals, [0])[0]
    texts = nontriv = points = 0
    for st, viol in res:
        texts += st["texts"]
        nontriv += st["nontrivial"]
        points += st["points"]
        for sig, msg, case in viol:
            ctx.violation(sig, msg, case)
    for sig, msg, case in vlit:
        ctx.violation(sig, msg, case)
    for t in (trees[0], trees[len(trees) // 2], trees[-1]):
        ctx.sample({"min": X.pr(t, "min"), "full": X.pr(t, "full"), "double": X.pr(t, "double")})
    ctx.coverage.update(
        {
            "evaluations": texts + nlit,
            "distinct_nontrivial": nontriv,
            "trees": len(trees),
            "texts": texts,
            "grid_point_comparisons": points,
            "literals": nlit,
            "exhaustive": True,
            "bound": ["all well-typed trees with <= %d operator nodes over %s" % (N, {k: v for k, v in ops.items()}) for ops, N in plans],
            "rule": "every well-typed Real/Boolean expression tree within the bound (leaves bound left to right to a b c d / p q), "
            "printed with minimal parentheses (Modelica grammar), fully parenthesised and with doubled parentheses, packed 40 "
            "per model, parsed by pymoca; value of pymoca's tree compared with the reference value of the source tree on a "
            "grid of %d points. A tree counts as non-trivial when another reading of its minimal token sequence (a rotation at a "
            "place where no parentheses were printed) is well-typed and has a different value somewhere on the grid."
            % len(_CFG["grid"]),
        }
    )
    ctx.assumptions += [
        "values off the grid are not compared; strings with backslash escapes are outside the alphabet",
        "only texts that are valid Modelica are generated (pymoca accepting more is not judged)",
    ]


def replay(case):
    _init(0)
    if "literal" in case:
        n, v = check_literals(0)
        print(v or "literals ok")
        return not v
    t = _tuplify(case["tree"])
    st, viol = check_chunk([(t, case["mode"])])
    print(X.pr(t, case["mode"]), "->", [m for _, m, _ in viol] or "ok")
    return not viol


def _tuplify(x):
    return tuple(_tuplify(i) for i in x) if isinstance(x, list) else x
