"""C07 -- hierarchical flattening instantiates every component once.

E4: a base library (Leaf / Mid / Top, depth 3) and every subset of <= k feature deviations from it
(more instances of one class, extends chains, several extends, classes found in an enclosing scope,
nested classes, type aliases, arrays of scalars, prefixes at every level, initial equations, references
to sub-sub-components, depth 4).  Each program is printed from our own hierarchy AST (vf.ref.flat), flattened
by the real pymoca.tree.flatten and compared with the reference flattener: exactly one flat variable
per elementary leaf, named by its dotted path, with type, prefixes (input/output only at the top level),
dimensions and declaration attributes; the multiset of equations / initial equations of every instance
with every reference renamed to the flat name it denotes.
"""
import itertools

from vf.core import common, flatobs
from vf.ref import flat as F
from vf.ref.flat import Cls, Comp, Ext, Lib, Mod
from vf.ref.mast import B, N, V

LEVEL = "exploration"

FEATURES = [
    # Leaf level
    "alias-real", "alias-chain", "leaf-int", "alias-int", "alias-bool", "leaf-array", "leaf-array-for",
    "leaf-constant", "leaf-discrete", "leaf-input", "leaf-output", "leaf-ieq",
    "leaf-ext1", "leaf-ext2", "leaf-ext3", "leaf-two-ext", "leaf-sub", "leaf-io-alias",
    # Mid level
    "mid-third", "mid-inner", "mid-inner-ext", "mid-inner-two", "mid-ext", "mid-param", "mid-input", "mid-output", "mid-ieq",
    "mid-deepref", "mid-io-alias",
    # Top level
    "top-two-mid", "top-leaf", "top-input", "top-output", "top-param", "top-const", "top-discrete",
    # structure
    "pkg", "pkg-split", "depth4",
]  # fmt: skip

REQUIRES = {"alias-chain": {"alias-real"}, "mid-inner-ext": {"mid-inner"}, "mid-inner-two": {"mid-inner"}, "mid-deepref": {"leaf-sub"}, "leaf-ext2": {"leaf-ext1"}, "leaf-ext3": {"leaf-ext2", "leaf-ext1"}, "pkg-split": {"pkg"}, "alias-int": set(), "leaf-array-for": set()}


def der(x):
    return ("der", x)


def build(fs):
    """(Lib, name of the class to flatten) for a set of features."""
    has = lambda f: f in fs  # noqa: E731
    low = []  # classes that the Leaf level needs (base classes, types, Sub)
    xtype = "Real"
    if has("alias-real"):
        low.append(Cls("TR", kind="type", base="Real"))
        xtype = "TR"
        if has("alias-chain"):
            low.append(Cls("TR2", kind="type", base="TR"))
            xtype = "TR2"
    if has("alias-int"):
        low.append(Cls("TI", kind="type", base="Integer"))
    if has("alias-bool"):
        low.append(Cls("TB", kind="type", base="Boolean"))

    xcomp = Comp("x", xtype, mods=[Mod("start", N(1))])
    kcomp = Comp("k", prefixes=("parameter",), value=N(2))
    xeq = ("eq", der(V("x")), B("*", ("un", "-", V("k")), V("x")))
    leaf = Cls("Leaf")
    leafbase = None
    if has("leaf-ext1"):
        # x (and, without ext2, k) and the state equation move to the base class
        base = Cls("LeafBase", comps=[xcomp], eqs=[xeq])
        if has("leaf-ext2"):
            base0 = Cls("LeafBase0", comps=[kcomp])
            if has("leaf-ext3"):
                base00 = Cls("LeafBase00", comps=[Comp("w")], eqs=[("eq", V("w"), N(4))])
                base0.exts.append(Ext("LeafBase00"))
                low.append(base00)
            base.exts.append(Ext("LeafBase0"))
            low.append(base0)
        else:
            base.comps.append(kcomp)
        low.append(base)
        leafbase = base
        leaf.exts.append(Ext("LeafBase"))
    else:
        leaf.comps += [xcomp, kcomp]
        leaf.eqs.append(xeq)
    if has("leaf-two-ext"):
        low.append(Cls("MixA", comps=[Comp("ma")], eqs=[("eq", V("ma"), N(1))]))
        low.append(Cls("MixB", comps=[Comp("mb")], eqs=[("eq", V("mb"), B("*", N(2), V("mb2")))]))
        low[-1].comps.append(Comp("mb2", prefixes=("parameter",), value=N(6)))
        leaf.exts += [Ext("MixA"), Ext("MixB")]
        leaf.comps.append(Comp("mix"))
        leaf.eqs.append(("eq", V("mix"), B("+", V("ma"), V("mb"))))
    if has("leaf-int"):
        leaf.comps += [Comp("n", "Integer", prefixes=("parameter",), value=N(3)), Comp("bb", "Boolean")]
        leaf.eqs.append(("eq", V("bb"), B(">", V("x"), V("n"))))
    if has("alias-int"):
        leaf.comps.append(Comp("n2", "TI", prefixes=("parameter",), value=N(4)))
        leaf.comps.append(Comp("xn"))
        leaf.eqs.append(("eq", V("xn"), B("*", V("n2"), V("x"))))
    if has("alias-bool"):
        leaf.comps.append(Comp("tb", "TB"))
        leaf.eqs.append(("eq", V("tb"), B("<", V("x"), N(0))))
    if has("leaf-array"):
        leaf.comps.append(Comp("v", dims=(3,)))
        leaf.eqs += [("eq", ("idx", "v", (N(1),)), V("x")), ("eq", ("idx", "v", (N(2),)), B("*", N(2), V("x"))), ("eq", ("idx", "v", (N(3),)), V("k"))]
    if has("leaf-array-for"):
        leaf.comps.append(Comp("z", dims=(2,)))
        leaf.eqs.append(("for", "i", N(1), N(2), [("eq", ("idx", "z", (V("i"),)), B("*", V("i"), V("x")))]))
    if has("leaf-constant"):
        leaf.comps += [Comp("c", prefixes=("constant",), value=N("1.5")), Comp("cx")]
        leaf.eqs.append(("eq", V("cx"), B("*", V("c"), V("x"))))
    if has("leaf-discrete"):
        leaf.comps.append(Comp("d", prefixes=("discrete",)))
        leaf.eqs.append(("eq", V("d"), N(1)))
    if has("leaf-input"):
        leaf.comps += [Comp("u", prefixes=("input",)), Comp("ux")]
        leaf.eqs.append(("eq", V("ux"), B("+", V("u"), V("x"))))
    if has("leaf-output"):
        leaf.comps.append(Comp("o", prefixes=("output",)))
        leaf.eqs.append(("eq", V("o"), B("*", N(2), V("x"))))
    if has("leaf-io-alias"):
        # input / output members whose type is an alias of a builtin (and a plain Integer / Boolean one)
        for t, b in (("AR", "Real"), ("AI", "Integer"), ("AB", "Boolean")):
            if not any(c.name == t for c in low):
                low.append(Cls(t, kind="type", base=b))
        leaf.comps += [Comp("ua", "AR", prefixes=("input",)), Comp("oa", "AR", prefixes=("output",)), Comp("ui", "AI", prefixes=("input",)),
                       Comp("ob", "AB", prefixes=("output",)), Comp("un", "Integer", prefixes=("input",))]  # fmt: skip
        leaf.eqs += [("eq", V("oa"), B("+", V("ua"), V("x"))), ("eq", V("ob"), B(">", V("ui"), V("un")))]
    if has("leaf-ieq"):
        # an inherited initial equation when x lives in a base class
        (leafbase if leafbase is not None else leaf).ieqs.append(("eq", V("x"), V("k")))
    if has("leaf-sub"):
        low.append(Cls("Sub", comps=[Comp("z1"), Comp("zp", prefixes=("parameter",), value=N(8))], eqs=[("eq", V("z1"), V("zp"))]))
        leaf.comps.append(Comp("q", "Sub"))
        leaf.comps.append(Comp("qs"))
        leaf.eqs.append(("eq", V("qs"), B("+", V("q.z1"), V("x"))))

    # ---- Mid
    mid = Cls("Mid")
    midlow = []
    a, b = Comp("a", "Leaf"), Comp("b", "Leaf")
    s = Comp("s")
    rhs = B("+", V("a.x"), V("b.x"))
    if has("mid-param"):
        mid.comps.append(Comp("g", prefixes=("parameter",), value=N(2)))
        rhs = B("+", B("*", V("g"), V("a.x")), V("b.x"))
    if has("mid-ext"):
        midlow.append(Cls("MidBase", comps=[b, Comp("sb")], eqs=[("eq", V("sb"), B("*", N(3), V("b.x")))]))
        mid.exts.append(Ext("MidBase"))
        mid.comps += [a, s]
    else:
        mid.comps += [a, b, s]
    mid.eqs.append(("eq", V("s"), rhs))
    if has("mid-third"):
        mid.comps += [Comp("c3", "Leaf"), Comp("s2")]
        mid.eqs.append(("eq", V("s2"), B("-", V("c3.x"), V("a.x"))))
    if has("mid-inner"):
        inner = Cls("Inner", comps=[Comp("z")], eqs=[("eq", V("z"), N(1))])
        if has("mid-inner-ext"):
            # the nested class inherits from a class of the enclosing scope and holds a component of a class
            # that itself extends another one
            midlow.append(Cls("InnerBase", comps=[Comp("ib"), Comp("ik", prefixes=("parameter",), value=N(3))], eqs=[("eq", V("ib"), V("ik"))]))
            midlow.append(Cls("InnerDerived", exts=[Ext("InnerBase")], comps=[Comp("idv")], eqs=[("eq", V("idv"), B("*", N(2), V("ib")))]))
            inner.exts.append(Ext("InnerBase"))
            inner.comps.append(Comp("dd", "InnerDerived"))
            inner.eqs.append(("eq", V("z"), B("+", V("ib"), V("dd.idv"))))
            inner.eqs.pop(0)
        mid.classes.append(inner)
        mid.comps += [Comp("inn", "Inner"), Comp("si")]
        mid.eqs.append(("eq", V("si"), B("*", V("inn.z"), V("s"))))
        if has("mid-inner-two"):
            mid.comps.append(Comp("inn2", "Inner"))
            mid.eqs.append(("eq", V("si"), V("inn2.z")) if False else ("eq", B("-", V("inn2.z"), V("inn.z")), N(0)))
    if has("mid-io-alias"):
        for t, b in (("AR", "Real"),):
            if not any(c.name == t for c in low):
                low.append(Cls(t, kind="type", base=b))
        mid.comps += [Comp("mua", "AR", prefixes=("input",)), Comp("moa", "AR", prefixes=("output",))]
        mid.eqs.append(("eq", V("moa"), B("*", V("mua"), N(2))))
    if has("mid-input"):
        mid.comps += [Comp("mu", prefixes=("input",)), Comp("mux")]
        mid.eqs.append(("eq", V("mux"), B("+", V("mu"), V("a.x"))))
    if has("mid-output"):
        mid.comps.append(Comp("mo", prefixes=("output",)))
        mid.eqs.append(("eq", V("mo"), B("-", V("s"), N(1))))
    if has("mid-ieq"):
        mid.ieqs.append(("eq", V("a.x"), B("+", V("b.k"), N(1))))
    if has("leaf-input"):
        mid.eqs += [("eq", V("a.u"), V("s")), ("eq", V("b.u"), N(0))]
        if has("mid-third"):
            mid.eqs.append(("eq", V("c3.u"), N(0)))
    if has("mid-deepref") and has("leaf-sub"):
        mid.comps.append(Comp("dr"))
        mid.eqs.append(("eq", V("dr"), B("*", V("a.q.z1"), V("b.q.zp"))))

    # ---- Top
    top = Cls("Top", comps=[Comp("m", "Mid"), Comp("y")])
    yrhs = B("+", V("m.s"), V("m.a.x"))
    if has("top-param"):
        top.comps.append(Comp("tp", prefixes=("parameter",), value=N(5)))
        yrhs = B("*", V("tp"), yrhs)
    if has("top-const"):
        top.comps.append(Comp("tc", prefixes=("constant",), value=N(7)))
        yrhs = B("+", yrhs, V("tc"))
    top.eqs.append(("eq", V("y"), yrhs))
    if has("top-two-mid"):
        top.comps += [Comp("m2", "Mid"), Comp("y2")]
        top.eqs.append(("eq", V("y2"), B("-", V("m2.s"), V("m.b.x"))))
    if has("top-leaf"):
        top.comps += [Comp("own", "Leaf"), Comp("yo")]
        top.eqs.append(("eq", V("yo"), B("*", V("own.x"), V("own.k"))))
    if has("top-input"):
        top.comps += [Comp("tu", prefixes=("input",)), Comp("ytu")]
        top.eqs.append(("eq", V("ytu"), B("+", V("tu"), V("y"))))
    if has("top-output"):
        top.comps.append(Comp("to", prefixes=("output",)))
        top.eqs.append(("eq", V("to"), B("*", N(2), V("y"))))
    if has("top-discrete"):
        top.comps.append(Comp("td", prefixes=("discrete",)))
        top.eqs.append(("eq", V("td"), N(0)))
    if has("mid-input"):
        top.eqs.append(("eq", V("m.mu"), V("y")))
        if has("top-two-mid"):
            top.eqs.append(("eq", V("m2.mu"), N(1)))
    if has("leaf-input") and has("top-leaf"):
        top.eqs.append(("eq", V("own.u"), N(2)))

    target = "Top"
    upper = [leaf] + midlow + [mid, top]
    if has("depth4"):
        outer = Cls("Outer", comps=[Comp("t", "Top"), Comp("yy")], eqs=[("eq", V("yy"), B("+", V("t.y"), V("t.m.a.x")))])
        if has("top-input"):
            outer.eqs.append(("eq", V("t.tu"), N(3)))
        upper.append(outer)
        target = "Outer"
    if has("pkg"):
        if has("pkg-split"):
            # helper classes live in P, the models in the nested package P.Q: every type / base class of
            # the Leaf level is found in an enclosing scope
            q = Cls("Q", kind="package", classes=upper)
            lib = Lib([Cls("P", kind="package", classes=low + [q])])
            target = "P.Q." + target
        else:
            lib = Lib([Cls("P", kind="package", classes=low + upper)])
            target = "P." + target
    else:
        lib = Lib(low + upper)
    return lib, target


def feature_sets(k):
    out = []
    for r in range(k + 1):
        for combo in itertools.combinations(FEATURES, r):
            fs = set(combo)
            closed = set(fs)
            for f in fs:
                closed |= REQUIRES.get(f, set())
            if len(closed) > len(fs):
                # a feature with a prerequisite counts the prerequisite as a deviation too
                if len(closed) > k:
                    continue
                if closed != fs:
                    continue  # the closed set is enumerated on its own
            out.append(tuple(sorted(closed)))
    seen, res = set(), []
    for t in out:
        if t not in seen:
            seen.add(t)
            res.append(t)
    return res


def check(fs):
    lib, target = build(set(fs))
    text = lib.text()
    case = {"features": list(fs), "text": text, "class": target}
    exp = flatobs.expected(F.flatten(lib, target))
    try:
        obs = flatobs.normalise_obs(flatobs.observe(text, target))
    except Exception as e:
        return {"viol": [("flatten-raises:" + common.exc_sig(e), "flatten(%s) raises %r\n%s" % (target, e, text), case)], "text": text, "nvars": len(exp["vars"])}
    viol = []
    for clause, detail in flatobs.compare(exp, obs):
        viol.append((clause, "%s\nfeatures %s, flatten(%s)\n%s" % (detail, list(fs), target, text), case))
    return {"viol": viol, "text": text, "nvars": len(exp["vars"]), "neqs": len(exp["eqs"])}


def run(ctx):
    k = 2 if ctx.tier == "quick" else 4
    sets = feature_sets(k)
    if ctx.seed:
        r = ctx.seed % len(sets)
        sets = sets[r:] + sets[:r]
    with common.Pool() as pool:
        res = pool.map(check, sets, chunksize=8)
    texts = set()
    nvars = 0
    for fs, r in zip(sets, res):
        texts.add(r["text"])
        nvars += r["nvars"]
        for sig, msg, case in r["viol"]:
            # the signature carries the clause and the smallest feature set seen so far is reported first
            ctx.violation(sig, msg, case)
    base = sorted(sets, key=lambda t: (len(t), t))
    for t in (base[0], base[len(base) // 2], base[-1]):
        lib, target = build(set(t))
        ctx.sample({"features": list(t), "class": target, "text": lib.text()})
    ctx.coverage.update(
        {
            "evaluations": len(sets),
            "distinct_nontrivial": len(texts) - 1,
            "deviation_bound": k,
            "features": len(FEATURES),
            "flat_variables_compared": nvars,
            "exhaustive": True,
            "rule": "every subset of <= %d of %d feature deviations (prerequisites count) applied to the base library "
            "Leaf/Mid/Top; distinct = distinct program texts; non-trivial = at least one deviation from the base (every "
            "program has >= 2 instances of one class, three hierarchy levels and equations over sub-component variables)" % (k, len(FEATURES)),
        }
    )
    ctx.assumptions.append("equations are compared as multisets of structurally equal trees after renaming (order is not part of the statement)")
    ctx.assumptions.append("a binding equation of a non-parameter variable counts as an equation of the model on both sides")


def replay(case):
    r = check(tuple(case["features"]))
    print(r["text"])
    print([m.split("\n")[0] for _, m, _ in r["viol"]] or "ok")
    return not r["viol"]
