"""C15 -- simplification keeps regular systems square and self-contained.

Same enumeration as C14 (vf.checks.simp: triangular-bijective, hence regular, models x option sets).  Every
model is square before simplification (checked).  After simplify():

* (#unknowns - #equations), with unknowns = states + algebraic states and equations = entries of the DAE
  residual, is what it was before: every removed equation went together with exactly one removed unknown;
* dae_residual_function, initial_residual_function and variable_metadata_function can be constructed and the
  DAE residual can be evaluated -- no remaining expression refers to an eliminated variable.

No option combination of the alphabet is refused by design, so simplify() raising on one of these regular
models -- or leaving something from which a function cannot be built -- is reported.
"""
from vf.checks import c14
from vf.checks import simp as S
from vf.core import common

LEVEL = "exploration"


INTERNAL = {"states_vector", "der_states_vector", "alg_states_vector", "inputs_vector"}


def _free_symbol_error(e):
    """Does the error say that a *model variable* is left dangling ("... since variables [a2] are free")?
    reduce_affine_expression applied a second time under iterative_simplification trips over its own
    internal vectors (states_vector, ...): a crash of simplify(), but not a reference to an eliminated
    variable, so it is 'simplify() raised' like any other refusal."""
    import re

    m = re.search(r"since variables \[([^\]]*)\] are free", str(e))
    if not m:
        return False
    names = {x.strip() for x in m.group(1).split(",")}
    return bool(names - INTERNAL)


def judge(job):
    key, on, eve = job
    spec = S.make_spec(key)
    text = spec.model().text()
    options = S.options_of(set(on), eve)
    case = {"spec": spec.key(), "on": list(on), "eve": eve, "text": text}
    res = {"outcome": "judged", "viol": [], "elim": 0}

    def viol(sig, msg):
        res["viol"].append((sig, "%s\noptions on: %s, eliminable_variable_expression=%r\n%s" % (msg, list(on), eve, text), case))

    model, err, warns = S.compile_simplified(text, options)
    if err is not None:
        phase = getattr(err, "_vf_phase", "simplify")
        if phase == "post":
            # simplify() returned; what it left behind cannot be turned into the residual function
            viol("dae-residual-unbuildable:" + type(err).__name__, "after simplify() the DAE residual / post checks fail: %s" % str(err)[:300])
        elif _free_symbol_error(err):
            viol("free-symbol-in-simplify:" + common.exc_sig(err), "simplify() fails on a dangling symbol: %r" % err)
        elif phase == "simplify":
            # No option combination of the alphabet is refused by design (expand_mx is switched on with
            # eliminable_variable_expression): simplify() failing on a regular model means the simplified functions
            # cannot be built.
            viol("simplify-raises:" + common.exc_sig(err) + (":eve" if eve else ""), "simplify() raises on a regular model: %s" % str(err)[:300])
        else:
            res["outcome"] = "exception:" + common.exc_sig(err)
        return res
    pre_unknowns, pre_eqs = model._vf_pre
    if pre_unknowns != pre_eqs:
        viol("harness:model-not-square", "generated model is not square before simplification (%d unknowns, %d equations)" % (pre_unknowns, pre_eqs))
        return res
    try:
        post_eqs = S.residual_len(model)
    except Exception as e:  # noqa: BLE001
        viol("dae-residual-unbuildable:" + ("free-symbol" if _free_symbol_error(e) else type(e).__name__), "dae_residual_function cannot be built: %s" % str(e)[:300])
        return res
    post_unknowns = S.scalar_count(model.states) + S.scalar_count(model.alg_states)
    res["elim"] = pre_unknowns - post_unknowns
    if post_unknowns - post_eqs != pre_unknowns - pre_eqs:
        kind = "equation-dropped-variable-kept" if post_unknowns > post_eqs else "variable-dropped-equation-kept"
        viol(kind, "before: %d unknowns, %d equations; after: %d unknowns %r, %d equations" % (pre_unknowns, pre_eqs, post_unknowns, [v.symbol.name() for v in model.states + model.alg_states], post_eqs))
    if len(model.der_states) != len(model.states):
        viol("der-states-mismatch", "%d states but %d derivative states" % (len(model.states), len(model.der_states)))
    for fname in ("initial_residual_function", "variable_metadata_function"):
        if not model._vf_pre_ok.get(fname, True):
            continue  # could not be built before simplification either (e.g. a constant defined by another constant)
        try:
            getattr(model, fname)
        except Exception as e:  # noqa: BLE001
            viol("%s-unbuildable:%s" % (fname, "free-symbol" if _free_symbol_error(e) else type(e).__name__), "%s cannot be built: %s" % (fname, str(e)[:300]))
    # the residual must be evaluable from the model's own variable lists alone
    try:
        vals, recorded = S.param_values(model)
        rec = S.eval_recorded(model, recorded, vals)
        allvals = dict(vals)
        allvals.update(rec)
        S.residual_at(model, {c: 0.5 for c in S.coords(model)}, allvals)
        S.residual_at(model, {c: 0.5 for c in S.coords(model)}, allvals, initial=True)
    except Exception as e:  # noqa: BLE001
        viol("residual-unevaluable:" + type(e).__name__, "the DAE residual cannot be evaluated from the model's variables: %s" % str(e)[:300])
    return res


def run(ctx):
    extra = S.dstate_jobs(ctx.tier)
    extra_i = S.aliaseve_jobs(ctx.tier)
    tail = (
        "(H, C15 only) a second state d defined algebraically (d = 3 * a1 | 3 * a1 + p | a1 | -a1; der(d) = 1 - a2 | u - a2; a1 = 2 * a2 | a2 | "
        "2 * a2 + u; der(s) = a2 + u): %d variants x all 24 orders of the equations x eliminable_variable_expression in %r x {expand_mx, "
        "+ detect_aliases, all switches on%s} = %d cases -- eliminating d differentiates its definition and promotes a1 to a state in the "
        "middle of the pass. (I, C15 only) eliminable_variable_expression meets recorded aliases: der(s) = a3 + u; an alias equation "
        "only detect_aliases recognises (2*a1 - 2*a2 = 0 | a1 - a2 = 0 | a1 + a2 = 0); a1 = 2 * a3; a3 + a2 = 3 | a2 = 3 - a3: all 24 orders x "
        "patterns a1, a2, a[12], a3, a.* x {expand_mx + detect_aliases, + iterative_simplification, all switches on} = %d cases. " % (len(S.DStateSpec.VARIANTS), S.DStateSpec.PATTERNS, ", all-on minus detect_aliases / iterative_simplification" if ctx.tier == "thorough" else "", len(extra), len(extra_i))
    )
    c14.run_with(ctx, judge, tail + "Non-trivial = simplify() ran and removed at least one unknown.", anchored=False, extra_jobs=extra + extra_i)
    ctx.assumptions.append("unknowns = states + algebraic states (scalars); equations = entries of dae_residual_function's output")
    ctx.assumptions.append("a non-'free variable' exception raised by simplify() itself (a refused option combination) is not judged")


def replay(case):
    r = judge((case["spec"], tuple(case["on"]), case["eve"]))
    print(case["text"])
    print(r["outcome"], [m.split("\n")[0] for _, m, _ in r["viol"]] or "ok")
    return not r["viol"]
