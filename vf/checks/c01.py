"""C01 -- the parse cache is transparent over any cache history.

E1 (BFS over event histories on a real cache folder, deviation-bounded) + E3 (every prefix of a
stored pickle).  Events act on one cache folder and one process; the clock and the pymoca version
are seams owned by the harness.  See DESIGN.md C01.
"""
import contextlib
import hashlib
import importlib
import io
import os
import pickle
import shutil
import sqlite3
from pathlib import Path

from vf.core import bfs, common, dump

LEVEL = "model_checking"

TEXTS = {
    "OK1": "model A\n  Real x(start = 1);\n  parameter Real k = 2;\nequation\n  der(x) = -k * x;\nend A;\n",
    "OK2": "model B\n  parameter Integer n = 3;\n  Real y[n];\n  A.C z;\nequation\n  for i in 1:n loop\n    y[i] = i;\n  end for;\nend B;\n",
    "BAD": "model A\n  Real x\nequation\n  x = ;\nend A;\n",
}
DAY_NS = 86400 * 10**9
VERSIONS = {"v1": "9.9.1", "v2": "9.9.2", "v1.dirty": "9.9.1.dirty"}
DB = "model_txt_cache.db"



def _gone_pickle(modname, clsname):
    """Pickle of an instance of modname.clsname, a class that exists only while this function runs."""
    import sys
    import types

    created = modname not in sys.modules
    mod = sys.modules.get(modname) or types.ModuleType(modname)
    cls = type(clsname, (), {"__module__": modname})
    setattr(mod, clsname, cls)
    sys.modules[modname] = mod
    try:
        return pickle.dumps(cls())
    finally:
        delattr(mod, clsname)
        if created:
            del sys.modules[modname]


# entry written by code that is gone: its module no longer imports / pymoca.ast no longer has the class
GONE_MODULE = _gone_pickle("vf_gone_mod", "Gone")
GONE_ATTR = None  # built on first use (needs pymoca.ast imported from the subject tree)

_CFG = {"tier": "quick"}
_FRESH = {}


class FakeTime:
    def __init__(self):
        self.now = 1_700_000_000 * 10**9

    def time_ns(self):
        self.now += 1000  # the clock always moves between two readings
        return self.now

    def time(self):
        return self.time_ns() / 1e9


def flag_sets(tier):
    fs = [(30, False), (30, True), (0, False)]
    if tier == "thorough":
        fs += [(0, True), (1, False)]
    return fs


def all_events(tier):
    evs = []
    for e, u in flag_sets(tier):
        for t in ("OK1", "OK2", "BAD"):
            evs.append(("P", t, e, u))
    evs += [("VER", v) for v in VERSIONS]
    evs += [("CLK", 2), ("CLK", 40)]
    evs += [("ENTRY", k) for k in ("empty", "half", "garbage", "gone-module", "gone-class", "other-version-differs")]
    evs += [("LAYOUT", k) for k in ("models-foreign", "metadata-foreign", "drop-models", "drop-metadata", "metadata-keys-deleted")]
    evs += [("FILE", k) for k in ("garbage", "half", "zero", "deleted")]
    evs.append(("RELOAD",))  # keep last: it replaces the parse function object
    return evs


def is_deviation(ev):
    return ev[0] in ("VER", "CLK", "ENTRY", "LAYOUT", "FILE")


def fresh_dump(t):
    if t not in _FRESH:
        from pymoca import parser

        tree = parser.parse(TEXTS[t], bypass_cache=True)
        _FRESH[t] = None if tree is None else dump.dump(tree)
    return _FRESH[t]


def txt_hash(t):
    return hashlib.sha256(TEXTS[t].encode("utf-8")).hexdigest()


class World:
    """One cache folder + the process-level state around it."""

    def __init__(self):
        import pymoca
        from pymoca import parser

        self.parser = parser
        self.pymoca = pymoca
        self.clock = FakeTime()
        parser.time = self.clock
        self.version = "v1"
        pymoca.__version__ = VERSIONS["v1"]
        self.folder = Path(common.new_scratch("c01"))
        self.initialised = False
        self.viol = []

    @property
    def dbpath(self):
        return str(self.folder / DB)

    # -- snapshots -------------------------------------------------------------
    def snapshot(self):
        files = {}
        for f in os.listdir(self.folder):
            with open(self.folder / f, "rb") as fh:
                files[f] = fh.read()
        return {"files": files, "clock": self.clock.now, "version": self.version, "initialised": self.initialised}

    def restore(self, snap):
        """Bring the world back to `snap`.  An initialised state must stay in this folder (the path is what the
        process remembers); an uninitialised one is restored into a path the process has never seen."""
        if not snap["initialised"]:
            self.folder = Path(common.new_scratch("c01"))
        for f in os.listdir(self.folder):
            os.remove(self.folder / f)
        for f, b in snap["files"].items():
            with open(self.folder / f, "wb") as fh:
                fh.write(b)
        self.clock.now = snap["clock"]
        self.version = snap["version"]
        self.pymoca.__version__ = VERSIONS[self.version]
        self.initialised = snap["initialised"]
        self.parser.time = self.clock

    # -- events ----------------------------------------------------------------
    def db_ok(self):
        """A harness-side look at the file: (is valid sqlite, has models rows)."""
        if not os.path.exists(self.dbpath):
            return False, 0
        try:
            c = sqlite3.connect("file:%s?mode=ro" % self.dbpath, uri=True)
            try:
                n = c.execute("SELECT count(*) FROM models").fetchone()[0]
            except sqlite3.Error:
                n = 0
            c.execute("SELECT count(*) FROM sqlite_master").fetchone()
            c.close()
            return True, n
        except sqlite3.Error:
            return False, 0

    def enabled(self, ev):
        k = ev[0]
        if k == "VER":
            return ev[1] != self.version
        if k == "ENTRY":
            rows = self.rows()
            if ev[1] == "other-version-differs":
                # entries written by another pymoca version may hold a different (valid) tree for the same text
                return bool(rows) and any(r[1] != VERSIONS[self.version] for r in rows)
            return bool(rows)
        if k == "LAYOUT":
            return self.db_ok()[0]
        if k == "FILE":
            return os.path.exists(self.dbpath) and (ev[1] == "deleted" or os.path.getsize(self.dbpath) > 0)
        return True

    def apply(self, ev):
        k = ev[0]
        self.viol = []
        if k == "P":
            self.do_parse(ev[1], ev[2], ev[3])
        elif k == "RELOAD":
            importlib.reload(self.parser)
            self.parser.time = self.clock
            self.initialised = False
        elif k == "VER":
            self.version = ev[1]
            self.pymoca.__version__ = VERSIONS[ev[1]]
        elif k == "CLK":
            self.clock.now += ev[1] * DAY_NS
        elif k == "ENTRY":
            self.entry_fault(ev[1], ev[2] if len(ev) > 2 else None)
        elif k == "LAYOUT":
            self.layout_fault(ev[1])
        elif k == "FILE":
            self.file_fault(ev[1])
        else:
            raise ValueError(ev)
        self.invariant()
        return self.viol

    def do_parse(self, t, e, u):
        dirty = VERSIONS[self.version].endswith(".dirty")
        before = self.snapshot()["files"] if dirty else None
        try:
            with contextlib.redirect_stderr(io.StringIO()):  # ANTLR prints syntax errors of the BAD text
                tree = self.parser.parse(TEXTS[t], model_cache_folder=self.folder, cache_expiration_days=e, always_update_last_hit=u)
        except Exception as ex:
            self.viol.append(("parse-raises:" + common.exc_sig(ex), "parse(%s, expiration=%r, update=%r) raised %r" % (t, e, u, ex)))
            if not dirty:
                self.initialised = self._path_remembered()
            return
        exp = fresh_dump(t)
        if exp is None:
            if tree is not None:
                self.viol.append(("tree-for-syntax-error", "parse(%s) returned a tree for a text with a syntax error" % t))
        elif tree is None:
            self.viol.append(("no-tree-for-valid-text", "parse(%s) returned None for a valid text" % t))
        else:
            try:
                got = dump.dump(tree)
            except Exception as ex:
                got = ("undumpable", repr(ex))
            if got != exp:
                self.viol.append(("tree-differs-from-uncached", "parse(%s) differs from the uncached parse: %s" % (t, dump.first_diff(got, exp))))
        if dirty:
            if self.snapshot()["files"] != before:
                self.viol.append(("dirty-version-touches-cache", "a .dirty version changed the cache folder"))
        else:
            self.initialised = True

    def _path_remembered(self):
        s = getattr(self.parser.parse, "initialized_dbs", None)
        return bool(s) and (self.folder / DB) in s

    def entry_fault(self, kind, n=None):
        c = sqlite3.connect(self.dbpath)
        if kind == "other-version-differs":
            from pymoca import parser

            other = pickle.dumps(parser.parse("model Z\n  Real q;\nend Z;\n", bypass_cache=True))
            c.execute("UPDATE models SET data=? WHERE pymoca_version<>?", (other, VERSIONS[self.version]))
            c.commit()
            c.close()
            return
        rows = c.execute("SELECT rowid, data FROM models").fetchall()
        for rid, data in rows:
            data = bytes(data) if data is not None else b""
            if kind == "empty":
                new = b""
            elif kind == "half":
                new = data[: len(data) // 2]
            elif kind == "prefix":
                new = data[:n]
            elif kind == "garbage":
                new = b"this is not a pickle"
            elif kind == "gone-module":
                new = GONE_MODULE
            elif kind == "gone-class":
                global GONE_ATTR
                if GONE_ATTR is None:
                    GONE_ATTR = _gone_pickle("pymoca.ast", "NoSuchClassAnyMore")
                new = GONE_ATTR
            else:
                raise ValueError(kind)
            c.execute("UPDATE models SET data=? WHERE rowid=?", (new, rid))
        c.commit()
        c.close()

    def layout_fault(self, kind):
        c = sqlite3.connect(self.dbpath)
        if kind == "models-foreign":
            c.execute("DROP TABLE IF EXISTS models")
            c.execute("CREATE TABLE models (foo TEXT, bar INTEGER)")
            c.execute("INSERT INTO models VALUES ('x', 1)")
        elif kind == "metadata-foreign":
            c.execute("DROP TABLE IF EXISTS metadata")
            c.execute("CREATE TABLE metadata (k TEXT, v TEXT, extra TEXT)")
        elif kind == "drop-models":
            c.execute("DROP TABLE IF EXISTS models")
        elif kind == "drop-metadata":
            c.execute("DROP TABLE IF EXISTS metadata")
        elif kind == "metadata-keys-deleted":
            try:
                c.execute("DELETE FROM metadata")
            except sqlite3.Error:
                pass
        c.commit()
        c.close()

    def file_fault(self, kind):
        p = self.dbpath
        if kind == "deleted":
            os.remove(p)
        elif kind == "zero":
            open(p, "wb").close()
        elif kind == "garbage":
            with open(p, "wb") as f:
                f.write(b"This is no SQLite database, just text.\n" * 40)
        elif kind == "half":
            with open(p, "rb") as f:
                b = f.read()
            with open(p, "wb") as f:
                f.write(b[: len(b) // 2])

    # -- invariants and abstraction --------------------------------------------
    def rows(self):
        if not os.path.exists(self.dbpath):
            return None
        try:
            c = sqlite3.connect("file:%s?mode=ro" % self.dbpath, uri=True)
            cols = [r[1] for r in c.execute("PRAGMA table_info('models')").fetchall()]
            if cols != ["txt_hash", "pymoca_version", "data", "last_hit"]:
                c.close()
                return None
            rows = c.execute("SELECT txt_hash, pymoca_version, data, last_hit FROM models").fetchall()
            c.close()
            return rows
        except sqlite3.Error:
            return None

    def invariant(self):
        rows = self.rows()
        if not rows:
            return
        bad = txt_hash("BAD")
        for h, v, data, _ in rows:
            if h == bad:
                self.viol.append(("failed-parse-stored", "a row keyed by the hash of the syntactically broken text exists (version %s)" % v))
            try:
                if data is not None and pickle.loads(bytes(data)) is None:
                    self.viol.append(("none-stored", "a cached entry unpickles to None"))
            except Exception:
                pass

    def key(self):
        p = self.dbpath
        base = (self.version, self.initialised)
        if not os.path.exists(p):
            return base + ("absent",)
        with open(p, "rb") as f:
            raw = f.read()
        try:
            c = sqlite3.connect("file:%s?mode=ro" % p, uri=True)
            tabs = sorted(r[0] for r in c.execute("SELECT name FROM sqlite_master WHERE type='table'").fetchall())
            lay = tuple((t, tuple(tuple(r) for r in c.execute("PRAGMA table_info('%s')" % t).fetchall())) for t in tabs)
            meta = ()
            if "metadata" in tabs:
                try:
                    meta = tuple(sorted(r[0] for r in c.execute("SELECT key FROM metadata").fetchall()))
                except sqlite3.Error:
                    meta = ("?",)
            rows = ()
            if "models" in tabs:
                try:
                    rs = c.execute("SELECT * FROM models").fetchall()
                    rows = tuple(sorted(self._row_key(r) for r in rs))
                except sqlite3.Error:
                    rows = ("?",)
            ok = c.execute("PRAGMA integrity_check").fetchone()
            c.close()
            return base + ("sqlite", lay, meta, rows, ok)
        except sqlite3.Error:
            return base + ("unreadable", hashlib.sha1(raw).hexdigest()[:10])

    def _row_key(self, r):
        if len(r) != 4:
            return ("foreign", len(r))
        h, v, data, last_hit = r
        age = self.clock.now // 1000 - (last_hit or 0)
        day = 86400 * 10**6
        bucket = 0 if age < day else (1 if age <= 30 * day else 2)
        return (str(h)[:8], str(v), hashlib.sha1(bytes(data or b"")).hexdigest()[:8], bucket)


def _init(tier):
    _CFG["tier"] = tier
    _CFG["events"] = all_events(tier)


_W = None


def world():
    global _W
    if _W is None:
        _W = World()
    return _W


def build(hist):
    """Replay a history from a fresh, never-seen folder and a reloaded module (a new process, in effect)."""
    w = world()
    importlib.reload(w.parser)
    w.clock = FakeTime()
    w.parser.time = w.clock
    w.folder = Path(common.new_scratch("c01"))
    w.version = "v1"
    w.pymoca.__version__ = VERSIONS["v1"]
    w.initialised = False
    for ev in hist:
        w.apply(tuple(ev))
    return w


def expand(hist):
    out = []
    w = build(hist)
    base = w.snapshot()
    folder0 = w.folder
    for ev in _CFG["events"]:
        w.folder = folder0
        w.restore(base)
        if not w.enabled(ev):
            continue
        try:
            viol = list(w.apply(ev))
            key = w.key()
        except Exception as ex:  # harness trouble, not a verdict about pymoca
            raise RuntimeError("harness failure on %r after %r: %r" % (ev, hist, ex)) from ex
        out.append({"ev": list(ev), "key": key, "viol": viol, "dev": 1 if is_deviation(ev) else 0, "stop": bool(viol)})
    for f in os.listdir(common.scratch_root()):  # scratch_root() is private to this worker
        if f.startswith("c01_"):
            shutil.rmtree(os.path.join(common.scratch_root(), f), ignore_errors=True)
    w.folder = Path(common.new_scratch("c01"))
    return out


# ---- E3: every prefix of the stored pickle ------------------------------------


def prefix_job(args):
    t, n, reload_first = args
    hist = [("P", t, 30, False), ("ENTRY", "prefix", n)]
    if reload_first:
        hist.append(("RELOAD",))
    hist.append(("P", t, 30, False))
    hist.append(("P", t, 30, False))
    w = build(hist[:-2])
    v = []
    v += w.apply(hist[-2])
    v += w.apply(hist[-1])
    shutil.rmtree(w.folder, ignore_errors=True)
    return [list(h) for h in hist], v


def pickle_len(t):
    from pymoca import parser

    return len(pickle.dumps(parser.parse(TEXTS[t], bypass_cache=True)))


def run(ctx):
    _init(ctx.tier)
    depth, devs = (4, 2) if ctx.tier == "quick" else (6, 3)
    with common.Pool(init=_init, initargs=(ctx.tier,)) as pool:
        w0 = build(())
        st = bfs.search(ctx, pool, expand, init_key=w0.key(), max_depth=depth, max_dev=devs)
        jobs = []
        for t in ("OK1", "OK2"):
            n = pickle_len(t)
            step = 1 if ctx.tier == "thorough" else 16
            offs = sorted(set(range(0, n, step)) | set(range(0, min(n, 48))) | {n - 1, n - 2})
            for o in offs:
                for r in (False, True):
                    jobs.append((t, o, r))
        res = pool.map(prefix_job, jobs)
    classes = set()
    for hist, v in res:
        for sig, msg in v:
            ctx.violation(sig, "after truncating the stored pickle: " + msg, {"history": hist})
            classes.add(sig)
    ctx.sample({"history": res[len(res) // 2][0]})
    ctx.coverage.update(st)
    ctx.coverage.update(
        {
            "traces_validated_against_impl": st["transitions"] + len(jobs),
            "evaluations": st["transitions"] + len(jobs),
            "distinct_nontrivial": max(0, st["states"] - 1),
            "pickle_prefixes": len(jobs),
            "exhaustive": True,
            "bound": {"history_length": depth, "deviations": devs},
            "rule": "all histories of length <= %d with <= %d deviations (version change, clock jump, entry / layout / file "
            "fault) over %d events: parse(text in OK1/OK2/BAD, expiration, always_update), module reload, versions "
            "v1/v2/v1.dirty, clock +2d/+40d, stored pickle emptied/halved/garbage/class-gone, tables re-laid-out or dropped, "
            "metadata keys deleted, file garbage/truncated/zero/deleted; state = abstraction of the database (layouts, "
            "metadata keys, rows with data hash and age bucket), process-initialised flag, version; every parse is compared "
            "structurally with the uncached parse.  Plus %d prefix lengths of the stored pickle (E3), each with and without "
            "a module reload." % (depth, devs, len(_CFG["events"]), len(jobs)),
        }
    )
    ctx.assumptions += [
        "one process, one folder (sharing is C02); pickles that load to a foreign *object* are outside the alphabet",
        "clock and pymoca.__version__ are seams set by the harness (as the repository's own cache tests do)",
    ]


def replay(case):
    _init("thorough")
    w = build(())
    ok = True
    for ev in case["history"]:
        v = w.apply(tuple(ev))
        print(ev, "->", [m for _, m in v] or "ok")
        ok = ok and not v
    return ok
