"""C01 -- the parse cache is transparent over any cache history.

E1 (BFS over event histories on a real cache folder, deviation-bounded) + E3 (every prefix and every
single-byte damage of a stored pickle).  Events act on one cache folder and one process; the clock and the
pymoca version are seams owned by the harness.  See DESIGN.md C01.

Three things the statement covers beyond "three unrelated texts, results only looked at, hand-made bad entries":
* "entries that no longer unpickle": which entries those are is decided by the pickle module, not by a list of
  exception types.  E3 damages the stored pickle one byte at a time (replace / delete / insert at every offset) and
  stores values of another storage class in the data column, asks plain pickle.loads() -- outside pymoca -- what it
  does with each, and judges parse() on every outcome "raises <any type>"; one entry per exception type that the
  hand-made faults do not raise joins the BFS alphabet so that it combines with all other events.
* "for any text": the alphabet holds a family of *near-duplicate* texts -- a base text OK3 and its image under
  each member of a stated family of text normalisations (line endings, trailing blanks, blank runs, tabs,
  letter case, accents, Unicode composition).  Every member is a different text with a different tree, so a
  cache key that identifies two of them serves one the tree of the other.  Each is compared with ITS OWN
  uncached parse.
* "returns a tree structurally identical to an uncached parse": the caller owns what parse() returned.  As
  real callers do (tools/compiler.py: Tree.extend), the harness edits every returned tree in place after it
  has been compared -- every mutable container and every pymoca object reachable from it -- and keeps it
  alive.  A later result that shares any mutable object with an earlier one therefore differs from the
  uncached parse.  The number of results handed out per text in this process is part of the abstract state.
"""
import contextlib
import hashlib
import importlib
import io
import os
import pickle
import shutil
import re
import sqlite3
import unicodedata
from pathlib import Path

from vf.core import bfs, common, dump

LEVEL = "model_checking"

TEXTS = {
    "OK1": "model A\n  Real x(start = 1);\n  parameter Real k = 2;\nequation\n  der(x) = -k * x;\nend A;\n",
    "OK2": "model B\n  parameter Integer n = 3;\n  Real y[n];\n  A.C z;\nequation\n  for i in 1:n loop\n    y[i] = i;\n  end for;\nend B;\n",
    "BAD": "model A\n  Real x\nequation\n  x = ;\nend A;\n",
}

# ---- near-duplicate family ------------------------------------------------------
# OK3 carries, inside a string literal (so that it is part of the tree), one feature per normalisation: a line
# break, a blank before the line break, a run of two blanks, a tab (at a column where expandtabs() and
# "tab -> blank" agree), upper-case letters, a composed accented letter; plus a description string with a line
# break.  A variant is the image of OK3 under ONE transformation; a key function that applies the matching
# normalisation (or a coarser one) maps OK3 and the variant -- and often two variants -- to one key.
OK3 = (
    "model Tank\n"
    '  parameter String unit = "level \n'
    'in  Met\tres caf\u00e9";\n'
    '  Real h "water level\n'
    'above the outlet";\n'
    "equation\n"
    "  der(h) = -h;\n"
    "end Tank;\n"
)
NEAR = {
    "crlf": lambda t: t.replace("\n", "\r\n"),  # universal newlines, CRLF -> LF, splitlines()
    "rstrip": lambda t: "\n".join(ln.rstrip() for ln in t.split("\n")),  # trailing blanks of a line
    "ws": lambda t: re.sub(r"[ \t]+", " ", t),  # runs of blanks (also: " ".join(t.split()))
    "tab": lambda t: t.expandtabs(),  # == t.replace("\t", " ") by construction of OK3
    "lower": lambda t: t.lower(),  # lower() / casefold()
    "accent": lambda t: t.replace("\u00e9", "\u00e8"),  # encode(errors="ignore"/"replace"), accent stripping
    "nfd": lambda t: unicodedata.normalize("NFD", t),  # NFC / NFD / NFKC / NFKD
}
assert OK3.expandtabs() == OK3.replace("\t", " ")
TEXTS["OK3"] = OK3
for _k, _f in NEAR.items():
    TEXTS["OK3~" + _k] = _f(OK3)
assert len(set(TEXTS.values())) == len(TEXTS)
FAMILY = ["OK3"] + ["OK3~" + k for k in NEAR]
SCRIBBLE = "\x00vf-edited-by-caller"


def plans(tier):
    """The searches of a tier.  quick: one search over everything.  thorough: a *wide* search (everything, one more
    deviation than quick, so that a colliding pair of near-duplicates fits together with a fault, and a fourth result
    of one text is distinguished) and a *deep* search (the three unrelated texts only, histories of length 6).
    flags = which parse-flag sets; family = near-duplicate texts in the alphabet; cap = results handed out per text
    that the abstract state distinguishes (0..cap)."""
    if tier == "quick":
        return [{"name": "all", "flags": "quick", "family": True, "cap": 2, "depth": 4, "devs": 2}]
    return [
        {"name": "wide", "flags": "thorough", "family": True, "cap": 3, "depth": 4, "devs": 3},
        {"name": "deep", "flags": "thorough", "family": False, "cap": 2, "depth": 6, "devs": 3},
    ]

DAY_NS = 86400 * 10**9
VERSIONS = {"v1": "9.9.1", "v2": "9.9.2", "v1.dirty": "9.9.1.dirty"}
DB = "model_txt_cache.db"



def _gone_pickle(modname, clsname):
    """Pickle of an instance of modname.clsname, a class that exists only while this function runs."""
    import sys
    import types

    created = modname not in sys.modules
    mod = sys.modules.get(modname) or types.ModuleType(modname)
    cls = type(clsname, (), {"__module__": modname})
    setattr(mod, clsname, cls)
    sys.modules[modname] = mod
    try:
        return pickle.dumps(cls())
    finally:
        delattr(mod, clsname)
        if created:
            del sys.modules[modname]


# entry written by code that is gone: its module no longer imports / pymoca.ast no longer has the class
GONE_MODULE = _gone_pickle("vf_gone_mod", "Gone")
GONE_ATTR = None  # built on first use (needs pymoca.ast imported from the subject tree)

_CFG = {"tier": "quick", "cap": 2}
_OTHER = {}  # the valid-but-different tree that ENTRY other-version-differs stores (one pickle per process)
_FRESH = {}

# ---- damaged entries: what plain pickle does with them ------------------------------
# "Entries that no longer unpickle" is defined by the pickle module, not by a list of exception types: an entry
# is in the alphabet iff plain pickle.loads(), called by the harness outside pymoca, RAISES on it (any exception
# type).  The harness classifies every candidate itself and judges parse() only on those (and on entries that
# still load to an equal tree); an entry that loads to a different object under the current version is counted
# and left alone (outside the alphabet, see the registry text).
#
# One damaged length byte can turn the next four bytes into a memo index (LONG_BINPUT) of 10^9 and make the
# unpickler allocate tens of GB.  Every pickle.loads() of the harness and every parse() therefore runs under an
# address-space limit of the current size + HEADROOM; such an entry then "raises MemoryError" at once -- in plain
# pickle and inside parse() alike -- instead of taking the machine down.
HEADROOM = 512 << 20
COLUMN = {"null": None, "integer": 7, "text": "no blob"}  # data column of another storage class than BLOB
_PAGE = os.sysconf("SC_PAGE_SIZE")


@contextlib.contextmanager
def mem_limit():
    import resource

    soft, hard = resource.getrlimit(resource.RLIMIT_AS)
    with open("/proc/self/statm") as f:
        lim = int(f.read().split()[0]) * _PAGE + HEADROOM
    for cap in (soft, hard):
        if cap != resource.RLIM_INFINITY:
            lim = min(lim, cap)
    resource.setrlimit(resource.RLIMIT_AS, (lim, hard))
    try:
        yield
    finally:
        resource.setrlimit(resource.RLIMIT_AS, (soft, hard))


def classify(blob, ref):
    """What plain pickle does with `blob` (the value of a data column): ("equal",) -- loads to a tree whose dump is
    `ref`; ("different",) -- loads to anything else; ("raises", exception type name)."""
    try:
        # stderr: CPython prints "deallocated bytearray object has exported buffers" for some damaged pickles
        with contextlib.redirect_stderr(io.StringIO()), mem_limit():
            obj = pickle.loads(blob)
    except Exception as ex:
        return ("raises", type(ex).__name__)
    try:
        return ("equal",) if obj is not None and dump.dump(obj) == ref else ("different",)
    except Exception:
        return ("different",)


def damages(data, lo, hi, tier):
    """Single-byte damage of `data` at offsets lo..hi-1, in canonical order.  Replacement in place by 0x00, 0xff,
    original xor 1, original + 1 (thorough: by each of the 255 other values); thorough also: the byte deleted, and
    0x00 / 0xff / a copy of the byte inserted in front of it (offset len(data): appended)."""
    for off in range(lo, min(hi, len(data))):
        o = data[off]
        vals = range(256) if tier == "thorough" else (0x00, 0xFF, o ^ 1, (o + 1) & 255)
        seen = {o}
        for v in vals:
            if v not in seen:
                seen.add(v)
                yield ("byte", off, v)
    if tier == "thorough":
        for off in range(lo, min(hi, len(data))):
            yield ("del", off)
        for off in range(lo, min(hi, len(data) + 1)):
            seen = set()
            for v in (0x00, 0xFF, data[off] if off < len(data) else data[-1]):
                if v not in seen:
                    seen.add(v)
                    yield ("ins", off, v)


def damage(data, d):
    """The data column after damage d; a damage that does not fit (offset beyond the end) leaves it as it is."""
    if d[0] == "column":
        return COLUMN[d[1]]
    if not isinstance(data, bytes):
        return data
    off = d[1]
    if d[0] == "byte":
        return data[:off] + bytes([d[2]]) + data[off + 1 :] if off < len(data) else data
    if d[0] == "del":
        return data[:off] + data[off + 1 :]
    if d[0] == "ins":
        return data[:off] + bytes([d[2]]) + data[off:] if off <= len(data) else data
    raise ValueError(d)


def fresh_pickle(t):
    from pymoca import parser

    return pickle.dumps(parser.parse(TEXTS[t], bypass_cache=True))


_REPR = {}  # exception type -> (damage, blob): entry faults of the BFS alphabet found by classification
_HAVE = []  # exception types that the hand-made entry faults raise


def representatives():
    """One damaged entry per exception type that single-byte damage (quick replacement set) of OK1's stored pickle
    makes plain pickle raise and that none of the hand-made entry faults raises: the first one in canonical order.
    Deterministic (a function of the pickle of OK1's tree), computed once per process."""
    if not _REPR:
        global GONE_ATTR
        if GONE_ATTR is None:
            GONE_ATTR = _gone_pickle("pymoca.ast", "NoSuchClassAnyMore")
        data = fresh_pickle("OK1")
        ref = fresh_dump("OK1")
        have = {classify(b, ref) for b in (b"", data[: len(data) // 2], b"this is not a pickle", GONE_MODULE, GONE_ATTR)}
        if any(c[0] != "raises" for c in have):
            raise RuntimeError("harness: a hand-made entry fault unpickles: %r" % sorted(have))
        found = {}
        for d in damages(data, 0, len(data), "quick"):
            blob = damage(data, d)
            c = classify(blob, ref)
            if c[0] == "raises" and c not in have and c[1] not in found:
                found[c[1]] = (d, blob)
        _HAVE[:] = sorted(c[1] for c in have)
        _REPR.update(found)
    return _REPR


class FakeTime:
    def __init__(self):
        self.now = 1_700_000_000 * 10**9

    def time_ns(self):
        self.now += 1000  # the clock always moves between two readings
        return self.now

    def time(self):
        return self.time_ns() / 1e9


def flag_sets(tier):
    fs = [(30, False), (30, True), (0, False)]
    if tier == "thorough":
        fs += [(0, True), (1, False)]
    return fs


def all_events(tier, family=True):
    evs = []
    for e, u in flag_sets(tier):
        for t in ("OK1", "OK2", "BAD"):
            evs.append(("P", t, e, u))
    # the near-duplicates differ from each other only in what the key is computed from, which the flags do not
    # touch: default flags only
    for t in FAMILY if family else ():
        evs.append(("P", t, 30, False))
    evs += [("VER", v) for v in VERSIONS]
    evs += [("CLK", 2), ("CLK", 40)]
    evs += [("ENTRY", k) for k in ("empty", "half", "garbage", "gone-module", "gone-class", "other-version-differs")]
    # entries on which pickle raises an exception type that none of the hand-made faults above raises (found by
    # classifying single-byte damage, see representatives()), and a data column that holds no BLOB at all
    evs += [("ENTRY", "raises", x) for x in sorted(representatives())]
    evs.append(("ENTRY", "column", "null"))
    evs += [("LAYOUT", k) for k in ("models-foreign", "metadata-foreign", "drop-models", "drop-metadata", "metadata-keys-deleted", "models-retyped", "metadata-retyped")]
    evs += [("FILE", k) for k in ("garbage", "half", "zero", "deleted")]
    evs.append(("RELOAD",))  # keep last: it replaces the parse function object
    return evs


_FAMILY = frozenset(FAMILY)


def is_deviation(ev):
    """Faults, version changes and clock jumps -- and a parse of a near-duplicate text: two of them (a colliding
    pair) fit the quick budget together with free events, a pair plus a fault the thorough one."""
    return ev[0] in ("VER", "CLK", "ENTRY", "LAYOUT", "FILE") or (ev[0] == "P" and ev[1] in _FAMILY)


def scribble(tree):
    """Edit in place every mutable container and every pymoca object reachable from `tree` (what a caller that
    owns the tree may do; Tree.extend is one instance).  Each edit changes the object's structural dump, so an
    object that was edited and turns up inside a later result makes that result differ from a pristine parse.
    Classes, functions, modules, enum members and objects of other libraries are not the caller's to edit."""
    import enum
    import types

    seen = set()
    stack = [tree]
    n = 0
    while stack:
        x = stack.pop()
        if x is None or isinstance(x, (bool, int, float, str, bytes, enum.Enum, type, types.ModuleType, types.FunctionType, types.MethodType)):
            continue
        if id(x) in seen:
            continue
        seen.add(id(x))
        if isinstance(x, dict):
            stack.extend(x.values())
            x[SCRIBBLE] = SCRIBBLE
            n += 1
        elif isinstance(x, list):
            stack.extend(x)
            x.append(SCRIBBLE)
            n += 1
        elif isinstance(x, set):
            stack.extend(x)
            x.add(SCRIBBLE)
            n += 1
        elif isinstance(x, (tuple, frozenset)):
            stack.extend(x)
        elif type(x).__module__.split(".")[0] == "pymoca" and isinstance(getattr(x, "__dict__", None), dict):
            stack.extend(x.__dict__.values())
            x.__dict__[SCRIBBLE] = SCRIBBLE
            n += 1
    return n


def fresh_dump(t):
    """Dump of the uncached parse of text t -- the reference.  Also establishes, once per text and process, that
    the caller-side edit is visible in a dump and that it cannot reach a later *uncached* parse (so that a
    difference seen after a cached parse is the cache's doing)."""
    if t not in _FRESH:
        from pymoca import parser

        with contextlib.redirect_stderr(io.StringIO()):
            tree = parser.parse(TEXTS[t], bypass_cache=True)
        if tree is None:
            _FRESH[t] = None
        else:
            d = dump.dump(tree)
            if not scribble(tree) or dump.dump(tree) == d:
                raise RuntimeError("harness: the in-place edit of a tree is not visible in its dump")
            if dump.dump(parser.parse(TEXTS[t], bypass_cache=True)) != d:
                raise RuntimeError("harness: editing one uncached parse of %s changes the next uncached parse" % t)
            _FRESH[t] = d
    return _FRESH[t]


def txt_hash(t):
    return hashlib.sha256(TEXTS[t].encode("utf-8")).hexdigest()


class World:
    """One cache folder + the process-level state around it."""

    def __init__(self):
        import pymoca
        from pymoca import parser

        self.parser = parser
        self.pymoca = pymoca
        self.clock = FakeTime()
        parser.time = self.clock
        self.version = "v1"
        pymoca.__version__ = VERSIONS["v1"]
        self.folder = Path(common.new_scratch("c01"))
        self.initialised = False
        self.handed = {}  # text -> number of trees parse() has handed to the caller in this process
        self.kept = []  # the caller keeps (and has edited) every tree it was given
        self.viol = []

    @property
    def dbpath(self):
        return str(self.folder / DB)

    # -- snapshots -------------------------------------------------------------
    def snapshot(self):
        files = {}
        for f in os.listdir(self.folder):
            with open(self.folder / f, "rb") as fh:
                files[f] = fh.read()
        return {"files": files, "clock": self.clock.now, "version": self.version, "initialised": self.initialised, "handed": dict(self.handed)}

    def restore(self, snap):
        """Bring the world back to `snap`.  An initialised state must stay in this folder (the path is what the
        process remembers); an uninitialised one is restored into a path the process has never seen."""
        if not snap["initialised"]:
            self.folder = Path(common.new_scratch("c01"))
        for f in os.listdir(self.folder):
            os.remove(self.folder / f)
        for f, b in snap["files"].items():
            with open(self.folder / f, "wb") as fh:
                fh.write(b)
        self.clock.now = snap["clock"]
        self.version = snap["version"]
        self.pymoca.__version__ = VERSIONS[self.version]
        self.initialised = snap["initialised"]
        self.handed = dict(snap["handed"])
        self.parser.time = self.clock

    # -- events ----------------------------------------------------------------
    def db_ok(self):
        """A harness-side look at the file: (is valid sqlite, has models rows)."""
        if not os.path.exists(self.dbpath):
            return False, 0
        try:
            c = sqlite3.connect("file:%s?mode=ro" % self.dbpath, uri=True)
            try:
                n = c.execute("SELECT count(*) FROM models").fetchone()[0]
            except sqlite3.Error:
                n = 0
            c.execute("SELECT count(*) FROM sqlite_master").fetchone()
            c.close()
            return True, n
        except sqlite3.Error:
            return False, 0

    def enabled(self, ev):
        k = ev[0]
        if k == "VER":
            if ev[1] == self.version:
                return False
            # an entry "written by another version with a different tree" (ENTRY other-version-differs) is a
            # legitimate cache content only while that version is not the running one
            tgt = VERSIONS[ev[1]]
            return not any(r[1] == tgt and r[2] == _OTHER.get("data") for r in (self.rows() or ()))
        if k == "ENTRY":
            rows = self.rows()
            if ev[1] == "other-version-differs":
                # entries written by another pymoca version may hold a different (valid) tree for the same text
                return bool(rows) and any(r[1] != VERSIONS[self.version] for r in rows)
            return bool(rows)
        if k == "LAYOUT":
            return self.db_ok()[0]
        if k == "FILE":
            return os.path.exists(self.dbpath) and (ev[1] == "deleted" or os.path.getsize(self.dbpath) > 0)
        return True

    def apply(self, ev):
        k = ev[0]
        self.viol = []
        if k == "P":
            self.do_parse(ev[1], ev[2], ev[3])
        elif k == "RELOAD":
            importlib.reload(self.parser)
            self.parser.time = self.clock
            self.initialised = False
            self.handed = {}  # a new process has handed out nothing
        elif k == "VER":
            self.version = ev[1]
            self.pymoca.__version__ = VERSIONS[ev[1]]
        elif k == "CLK":
            self.clock.now += ev[1] * DAY_NS
        elif k == "ENTRY":
            self.entry_fault(*ev[1:])
        elif k == "LAYOUT":
            self.layout_fault(ev[1])
        elif k == "FILE":
            self.file_fault(ev[1])
        else:
            raise ValueError(ev)
        self.invariant()
        return self.viol

    def do_parse(self, t, e, u):
        dirty = VERSIONS[self.version].endswith(".dirty")
        before = self.snapshot()["files"] if dirty else None
        try:
            # ANTLR prints syntax errors of the BAD text; the address-space limit: see mem_limit()
            with contextlib.redirect_stderr(io.StringIO()), mem_limit():
                tree = self.parser.parse(TEXTS[t], model_cache_folder=self.folder, cache_expiration_days=e, always_update_last_hit=u)
        except Exception as ex:
            self.viol.append(("parse-raises:" + common.exc_sig(ex), "parse(%s, expiration=%r, update=%r) raised %r" % (t, e, u, ex)))
            if not dirty:
                self.initialised = self._path_remembered()
            return
        exp = fresh_dump(t)
        if tree is not None:
            self.handed[t] = self.handed.get(t, 0) + 1
        if exp is None:
            if tree is not None:
                self.viol.append(("tree-for-syntax-error", "parse(%s) returned a tree for a text with a syntax error" % t))
        elif tree is None:
            self.viol.append(("no-tree-for-valid-text", "parse(%s) returned None for a valid text" % t))
        else:
            try:
                got = dump.dump(tree)
            except Exception as ex:
                got = ("undumpable", repr(ex))
            if got != exp:
                if any("vf-edited-by-caller" in repr(x) for x in got):
                    self.viol.append(("tree-shared-with-earlier-result", "parse(%s) returned a tree that shares an object with a tree returned earlier "
                                      "(the caller's in-place edit of the earlier result shows in it): %s" % (t, dump.first_diff(got, exp))))
                else:
                    self.viol.append(("tree-differs-from-uncached", "parse(%s) differs from the uncached parse: %s" % (t, dump.first_diff(got, exp))))
        if tree is not None:
            # the tree is the caller's now: it edits it in place and keeps it
            try:
                scribble(tree)
            except Exception:
                pass  # a malformed result has been reported above
            self.kept.append(tree)
        if dirty:
            if self.snapshot()["files"] != before:
                self.viol.append(("dirty-version-touches-cache", "a .dirty version changed the cache folder"))
        else:
            self.initialised = True

    def _path_remembered(self):
        s = getattr(self.parser.parse, "initialized_dbs", None)
        return bool(s) and (self.folder / DB) in s

    def entry_fault(self, kind, *a):
        n = a[0] if a else None
        c = sqlite3.connect(self.dbpath)
        if kind == "other-version-differs":
            from pymoca import parser

            if "data" not in _OTHER:
                _OTHER["data"] = pickle.dumps(parser.parse("model Z\n  Real q;\nend Z;\n", bypass_cache=True))
            other = _OTHER["data"]
            c.execute("UPDATE models SET data=? WHERE pymoca_version<>?", (other, VERSIONS[self.version]))
            c.commit()
            c.close()
            return
        rows = c.execute("SELECT rowid, data FROM models").fetchall()
        for rid, data in rows:
            if kind in ("byte", "del", "ins", "column"):  # in place, whatever the column holds
                c.execute("UPDATE models SET data=? WHERE rowid=?", (damage(data, (kind,) + a), rid))
                continue
            data = data if isinstance(data, bytes) else b""
            if kind == "empty":
                new = b""
            elif kind == "half":
                new = data[: len(data) // 2]
            elif kind == "prefix":
                new = data[:n]
            elif kind == "garbage":
                new = b"this is not a pickle"
            elif kind == "raises":
                new = representatives()[n][1]
            elif kind == "gone-module":
                new = GONE_MODULE
            elif kind == "gone-class":
                global GONE_ATTR
                if GONE_ATTR is None:
                    GONE_ATTR = _gone_pickle("pymoca.ast", "NoSuchClassAnyMore")
                new = GONE_ATTR
            else:
                raise ValueError(kind)
            c.execute("UPDATE models SET data=? WHERE rowid=?", (new, rid))
        c.commit()
        c.close()

    def layout_fault(self, kind):
        c = sqlite3.connect(self.dbpath)
        if kind == "models-foreign":
            c.execute("DROP TABLE IF EXISTS models")
            c.execute("CREATE TABLE models (foo TEXT, bar INTEGER)")
            c.execute("INSERT INTO models VALUES ('x', 1)")
        elif kind == "metadata-foreign":
            c.execute("DROP TABLE IF EXISTS metadata")
            c.execute("CREATE TABLE metadata (k TEXT, v TEXT, extra TEXT)")
        elif kind == "models-retyped":
            # same column names, order and primary key, other declared types (what an older / hand-made database may
            # hold): text affinity for the timestamp; the rows are kept when the present table has these columns
            self._retype(c, "models", "txt_hash VARCHAR(64), pymoca_version TEXT, data BLOB, last_hit TEXT, PRIMARY KEY (txt_hash, pymoca_version)", "txt_hash, pymoca_version, data, last_hit")
        elif kind == "metadata-retyped":
            self._retype(c, "metadata", "key TEXT, value BLOB, PRIMARY KEY (key)", "key, value")
        elif kind == "drop-models":
            c.execute("DROP TABLE IF EXISTS models")
        elif kind == "drop-metadata":
            c.execute("DROP TABLE IF EXISTS metadata")
        elif kind == "metadata-keys-deleted":
            try:
                c.execute("DELETE FROM metadata")
            except sqlite3.Error:
                pass
        c.commit()
        c.close()

    @staticmethod
    def _retype(c, table, decl, cols):
        c.execute("DROP TABLE IF EXISTS vf_old")
        try:
            c.execute("ALTER TABLE %s RENAME TO vf_old" % table)
            have = True
        except sqlite3.Error:
            have = False
        c.execute("CREATE TABLE %s (%s)" % (table, decl))
        if have:
            try:
                c.execute("INSERT INTO %s SELECT %s FROM vf_old" % (table, cols))
            except sqlite3.Error:
                pass
            c.execute("DROP TABLE vf_old")

    def file_fault(self, kind):
        p = self.dbpath
        if kind == "deleted":
            os.remove(p)
        elif kind == "zero":
            open(p, "wb").close()
        elif kind == "garbage":
            with open(p, "wb") as f:
                f.write(b"This is no SQLite database, just text.\n" * 40)
        elif kind == "half":
            with open(p, "rb") as f:
                b = f.read()
            with open(p, "wb") as f:
                f.write(b[: len(b) // 2])

    # -- invariants and abstraction --------------------------------------------
    def rows(self):
        if not os.path.exists(self.dbpath):
            return None
        try:
            c = sqlite3.connect("file:%s?mode=ro" % self.dbpath, uri=True)
            cols = [r[1] for r in c.execute("PRAGMA table_info('models')").fetchall()]
            if cols != ["txt_hash", "pymoca_version", "data", "last_hit"]:
                c.close()
                return None
            rows = c.execute("SELECT txt_hash, pymoca_version, data, last_hit FROM models").fetchall()
            c.close()
            return rows
        except sqlite3.Error:
            return None

    def invariant(self):
        rows = self.rows()
        if not rows:
            return
        bad = txt_hash("BAD")
        for h, v, data, _ in rows:
            if h == bad:
                self.viol.append(("failed-parse-stored", "a row keyed by the hash of the syntactically broken text exists (version %s)" % v))
            try:
                if isinstance(data, bytes):
                    with mem_limit():
                        obj = pickle.loads(data)
                    if obj is None:
                        self.viol.append(("none-stored", "a cached entry unpickles to None"))
            except Exception:
                pass

    def key(self):
        p = self.dbpath
        cap = _CFG["cap"]
        base = (self.version, self.initialised, tuple(sorted((t, min(n, cap)) for t, n in self.handed.items())))
        if not os.path.exists(p):
            return base + ("absent",)
        with open(p, "rb") as f:
            raw = f.read()
        try:
            c = sqlite3.connect("file:%s?mode=ro" % p, uri=True)
            tabs = sorted(r[0] for r in c.execute("SELECT name FROM sqlite_master WHERE type='table'").fetchall())
            lay = tuple((t, tuple(tuple(r) for r in c.execute("PRAGMA table_info('%s')" % t).fetchall())) for t in tabs)
            meta = ()
            if "metadata" in tabs:
                try:
                    meta = tuple(sorted(r[0] for r in c.execute("SELECT key FROM metadata").fetchall()))
                except sqlite3.Error:
                    meta = ("?",)
            rows = ()
            if "models" in tabs:
                try:
                    rs = c.execute("SELECT * FROM models").fetchall()
                    rows = tuple(sorted(self._row_key(r) for r in rs))
                except sqlite3.Error:
                    rows = ("?",)
            ok = c.execute("PRAGMA integrity_check").fetchone()
            c.close()
            return base + ("sqlite", lay, meta, rows, ok)
        except sqlite3.Error:
            return base + ("unreadable", hashlib.sha1(raw).hexdigest()[:10])

    def _row_key(self, r):
        if len(r) != 4:
            return ("foreign", len(r))
        h, v, data, last_hit = r
        try:  # a column with text affinity hands the timestamp back as a string
            last_hit = int(last_hit or 0)
        except (TypeError, ValueError):
            last_hit = 0
        age = self.clock.now // 1000 - last_hit
        day = 86400 * 10**6
        bucket = 0 if age < day else (1 if age <= 30 * day else 2)
        # a data column of another storage class than BLOB is a state of its own (NULL is not the empty blob)
        blob = data if isinstance(data, bytes) else ("\x00%s:%r" % (type(data).__name__, data)).encode()
        return (str(h)[:8], str(v), hashlib.sha1(blob).hexdigest()[:8], bucket)


def _init(tier, plan=0):
    pl = plans(tier)[plan]
    _CFG["tier"] = tier
    _CFG["events"] = all_events(pl["flags"], pl["family"])
    _CFG["cap"] = pl["cap"]
    _CFG["devs"] = pl["devs"]


_W = None


def world():
    global _W
    if _W is None:
        _W = World()
    return _W


def build(hist):
    """Replay a history from a fresh, never-seen folder and a reloaded module (a new process, in effect)."""
    w = world()
    importlib.reload(w.parser)
    w.clock = FakeTime()
    w.parser.time = w.clock
    w.folder = Path(common.new_scratch("c01"))
    w.version = "v1"
    w.pymoca.__version__ = VERSIONS["v1"]
    w.initialised = False
    w.handed = {}
    w.kept = []
    for ev in hist:
        w.apply(tuple(ev))
    return w


def expand(hist):
    out = []
    w = build(hist)
    base = w.snapshot()
    folder0 = w.folder
    clean = True  # nothing has run in this process since the history was replayed
    spent = sum(1 for h in hist if is_deviation(tuple(h)))
    for ev in _CFG["events"]:
        if is_deviation(ev) and spent >= _CFG.get("devs", 99):
            continue  # over the deviation budget: the search would drop the transition unseen
        w.folder = folder0
        w.restore(base)
        if not w.enabled(ev):
            continue
        try:
            viol = list(w.apply(ev))
            key = w.key()
            if viol and not clean:
                # restore() puts back the folder, the clock and the version, not what the process may remember of
                # the sibling events tried before this one: a verdict counts only if it follows from the history alone
                w = build(hist)
                base = w.snapshot()
                folder0 = w.folder
                viol = list(w.apply(ev))
                key = w.key()
        except Exception as ex:  # harness trouble, not a verdict about pymoca
            raise RuntimeError("harness failure on %r after %r: %r" % (ev, hist, ex)) from ex
        clean = False
        rec = {"ev": list(ev), "key": key, "viol": viol, "dev": 1 if is_deviation(ev) else 0, "stop": bool(viol)}
        if ev[0] == "P":
            # what makes this parse non-trivial for the two widened clauses (tallied by run())
            others = sorted({h[1] for h in hist if h[0] == "P" and h[1] in _FAMILY and h[1] != ev[1]}) if ev[1] in _FAMILY else []
            rec["pairs"] = [[a, ev[1]] for a in others]
            rec["after_edit"] = min(base["handed"].get(ev[1], 0), 3)  # results of this text already handed out and edited
        out.append(rec)
    for f in os.listdir(common.scratch_root()):  # scratch_root() is private to this worker
        if f.startswith("c01_"):
            shutil.rmtree(os.path.join(common.scratch_root(), f), ignore_errors=True)
    w.folder = Path(common.new_scratch("c01"))
    w.kept = []
    return out


# ---- E3: every prefix of the stored pickle ------------------------------------


def prefix_job(args):
    t, n, reload_first = args
    hist = [("P", t, 30, False), ("ENTRY", "prefix", n)]
    if reload_first:
        hist.append(("RELOAD",))
    hist.append(("P", t, 30, False))
    hist.append(("P", t, 30, False))
    w = build(hist[:-2])
    v = []
    v += w.apply(hist[-2])
    v += w.apply(hist[-1])
    shutil.rmtree(w.folder, ignore_errors=True)
    return [list(h) for h in hist], v


def pickle_len(t):
    return len(fresh_pickle(t))


# ---- E3: single-byte damage of the stored pickle, data column of another storage class --------------


def _clean_scratch(w):
    for f in os.listdir(common.scratch_root()):  # scratch_root() is private to this worker
        if f.startswith("c01_"):
            shutil.rmtree(os.path.join(common.scratch_root(), f), ignore_errors=True)
    w.folder = Path(common.new_scratch("c01"))
    w.kept = []


def sweep_job(args):
    """Every single-byte damage at offsets lo..hi-1 of the pickle that parse() stored for text t: what plain pickle
    does with it (counted per outcome), and -- with `judge` -- two parses on every damaged entry that is in the
    alphabet (pickle raises, or it still loads to an equal tree).  The damaged entries are put into one folder one
    after the other (parse() repairs the entry in between; the caller forgets the trees of the previous round); a
    violation counts only if it shows again on the history  P(t) damage P(t) P(t)  from a fresh folder and module."""
    t, lo, hi, tier, judge = args
    P = ("P", t, 30, False)
    ref = fresh_dump(t)
    w = build([P])
    rows = w.rows()
    out = {"t": t, "counts": {}, "first": {}, "last": {}, "judged": 0, "viol": [], "len": None}
    if not rows or len(rows) != 1 or not isinstance(rows[0][2], bytes):
        return out  # nothing stored to damage: the BFS has reported why
    orig = rows[0][2]
    out["len"] = len(orig)
    for d in damages(orig, lo, hi, tier):
        blob = damage(orig, d)
        c = classify(blob, ref)
        k = " ".join(c)
        out["counts"][k] = out["counts"].get(k, 0) + 1
        out["first"].setdefault(k, list(d))
        out["last"][k] = list(d)
        if not judge or c[0] == "different" or len(out["viol"]) >= 3:
            continue
        out["judged"] += 1
        con = sqlite3.connect(w.dbpath)
        con.execute("UPDATE models SET data=?", (blob,))
        con.commit()
        con.close()
        v = w.apply(P) + w.apply(P)
        w.kept = []
        if v:
            hist = [P, ("ENTRY",) + tuple(d), P, P]
            w = build(hist[:2])
            v = w.apply(P) + w.apply(P)
            if v:
                out["viol"].append(([list(h) for h in hist], v, k))
            w = build([P])
    _clean_scratch(w)
    return out


def damage_job(args):
    """One damaged entry as a history of its own: P(t), the damage, optionally a module reload, P(t), P(t).  What
    plain pickle does with the column as it is then stored decides whether the two parses are judged."""
    t, d, reload_first = args
    P = ("P", t, 30, False)
    hist = [P, ("ENTRY",) + tuple(d)]
    if reload_first:
        hist.append(("RELOAD",))
    hist += [P, P]
    w = build(hist[:-2])
    rows = w.rows()
    cls = classify(rows[0][2], fresh_dump(t)) if rows and len(rows) == 1 else None
    v = []
    if cls is not None and cls[0] != "different":
        v = w.apply(P) + w.apply(P)
    _clean_scratch(w)
    return [list(h) for h in hist], v, " ".join(cls) if cls else "nothing stored"


class _Tally:
    """Pool front that counts, over all executed transitions, the parses that exercise the widened clauses."""

    def __init__(self, pool):
        self.pool = pool
        self.pairs = set()
        self.pair_parses = 0
        self.after_edit = {1: 0, 2: 0, 3: 0}
        self.level = 0
        import time

        self.t0 = time.time()

    def map(self, fn, items):
        if os.environ.get("VERIF_PROGRESS"):
            import sys
            import time

            self.level += 1
            print("C01 level %d: expanding %d states (%d transitions so far, t=%.0fs, cpu=%.0fs)" % (self.level, len(items), getattr(self, "done", 0), time.time() - self.t0, sum(os.times()[:4])), file=sys.stderr, flush=True)
        res = self.pool.map(fn, items)
        self.done = getattr(self, "done", 0) + sum(len(r) for r in res)
        for recs in res:
            for r in recs:
                for pr in r.get("pairs", ()):
                    self.pairs.add(tuple(pr))
                self.pair_parses += 1 if r.get("pairs") else 0
                if r.get("after_edit"):
                    self.after_edit[r["after_edit"]] += 1
        return res


def run(ctx):
    searches = []
    tally = _Tally(None)
    for n, pl in enumerate(plans(ctx.tier)):
        _init(ctx.tier, n)
        with common.Pool(init=_init, initargs=(ctx.tier, n)) as pool:
            w0 = build(())
            tally.pool = pool
            tally.level = 0
            st = bfs.search(ctx, tally, expand, init_key=w0.key(), max_depth=pl["depth"], max_dev=pl["devs"])
            st.update({"search": pl["name"], "events": len(_CFG["events"]), "history_length": pl["depth"], "deviations": pl["devs"],
                       "near_duplicate_texts": len(FAMILY) if pl["family"] else 0, "results_per_text_distinguished": pl["cap"]})
            searches.append(st)
            if n == 0:
                jobs = []
                for t in ("OK1", "OK2"):
                    k = pickle_len(t)
                    step = 1 if ctx.tier == "thorough" else 16
                    offs = sorted(set(range(0, k, step)) | set(range(0, min(k, 48))) | {k - 1, k - 2})
                    for o in offs:
                        for r in (False, True):
                            jobs.append((t, o, r))
                res = pool.map(prefix_job, jobs)
                # single-byte damage: classify everything (thorough: and judge everything), then one history of
                # its own per outcome of pickle.loads (first and last damage with that outcome) and per column fault
                thorough = ctx.tier == "thorough"
                step = 8 if thorough else 64
                sweeps = pool.map(sweep_job, [(t, lo, lo + step, ctx.tier, thorough) for t in ("OK1", "OK2") for lo in range(0, pickle_len(t) + 1, step)], chunksize=1)
                djobs = []
                for t in ("OK1", "OK2"):
                    mine = [s for s in sweeps if s["t"] == t]
                    for k in sorted({k for s in mine for k in s["counts"]}):
                        if k != "different":
                            ds = [[s for s in mine if k in s["first"]][0]["first"][k], [s for s in mine if k in s["last"]][-1]["last"][k]]
                            djobs += [(t, tuple(d), r) for d in ds[: 1 if ds[0] == ds[1] else 2] for r in (False, True)]
                    djobs += [(t, ("column", k), r) for k in COLUMN for r in (False, True)]
                dres = pool.map(damage_job, djobs)
    for hist, v in res:
        for sig, msg in v:
            ctx.violation(sig, "after truncating the stored pickle: " + msg, {"history": hist})
    outcomes = {}
    for s in sweeps:
        for k, n in s["counts"].items():
            outcomes[k] = outcomes.get(k, 0) + n
        for hist, v, k in s["viol"]:
            for sig, msg in v:
                ctx.violation(sig, "after one damaged byte in the stored pickle (plain pickle: %s): %s" % (k, msg), {"history": hist})
    for hist, v, k in dres:
        for sig, msg in v:
            ctx.violation(sig, "after damaging the stored entry (plain pickle: %s): %s" % (k, msg), {"history": hist})
    damaged = sum(outcomes.values())
    swept = sum(s["judged"] for s in sweeps)
    histories = sum(1 for _, _, k in dres if k not in ("different", "nothing stored"))
    ctx.sample({"history": res[len(res) // 2][0]})
    if dres:
        ctx.sample({"history": dres[len(dres) // 2][0]})
    transitions = sum(st["transitions"] for st in searches)
    states = sum(st["states"] for st in searches)
    ctx.coverage.update(
        {
            "states": states,
            "transitions": transitions,
            "max_depth": max(st["max_depth"] for st in searches),
            "closed": all(st["closed"] for st in searches),
            "frontier_left": sum(st["frontier_left"] for st in searches),
            "searches": searches,
            "traces_validated_against_impl": transitions + len(jobs) + swept + histories,
            "evaluations": transitions + len(jobs) + swept + histories,
            "distinct_nontrivial": max(0, states - len(searches)),
            "pickle_prefixes": len(jobs),
            "damaged_entries_classified_by_plain_pickle": damaged,
            "damaged_entries_by_outcome_of_plain_pickle": dict(sorted(outcomes.items())),
            "damaged_entries_outside_alphabet_not_judged": outcomes.get("different", 0),
            "damaged_entries_parsed_in_sweep": swept,
            "damaged_entry_histories": histories,
            "damaged_entry_histories_by_outcome": {k: sum(1 for _, _, k2 in dres if k2 == k) for k in sorted({k for _, _, k in dres})},
            "entry_faults_found_by_classification": {x: list(d) for x, (d, _) in sorted(representatives().items())},
            "entry_faults_hand_made_raise": list(_HAVE),
            "near_duplicate_texts": len(FAMILY),
            "near_duplicate_ordered_pairs_parsed": len(tally.pairs),
            "near_duplicate_ordered_pairs_possible": len(FAMILY) * (len(FAMILY) - 1),
            "parses_after_a_near_duplicate": tally.pair_parses,
            "parses_after_1_2_3plus_edited_results_of_same_text": [tally.after_edit[1], tally.after_edit[2], tally.after_edit[3]],
            "exhaustive": True,
            "bound": [{k: st[k] for k in ("search", "history_length", "deviations", "near_duplicate_texts", "results_per_text_distinguished")} for st in searches],
            "rule": "%s.  A deviation is a version change, a clock jump, an entry / layout / file fault, or a parse of a "
            "near-duplicate text.  Events: parse(text in OK1/OK2/BAD, expiration, always_update), parse(default flags) of the "
            "%d near-duplicate texts (OK3 with a multi-line, blank-, tab-, case- and accent-carrying string literal, and its "
            "image under: LF->CRLF, strip trailing blanks, collapse blank runs, expand tabs, lower case, other accent, NFD -- "
            "all different texts with different trees), module reload, versions v1/v2/v1.dirty, clock +2d/+40d, stored pickle "
            "emptied/halved/garbage/class-gone/other-version entry holding a different tree/one byte damaged so that pickle raises X "
            "(one entry per further exception type)/data column NULL, tables re-laid-out or dropped, "
            "metadata keys deleted, file garbage/truncated/zero/deleted; state = abstraction of the database (layouts, "
            "metadata keys, rows with key prefix, version, data hash and age bucket), process-initialised flag, version, and "
            "per text the number of results handed out in this process (0..cap); every parse is compared structurally with "
            "the uncached parse of the same text, after which the caller edits the returned tree in place (every reachable "
            "container and pymoca object) and keeps it.  Plus %d prefix lengths of the stored pickle (E3), each with and "
            "without a module reload, followed by two parses.  Plus single-byte damage of the stored pickle of OK1 and of OK2 "
            "(E3): at every offset the byte replaced by 0x00, 0xff, original xor 1, original + 1 (thorough: by every other "
            "value; and the byte deleted; and 0x00 / 0xff / a copy of it inserted), %d damaged entries, each classified by "
            "plain pickle.loads outside pymoca (loads to an equal tree / loads to a different object / raises type X); "
            "entries that load to a different object are outside the alphabet and only counted (%d); %s; "
            "plus a data column holding NULL / an integer / a text.  The exception types that the hand-made entry faults do "
            "not raise (%s) each contribute the first such damaged entry to the BFS alphabet (ENTRY raises X), NULL likewise.  "
            "All pickle.loads and parse calls run under an address-space limit of current size + 512 MB."
            % (
                "; ".join(
                    "search '%s': all histories of length <= %d with <= %d deviations over %d events (%s near-duplicates, "
                    "results per text distinguished up to %d)" % (st["search"], st["history_length"], st["deviations"], st["events"],
                                                                 "with" if st["near_duplicate_texts"] else "without", st["results_per_text_distinguished"])
                    for st in searches
                ),
                len(FAMILY),
                len(jobs),
                damaged,
                outcomes.get("different", 0),
                "parse() is run twice on every other damaged entry (%d), and on the first and the last damaged entry of each "
                "outcome as a history of its own with and without a module reload (%d histories)" % (swept, histories)
                if swept
                else "parse() is run on the first and the last damaged entry of each outcome, as a history of its own "
                "(P, damage, [reload], P, P; %d histories)" % histories,
                ", ".join(sorted(representatives())),
            ),
        }
    )
    ctx.assumptions += [
        "one process, one folder (sharing is C02); pickles that load to a foreign *object* under the current version are outside "
        "the alphabet: whether a damaged entry still loads is decided by plain pickle.loads run by the harness on the stored value",
        "every pickle.loads of the harness and every parse() runs under RLIMIT_AS = current size + 512 MB (a damaged length byte can "
        "make the unpickler ask for tens of GB); an entry on which pickle then raises MemoryError is judged like any other entry "
        "that no longer unpickles",
        "single-byte damage is applied to the pickles of OK1 and OK2 only (pickle opcodes and their operands do not depend on the "
        "text); multi-byte damage other than truncation is not explored",
        "clock and pymoca.__version__ are seams set by the harness (as the repository's own cache tests do)",
        "process state of the cache lives in pymoca.parser: importlib.reload(parser) stands for a new process (a verdict "
        "reached after sibling events ran in the same worker is re-derived from the history alone before it is reported)",
        "near-duplicates whose trees are equal (leading / trailing blank lines, a BOM, comments) cannot violate the statement "
        "and are not in the alphabet; the normalisation family is the stated one, parsed with default flags only",
    ]


def replay(case):
    _init("thorough", 0)
    w = build(())
    ok = True
    for ev in case["history"]:
        if not w.enabled(tuple(ev)) and not (ev[0] == "ENTRY" and ev[1] in ("prefix", "byte", "del", "ins", "column")):
            print(ev, "-> not enabled here: this history is outside the alphabet")
            return True
        v = w.apply(tuple(ev))
        print(ev, "->", [m for _, m in v] or "ok")
        ok = ok and not v
    return ok
