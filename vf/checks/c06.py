"""C06 -- deep copies of a tree are independent of the original.

E1: BFS over interleavings of deepcopy / AST edits on up to 3 trees.  After every event every class
of every tree is flattened (on a deep copy of that tree, the way the SymPy/XML backends do; thorough
also in place on a throw-away copy made by pickling) and compared with a *fresh parse of the library
to which only that tree's own edits were applied* -- so an edit must be visible in its own tree and
invisible in all others, whatever the copy ancestry.
"""
import json
import pickle

from vf.core import bfs, common, dump

LEVEL = "model_checking"

LIB = """
model Leaf
  Real x(start = 1);
  parameter Real k = 2;
equation
  der(x) = -k * x;
end Leaf;

model Base
  parameter Real p = 1;
  Real b;
equation
  b = p;
end Base;

model Mid
  extends Base(p = 4);
  Leaf l1(k = 3);
  Real s;
equation
  s = l1.x + b;
end Mid;

model Top
  Mid m;
  Leaf own;
  Real y;
equation
  y = m.s + own.x;
end Top;
"""

EDIT_CLASSES = ["Leaf", "Base", "Top"]
FLAT_CLASSES = ["Leaf", "Base", "Mid", "Top", "Extra"]
OPS = ["add_symbol", "add_equation", "remove_equation", "remove_symbol", "add_class", "remove_class"]
MAX_TREES = 3
_CFG = {"tier": "quick"}
_EXPECT = {}


def _init(tier):
    _CFG["tier"] = tier


def fresh_tree():
    from pymoca import parser

    return parser.parse(LIB, bypass_cache=True)


def apply_edit(tree, op, cls, serial):
    """One edit through the public AST API.  Deterministic content; `serial` numbers this tree's edits."""
    from pymoca import ast

    if op == "add_class":
        c = ast.Class(name="Extra", type="model")
        c.add_symbol(ast.Symbol(name="q%d" % serial, type=ast.ComponentRef(name="Real")))
        c.add_equation(ast.Equation(left=ast.ComponentRef(name="q%d" % serial), right=ast.Primary(value=serial)))
        tree.add_class(c)
        return
    if cls not in tree.classes:
        return  # class was removed from this tree earlier: edit has no target, nothing happens
    k = tree.classes[cls]
    if op == "remove_class":
        tree.remove_class(k)
    elif op == "add_symbol":
        k.add_symbol(ast.Symbol(name="zz%d" % serial, type=ast.ComponentRef(name="Real")))
    elif op == "remove_symbol":
        if k.symbols:
            k.remove_symbol(list(k.symbols.values())[-1])
    elif op == "add_equation":
        first = list(k.symbols)[0] if k.symbols else "nosuch"
        k.add_equation(ast.Equation(left=ast.ComponentRef(name=first), right=ast.Primary(value=40 + serial)))
    elif op == "remove_equation":
        if k.equations:
            k.remove_equation(k.equations[0])
    else:
        raise ValueError(op)


def flat_result(tree, cls):
    from pymoca import ast
    from pymoca import tree as ptree

    try:
        flat = ptree.flatten(tree, ast.ComponentRef.from_string(cls))
        return ("ok", json.dumps(ast.Node.to_json(flat), sort_keys=True, default=repr))
    except Exception as e:
        return ("exc", type(e).__name__)


def expected(edits):
    """Flatten results of a fresh parse with exactly `edits` applied (memoised per worker)."""
    if edits not in _EXPECT:
        res = {}
        for cls in FLAT_CLASSES:
            t = fresh_tree()
            for n, (op, k) in enumerate(edits):
                apply_edit(t, op, k, n)
            res[cls] = flat_result(t, cls)
        _EXPECT[edits] = res
    return _EXPECT[edits]


class World:
    def __init__(self):
        self.trees = [fresh_tree()]
        self.edits = [()]
        self.parent = [None]

    def apply(self, ev):
        import copy

        if ev[0] == "copy":
            i = ev[1]
            self.trees.append(copy.deepcopy(self.trees[i]))
            self.edits.append(self.edits[i])
            self.parent.append(i)
        else:
            _, i, op, cls = ev
            apply_edit(self.trees[i], op, cls, len(self.edits[i]))
            self.edits[i] = self.edits[i] + ((op, cls),)

    def check(self):
        import copy

        viol = []
        for i, t in enumerate(self.trees):
            exp = expected(self.edits[i])
            for cls in FLAT_CLASSES:
                modes = [("flatten(deepcopy(tree))", lambda: copy.deepcopy(t))]
                if _CFG["tier"] == "thorough":
                    modes.append(("flatten(tree) in place [on a pickled clone]", lambda: pickle.loads(pickle.dumps(t))))
                for mname, mk in modes:
                    got = flat_result(mk(), cls)
                    if got != exp[cls]:
                        other = [j for j in range(len(self.trees)) if j != i and expected(self.edits[j])[cls] == got]
                        kind = "sees-other-tree" if other else "wrong-result"
                        viol.append(
                            (
                                "%s:%s" % (kind, "exception" if got[0] == "exc" else "model"),
                                "tree %d (edits %r, copied from %r): %s of %s gives %s, expected %s%s"
                                % (i, list(self.edits[i]), self.parent[i], mname, cls, _short(got), _short(exp[cls]),
                                   "; that is what tree(s) %r should give" % other if other else ""),
                            )
                        )
        return viol

    def key(self):
        return (tuple(self.edits), tuple(self.parent), dump.digest(self.trees))

    def events(self):
        evs = []
        if len(self.trees) < MAX_TREES:
            evs += [("copy", i) for i in range(len(self.trees))]
        for i in range(len(self.trees)):
            for op in OPS:
                for cls in (EDIT_CLASSES if op != "add_class" else ["-"]):
                    evs.append(("edit", i, op, cls))
        return evs


def _short(r):
    import hashlib

    return "%s:%s" % (r[0], r[1] if len(r[1]) < 60 else "<model sha %s>" % hashlib.sha1(r[1].encode()).hexdigest()[:8])


def build(hist):
    w = World()
    for ev in hist:
        w.apply(tuple(ev))
    return w


def expand(hist):
    out = []
    for ev in build(hist).events():
        w = build(hist)
        try:
            w.apply(ev)
            viol = w.check()
        except Exception as e:
            viol = [("exception-in-api:" + common.exc_sig(e), "%r raised %r" % (ev, e))]
            out.append({"ev": list(ev), "key": ("exc", repr(ev), repr(hist)), "viol": viol, "stop": True, "dev": 1 if ev[0] == "edit" else 0})
            continue
        out.append({"ev": list(ev), "key": w.key(), "viol": viol, "stop": bool(viol), "dev": 1 if ev[0] == "edit" else 0})
    return out


def run(ctx):
    _init(ctx.tier)
    depth, max_edits = (3, 2) if ctx.tier == "quick" else (5, 3)
    with common.Pool(init=_init, initargs=(ctx.tier,)) as pool:
        st = bfs.search(ctx, pool, expand, init_key=build(()).key(), max_depth=depth, max_dev=max_edits)
    ctx.coverage.update(st)
    ctx.coverage.update(
        {
            "traces_validated_against_impl": st["transitions"],
            "evaluations": st["transitions"],
            "distinct_nontrivial": max(0, st["states"] - 1),
            "exhaustive": True,
            "bound": {"history_length": depth, "edits": max_edits, "trees": MAX_TREES},
            "rule": "all histories of length <= %d with <= %d edits over {deepcopy(tree_i)} x {add/remove symbol, "
            "add/remove equation, remove class on Leaf (component type) / Base (base of an extends) / Top, add class} on "
            "up to %d trees; after every event every class of every tree is flattened and compared with a fresh parse "
            "carrying only that tree's edits; state = per-tree edit lists + copy ancestry + joint structural fingerprint"
            % (depth, max_edits, MAX_TREES),
        }
    )
    ctx.assumptions.append("edits are applied through the AST API exactly as test/ast_test.py does")


def replay(case):
    _init("thorough")
    w = World()
    ok = True
    for ev in case["history"]:
        w.apply(tuple(ev))
        v = w.check()
        print(ev, "->", [m for _, m in v] or "ok")
        ok = ok and not v
    return ok
