"""C06 -- deep copies of a tree are independent of the original.

E1: BFS over histories of three kinds of event on up to 3 live trees:

  copy(i)            tree_n = copy.deepcopy(tree_i)
  edit(i, op, K)     add/remove symbol/equation/class through the AST API
  obs(i, route, K)   flatten class K ('*' = every class, one after the other) of the *live* tree i through
                     route in {inplace: tree.flatten(tree_i, K); sympy / xml: the backend's generate(tree_i, K),
                     which deep-copies the tree and flattens the copy} -- the result is compared with the
                     reference, and the event stays in the history: whatever the implementation remembers of
                     an observation (inside the tree or outside it) is there when the tree is later copied,
                     edited and observed again.

Reference: a *fresh parse of the library to which only that tree's own edits were applied*, observed
through the same route -- so an edit must be visible in its own tree and invisible in all others,
whatever the copy ancestry and whatever was observed before.  The reference results are computed before
the exploration starts (in other processes), so computing them never runs in between two events of a history.

An obs event is offered wherever another event can still follow it within the length bound (as the last event
of a longest history it would only be followed by the final observations below, which are made anyway).

After every copy and edit event each tree is additionally observed on its own throw-away replay of the history
(`final observations': flatten(deepcopy(tree)) the way the backends do, plus every route an earlier obs
event of the history went through -- a route can only have left something behind if it was used -- plus,
thorough, flatten(tree) in place in any case; classes in the reverse order of obs(.., '*'), so that the
class observed last is the first to be observed again).  Being made on a replay that is then discarded,
they are not part of the history that is extended.
"""
import hashlib
import itertools
import json

from vf.core import bfs, common, dump

LEVEL = "model_checking"

LIB = """
model Leaf
  Real x(start = 1);
  parameter Real k = 2;
equation
  der(x) = -k * x;
end Leaf;

model Base
  parameter Real p = 1;
  Real b;
equation
  b = p;
end Base;

model Mid
  extends Base(p = 4);
  Leaf l1(k = 3);
  Real s;
equation
  s = l1.x + b;
end Mid;

model Top
  Mid m;
  Leaf own;
  Real y;
equation
  y = m.s + own.x;
end Top;
"""

EDIT_CLASSES = ["Leaf", "Base", "Top"]
# order of obs(i, route, '*'); Top (reaches every other class) last, the class that exists only after add_class first
FLAT_CLASSES = ["Extra", "Leaf", "Base", "Mid", "Top"]
OPS = ["add_symbol", "add_equation", "remove_equation", "remove_symbol", "add_class", "remove_class"]
EDIT_ACTIONS = [(op, cls) for op in OPS for cls in (EDIT_CLASSES if op != "add_class" else ["-"])]
OBS_ROUTES = ["inplace", "sympy", "xml"]  # routes of obs events (xml = deepcopy + flatten + rendering, so a bare
#                                           'copy' route as an event would add nothing to it)
BACKENDS = ["sympy", "xml"]
KIND = {"copy": "flat", "inplace": "flat", "sympy": "sympy", "xml": "xml"}
ROUTE_TEXT = {
    "copy": "tree.flatten(deepcopy(tree), K)",
    "inplace": "tree.flatten(tree, K)",
    "sympy": "backends.sympy.generator.generate(tree, K)",
    "xml": "backends.xml.generator.generate(tree, K)",
}
MAX_TREES = 3
MAX_OBS = 2
BOUNDS = {"quick": (3, 2, 2), "thorough": (4, 3, 2)}  # history length, deviations (edit + obs events), edit events
_CFG = {"tier": "quick", "obs_classes": ["*"]}
_EXPECT = {}


def _init(tier):
    _CFG["tier"] = tier


def fresh_tree():
    from pymoca import parser

    return parser.parse(LIB, bypass_cache=True)


def apply_edit(tree, op, cls, serial):
    """One edit through the public AST API.  Deterministic content; `serial` numbers this tree's edits."""
    from pymoca import ast

    if op == "add_class":
        c = ast.Class(name="Extra", type="model")
        c.add_symbol(ast.Symbol(name="q%d" % serial, type=ast.ComponentRef(name="Real")))
        c.add_equation(ast.Equation(left=ast.ComponentRef(name="q%d" % serial), right=ast.Primary(value=serial)))
        tree.add_class(c)
        return
    if cls not in tree.classes:
        return  # class was removed from this tree earlier: edit has no target, nothing happens
    k = tree.classes[cls]
    if op == "remove_class":
        tree.remove_class(k)
    elif op == "add_symbol":
        k.add_symbol(ast.Symbol(name="zz%d" % serial, type=ast.ComponentRef(name="Real")))
    elif op == "remove_symbol":
        if k.symbols:
            k.remove_symbol(list(k.symbols.values())[-1])
    elif op == "add_equation":
        first = list(k.symbols)[0] if k.symbols else "nosuch"
        k.add_equation(ast.Equation(left=ast.ComponentRef(name=first), right=ast.Primary(value=40 + serial)))
    elif op == "remove_equation":
        if k.equations:
            k.remove_equation(k.equations[0])
    else:
        raise ValueError(op)


def _sha(text):
    return hashlib.sha1(text.encode()).hexdigest()[:16]


def observe(tree, route, cls):
    """('ok', digest of the flat model / generated text) or ('exc', exception type) of one request."""
    import copy

    from pymoca import ast
    from pymoca import tree as ptree

    try:
        if route in ("copy", "inplace"):
            t = copy.deepcopy(tree) if route == "copy" else tree
            flat = ptree.flatten(t, ast.ComponentRef.from_string(cls))
            return ("ok", _sha(json.dumps(ast.Node.to_json(flat), sort_keys=True, default=repr)))
        if route == "sympy":
            from pymoca.backends.sympy import generator as sympy_gen

            return ("ok", _sha(sympy_gen.generate(tree, cls)))
        if route == "xml":
            from pymoca.backends.xml import generator as xml_gen

            return ("ok", _sha(xml_gen.generate(tree, cls)))
    except Exception as e:
        return ("exc", type(e).__name__)
    raise ValueError(route)


def _expect_job(edits):
    """Reference results of one edit list: every class through every kind of route, each on its own fresh parse."""
    res = {}
    for kind, route in (("flat", "inplace"), ("sympy", "sympy"), ("xml", "xml")):
        res[kind] = {}
        for cls in FLAT_CLASSES:
            t = fresh_tree()
            for n, (op, k) in enumerate(edits):
                apply_edit(t, op, k, n)
            res[kind][cls] = observe(t, route, cls)
    return edits, res


def prepare_expected(edit_lists, pool=None):
    todo = [e for e in edit_lists if e not in _EXPECT]
    for edits, res in (pool.map(_expect_job, todo) if pool is not None else map(_expect_job, todo)):
        _EXPECT[edits] = res


def expected(edits, route, cls):
    return _EXPECT[tuple(edits)][KIND[route]][cls]  # KeyError = bug of the check (table is built up front)


class World:
    def __init__(self):
        self.trees = [fresh_tree()]
        self.edits = [()]
        self.parent = [None]
        self.obslog = ()  # (tree, route, class, number of edits of that tree so far, number of trees so far)
        self.n_events = 0
        self.n_edit_events = 0

    def apply(self, ev):
        """Returns the violations of the event itself (only obs events are compared with anything)."""
        import copy

        self.n_events += 1
        if ev[0] == "copy":
            i = ev[1]
            self.trees.append(copy.deepcopy(self.trees[i]))
            self.edits.append(self.edits[i])
            self.parent.append(i)
            return []
        if ev[0] == "edit":
            _, i, op, cls = ev
            self.n_edit_events += 1
            apply_edit(self.trees[i], op, cls, len(self.edits[i]))
            self.edits[i] = self.edits[i] + ((op, cls),)
            return []
        _, i, route, cls = ev
        self.obslog = self.obslog + ((i, route, cls, len(self.edits[i]), len(self.trees)),)
        classes = FLAT_CLASSES if cls == "*" else [cls]
        return self.look(i, [route], classes, "obs event")

    def look(self, i, routes, classes, what):
        viol = []
        for route in routes:
            for cls in classes:
                got = observe(self.trees[i], route, cls)
                exp = expected(self.edits[i], route, cls)
                if got == exp:
                    continue
                other = [j for j in range(len(self.trees)) if j != i and expected(self.edits[j], route, cls) == got]
                past = [n for n in range(len(self.edits[i])) if expected(self.edits[i][:n], route, cls) == got]
                kind = "sees-other-tree" if other else "sees-own-past" if past else "wrong-result"
                sig = "%s:%s" % (kind, "exception" if got[0] == "exc" else "model")
                if route in BACKENDS:
                    sig += ":" + route
                why = ""
                if other:
                    why = "; that is what tree(s) %r should give" % other
                elif past:
                    why = "; that is what this tree gave when it had only its first %r edit(s)" % past
                viol.append(
                    (
                        sig,
                        "%s: tree %d (edits %r, copied from %r, observed before: %r): %s for K=%s gives %s, expected %s%s"
                        % (what, i, list(self.edits[i]), self.parent[i], [list(o[:3]) for o in self.obslog],
                           ROUTE_TEXT[route], cls, "%s:%s" % got, "%s:%s" % exp, why),
                    )
                )
        return viol

    def final(self, i):
        """Final observations of tree i (on a world that is discarded afterwards)."""
        seen = {o[1] for o in self.obslog}
        routes = [r for r in BACKENDS if r in seen] + ["copy"]
        if "inplace" in seen or _CFG["tier"] == "thorough":
            routes.append("inplace")  # last: the only route that works on the live tree itself
        return self.look(i, routes, FLAT_CLASSES[::-1], "final observation")

    def key(self):
        return (tuple(self.edits), tuple(self.parent), self.obslog, dump.digest(self.trees))

    def events(self):
        depth, _, max_edits = BOUNDS[_CFG["tier"]]
        evs = []
        if len(self.trees) < MAX_TREES:
            evs += [("copy", i) for i in range(len(self.trees))]
        if self.n_edit_events < max_edits:
            for i in range(len(self.trees)):
                for op, cls in EDIT_ACTIONS:
                    evs.append(("edit", i, op, cls))
        if len(self.obslog) < MAX_OBS and self.n_events + 1 < depth:
            for i in range(len(self.trees)):
                for route in OBS_ROUTES:
                    for cls in _CFG["obs_classes"]:
                        evs.append(("obs", i, route, cls))
        return evs


def build(hist):
    w = World()
    for ev in hist:
        w.apply(tuple(ev))
    return w


def step(hist, ev):
    """Violations and successor key of `ev` after `hist`; after a copy or an edit every tree's final observations,
    each on a replay of its own."""
    w = build(hist)
    viol = list(w.apply(ev))
    key = w.key()
    for i in range(len(w.trees) if ev[0] != "obs" else 0):
        wi = w if i == 0 else build(tuple(hist) + (ev,))
        viol += wi.final(i)
    return key, viol


def expand(hist):
    out = []
    for ev in build(hist).events():
        dev = 0 if ev[0] == "copy" else 1
        try:
            key, viol = step(hist, ev)
        except Exception as e:
            viol = [("exception-in-api:" + common.exc_sig(e), "%r raised %r" % (ev, e))]
            out.append({"ev": list(ev), "key": ("exc", repr(ev), repr(hist)), "viol": viol, "stop": True, "dev": dev})
            continue
        out.append({"ev": list(ev), "key": key, "viol": viol, "stop": bool(viol), "dev": dev})
    return out


def edit_lists(max_edits):
    return [tuple(p) for n in range(max_edits + 1) for p in itertools.product(EDIT_ACTIONS, repeat=n)]


def run(ctx):
    _init(ctx.tier)
    depth, max_dev, max_edits = BOUNDS[ctx.tier]
    with common.Pool() as pool:  # reference table first, in processes of its own
        prepare_expected(edit_lists(max_edits), pool)
    with common.Pool(init=_init, initargs=(ctx.tier,)) as pool:  # forked now: workers inherit the table
        st = bfs.search(ctx, pool, expand, init_key=build(()).key(), max_depth=depth, max_dev=max_dev)
    ctx.coverage.update(st)
    ctx.coverage.update(
        {
            "traces_validated_against_impl": st["transitions"],
            "evaluations": st["transitions"],
            "distinct_nontrivial": max(0, st["states"] - 1),
            "reference_edit_lists": len(_EXPECT),
            "exhaustive": True,
            "bound": {"history_length": depth, "edits_plus_obs_events": max_dev, "edits": max_edits, "obs_events": MAX_OBS,
                      "trees": MAX_TREES},
            "rule": "all histories of length <= %d with <= %d deviations (edit or obs events; <= %d edits, <= %d obs, an "
            "obs event only where another event can follow it within the length) over "
            "{deepcopy(tree_i)} x {add/remove symbol, add/remove equation, remove class on Leaf (component type) / Base "
            "(base of an extends) / Top, add class} x {obs: every class of the live tree_i through tree.flatten in "
            "place / sympy generate / xml generate, checked and kept in the history} on up to %d trees; after every "
            "copy / edit event every tree is observed on a replay of its own (flatten of a deep copy; every route an earlier obs "
            "event went through; thorough: flatten in place always); reference = fresh parse carrying only that tree's edits, same route, "
            "computed up front; state = per-tree edit lists + copy ancestry + log of obs events (tree, route, tree's "
            "edit count, number of trees at that time) + joint structural fingerprint of the live trees"
            % (depth, max_dev, max_edits, MAX_OBS, MAX_TREES),
        }
    )
    ctx.assumptions.append("edits are applied through the AST API exactly as test/ast_test.py does")
    ctx.assumptions.append(
        "state the implementation keeps outside the trees survives from one replayed history to the next inside a "
        "worker process (nothing resets it); the unchanged tree keeps none (same result for every seed / job count)"
    )


def replay(case):
    _init("thorough")
    hist = [tuple(ev) for ev in case["history"]]
    lists, per_tree = {()}, [()]
    for ev in hist:  # which edit lists occur: their reference results are computed before the history starts
        if ev[0] == "copy":
            per_tree.append(per_tree[ev[1]])
        elif ev[0] == "edit":
            per_tree[ev[1]] = per_tree[ev[1]] + ((ev[2], ev[3]),)
            lists.add(per_tree[ev[1]])
    prepare_expected(sorted({p[:n] for p in lists for n in range(len(p) + 1)}))
    ok = True
    for n in range(len(hist)):
        _, v = step(hist[:n], hist[n])
        print(hist[n], "->", [m for _, m in v] or "ok")
        ok = ok and not v
    return ok
