"""C06 -- deep copies of a tree are independent of the original.

E1: BFS over histories of three kinds of event (copy; edit, of one tree or from one tree into another; obs) on up
to 3 live trees, once per library (the first event of a history, ("lib", name), says which library the first tree
is parsed from; a history without it is on `flat`):

  flat   top-level classes only: component types, extends, modifications
  pkg    packages: a package-qualified component type (Lib.R r) and extends (extends Lib.Sub.Deep), a qualified
         import (import Lib.R) and an unqualified import (import Lib.Sub.*) in an enclosing package, a class
         nested two levels deep (Lib.Sub.Deep) that finds its component type in an enclosing package; every
         class that is observed or edited is nested in a package

  copy(i)            tree_n = copy.deepcopy(tree_i)
  edit(i, op, K)     add/remove symbol/equation/class through the AST API; replace_class = remove_class(K) +
                     add_class(a different class of the same name, a new object no earlier copy or lookup saw)
  edit(i, graft_class, K, j)   transplant, j != i: x = tree_j.find_class(K) -- the public lookup hands out a copy
                     of the class -- and <package W of tree_i>.add_class(x), x keeping its name.  W per library
                     (LIBS[..]["graft_to"]): flat: the root, so tree i's K becomes what tree j's K is at that
                     moment (added if tree i has no K any more); pkg: package P, i.e. for Lib.R / Lib.Sub.Deep a
                     package other than the one x was found in, where x shadows the import of that name.  K out
                     of LIBS[..]["graft"]: an edit class (carries content) and a class that looks up the edit
                     classes from where it stands (carries scope; flat quick: Mid, thorough: + Base, Top).  The
                     one edit whose argument comes out of a live tree instead of being built or parsed for the
                     purpose: it must change tree i only (tree j and all others keep what they had) and later
                     edits of either tree must not reach the other through the transplanted class.  In tree
                     i's edit list it is recorded together with tree j's edit list at that moment.
  obs(i, route, K)   flatten class K ('*' = every class, one after the other) of the *live* tree i through
                     route in {inplace: tree.flatten(tree_i, K); sympy / xml: the backend's generate(tree_i, K),
                     which deep-copies the tree and flattens the copy} -- the result is compared with the
                     reference, and the event stays in the history: whatever the implementation remembers of
                     an observation (inside the tree or outside it) is there when the tree is later copied,
                     edited and observed again.  The `inplace` route is a caller that holds on to its class
                     references: ONE ComponentRef object per class name for the whole history (all trees, obs
                     events and final observations alike); the other routes build a new reference per request.

Reference: a *fresh parse of the library to which only that tree's own edits were applied*, observed
through the same route -- so an edit must be visible in its own tree and invisible in all others,
whatever the copy ancestry and whatever was observed before.  (A graft_class edit is applied to the reference
by *moving* -- remove_class + add_class, no lookup and no copy -- class K out of a second throw-away fresh
parse that carries the source tree's edit list as recorded.)  The reference results are computed before the
exploration starts (in other processes) for every edit list a tree can have within the bound (enumerated by
running the event alphabet on the bookkeeping alone), so computing them never runs in between two events of a
history.

Bounds are per library and tier (LIBS[..]["bounds"]: history length, deviations = edit + obs events, edit events;
several entries = one search each, the union is explored); the bound travels in the lib event so that the
workers know it.  Quick gives the two-edit histories to `flat` (edits on the component-type class and the base
class; thorough adds the top model) and one-edit histories with the in-place route only to `pkg`.  A graft is an
edit event (it counts as edit and as deviation).

An obs event is offered wherever another event can still follow it within the length bound (as the last event
of a longest history it would only be followed by the final observations below, which are made anyway).

After every copy and edit event each tree is additionally observed on its own throw-away replay of the history
(`final observations': flatten(deepcopy(tree)) the way the backends do, plus every route an earlier obs
event of the history went through -- a route can only have left something behind if it was used -- plus,
thorough, flatten(tree) in place in any case; classes in the reverse order of obs(.., '*'), so that the
class observed last is the first to be observed again).  Being made on a replay that is then discarded,
they are not part of the history that is extended.
"""
import hashlib
import json

from vf.core import bfs, common, dump

LEVEL = "model_checking"

LIB = """
model Leaf
  Real x(start = 1);
  parameter Real k = 2;
equation
  der(x) = -k * x;
end Leaf;

model Base
  parameter Real p = 1;
  Real b;
equation
  b = p;
end Base;

model Mid
  extends Base(p = 4);
  Leaf l1(k = 3);
  Real s;
equation
  s = l1.x + b;
end Mid;

model Top
  Mid m;
  Leaf own;
  Real y;
equation
  y = m.s + own.x;
end Top;
"""

LIB_PKG = """
package Lib
  model R
    Real v(start = 1);
    parameter Real g = 2;
  equation
    der(v) = -g * v;
  end R;

  package Sub
    model Deep
      parameter Real p = 1;
      R ri;
      Real b;
    equation
      b = p * ri.v;
    end Deep;
  end Sub;
end Lib;

package P
  import Lib.R;
  import Lib.Sub.*;

  model M
    extends Lib.Sub.Deep(p = 4);
    R a(g = 3);
    Deep dd(p = 5);
    Lib.R r;
    Real s;
  equation
    s = a.v + b + dd.b + r.v;
  end M;
end P;
"""

OPS = ["add_symbol", "add_equation", "remove_equation", "remove_symbol", "add_class", "remove_class", "replace_class"]
GRAFT = "graft_class"  # the edit that takes its argument out of another live tree: ("edit", i, GRAFT, K, j)
BACKENDS = ["sympy", "xml"]
ALL_ROUTES = ["inplace", "sympy", "xml"]  # routes of obs events (xml = deepcopy + flatten + rendering, so a bare
#                                           'copy' route as an event would add nothing to it)

# Per library: `edit`: classes the edits act on (quick / thorough), `flat`: order of obs(i, route, '*') -- the class
# that exists only after add_class first, the class that reaches every other class last --, `add_to`: the class
# add_class adds `Extra` to ('' = the root), `graft`: the classes that are transplanted -- one that carries content (an
# edit class: what arrives differs from what was there when the trees differ in it) and one that carries scope (it
# looks up other classes, among them the edit classes, from where it stands; flat quick: Mid, which no edit touches, so
# that only where it resolves its names and what its transplantation does to the other tree can show) --, `graft_to`:
# the package of the receiving tree a graft adds the class found in the other tree to -- flat: the root, the only
# package there is, so the class takes the place of the receiving tree's own class of that name; pkg: P, for Lib.R and
# Lib.Sub.Deep a package other than the one the class was found in, where it -- keeping its name -- shadows P's
# qualified / unqualified import of that name (R a, Deep dd of P.M then are instances of the transplanted class,
# Lib.R r and extends Lib.Sub.Deep are not), for P.M its own package --, `replace`: the different class of the same
# name replace_class puts in (same interface, so the classes using it still flatten; other start / parameter values,
# one more variable and equation), `routes`: routes of obs events, `bounds`: one search per entry (history length,
# deviations = edit + obs events, edit events); the histories explored are the union.
LIBS = {
    "flat": {
        "text": LIB,
        "edit": {"quick": ["Leaf", "Base"], "thorough": ["Leaf", "Base", "Top"]},
        "flat": ["Extra", "Leaf", "Base", "Mid", "Top"],
        "add_to": "",
        "graft": {"quick": ["Leaf", "Mid"], "thorough": ["Leaf", "Base", "Mid", "Top"]},
        "graft_to": {"Leaf": "", "Base": "", "Mid": "", "Top": ""},
        "replace": {
            "Leaf": "model Leaf Real x(start = 7); parameter Real k = 8; Real w; equation der(x) = -k * x; w = 2 * x; end Leaf;",
            "Base": "model Base parameter Real p = 6; Real b; Real c; equation b = 2 * p; c = b; end Base;",
            "Top": "model Top Mid m; Real y; Real w; equation y = 3 * m.s; w = y; end Top;",
        },
        "routes": {"quick": ALL_ROUTES, "thorough": ALL_ROUTES},
        "bounds": {"quick": [(3, 2, 2)], "thorough": [(4, 3, 2)]},
    },
    "pkg": {
        "text": LIB_PKG,
        "edit": {"quick": ["Lib.R", "Lib.Sub.Deep", "P.M"], "thorough": ["Lib.R", "Lib.Sub.Deep", "P.M"]},
        "flat": ["Lib.Extra", "Lib.R", "Lib.Sub.Deep", "P.M"],
        "add_to": "Lib",
        "graft": {"quick": ["Lib.R", "Lib.Sub.Deep", "P.M"], "thorough": ["Lib.R", "Lib.Sub.Deep", "P.M"]},
        "graft_to": {"Lib.R": "P", "Lib.Sub.Deep": "P", "P.M": "P"},
        "replace": {
            "Lib.R": "model R Real v(start = 7); parameter Real g = 8; Real w; equation der(v) = -g * v; w = 2 * v; end R;",
            "Lib.Sub.Deep": "model Deep parameter Real p = 6; R ri; Real b; Real c; equation b = 2 * p * ri.v; c = b; end Deep;",
            "P.M": "model M R a(g = 9); Lib.R r; Real s; Real w; equation s = a.v - r.v; w = s; end M;",
        },
        "routes": {"quick": ["inplace"], "thorough": ALL_ROUTES},
        "bounds": {"quick": [(3, 2, 1)], "thorough": [(4, 3, 1), (3, 2, 2)]},
    },
}
LIB_ORDER = ["flat", "pkg"]
KIND = {"copy": "flat", "inplace": "flat", "sympy": "sympy", "xml": "xml"}
ROUTE_TEXT = {
    "copy": "tree.flatten(deepcopy(tree), K)",
    "inplace": "tree.flatten(tree, K) with the caller's one ComponentRef for K",
    "sympy": "backends.sympy.generator.generate(tree, K)",
    "xml": "backends.xml.generator.generate(tree, K)",
}
MAX_TREES = 3
MAX_OBS = 2
_CFG = {"tier": "quick", "obs_classes": ["*"]}
_EXPECT = {}


def _init(tier):
    _CFG["tier"] = tier


def edit_actions(lib, tier=None):
    classes = LIBS[lib]["edit"][tier or _CFG["tier"]]
    return [(op, cls) for op in OPS for cls in (classes if op != "add_class" else ["-"])]


def fresh_tree(lib="flat"):
    from pymoca import parser

    return parser.parse(LIBS[lib]["text"], bypass_cache=True)


def _resolve(tree, dotted):
    """The class `dotted` names by walking .classes from the root (None if it is not there); '' = the root."""
    c = tree
    for name in dotted.split(".") if dotted else []:
        c = c.classes.get(name)
        if c is None:
            return None
    return c


def entry(ev, edits):
    """What an edit event adds to the edit list of its tree: (op, K), for a graft (op, K, the source tree's edit list
    at that moment) -- `edits`: the per-tree edit lists before the event."""
    return (ev[2], ev[3]) if len(ev) == 4 else (ev[2], ev[3], edits[ev[4]])


def found_copy(tree, cls):
    """Class `cls` of the live tree the way a user gets hold of it: the public lookup, which returns a copy of
    the class (None if the tree has no such class)."""
    from pymoca import ast

    try:
        return tree.find_class(ast.ComponentRef.from_string(cls))
    except ast.ClassNotFoundError:
        return None


def moved_out(lib, edits, cls):
    """Reference counterpart of found_copy: class `cls` *moved out* (remove_class; no lookup, no copy) of a throw-away
    fresh parse carrying `edits`."""
    src = ref_tree(lib, edits)
    k = _resolve(src, cls)
    if k is not None:
        k.parent.remove_class(k)
    return k


def ref_tree(lib, edits):
    """Fresh parse + the edits of one edit list, never copied and never looked at before."""
    t = fresh_tree(lib)
    for n, e in enumerate(edits):
        apply_edit(t, e[0], e[1], n, lib, moved_out(lib, e[2], e[1]) if e[0] == GRAFT else None)
    return t


def apply_edit(tree, op, cls, serial, lib="flat", donor=None):
    """One edit through the public AST API.  Deterministic content; `serial` numbers this tree's edits; `donor`:
    the class a graft adds (None: the source had no such class, nothing happens)."""
    from pymoca import ast, parser

    if op == GRAFT:
        where = _resolve(tree, LIBS[lib]["graft_to"][cls])
        if where is not None and donor is not None:
            where.add_class(donor)  # keeps its name: takes the place of a class of that name that is there already
        return
    if op == "add_class":
        where = _resolve(tree, LIBS[lib]["add_to"])
        if where is None:
            return
        c = ast.Class(name="Extra", type="model")
        c.add_symbol(ast.Symbol(name="q%d" % serial, type=ast.ComponentRef(name="Real")))
        c.add_equation(ast.Equation(left=ast.ComponentRef(name="q%d" % serial), right=ast.Primary(value=serial)))
        where.add_class(c)
        return
    k = _resolve(tree, cls)
    if k is None:
        return  # class was removed from this tree earlier: edit has no target, nothing happens
    if op == "remove_class":
        k.parent.remove_class(k)
    elif op == "replace_class":
        where = k.parent
        donor = parser.parse(LIBS[lib]["replace"][cls], bypass_cache=True)
        new = donor.classes[k.name]
        donor.remove_class(new)
        new.add_symbol(ast.Symbol(name="rr%d" % serial, type=ast.ComponentRef(name="Real")))
        new.add_equation(ast.Equation(left=ast.ComponentRef(name="rr%d" % serial), right=ast.Primary(value=serial)))
        where.remove_class(k)
        where.add_class(new)
    elif op == "add_symbol":
        k.add_symbol(ast.Symbol(name="zz%d" % serial, type=ast.ComponentRef(name="Real")))
    elif op == "remove_symbol":
        if k.symbols:
            k.remove_symbol(list(k.symbols.values())[-1])
    elif op == "add_equation":
        first = list(k.symbols)[0] if k.symbols else "nosuch"
        k.add_equation(ast.Equation(left=ast.ComponentRef(name=first), right=ast.Primary(value=40 + serial)))
    elif op == "remove_equation":
        if k.equations:
            k.remove_equation(k.equations[0])
    else:
        raise ValueError(op)


def _sha(text):
    return hashlib.sha1(text.encode()).hexdigest()[:16]


def observe(tree, route, cls, refs=None):
    """('ok', digest of the flat model / generated text) or ('exc', exception type) of one request.  `refs`: the
    ComponentRef objects the caller of the in-place route holds on to (class name -> reference)."""
    import copy

    from pymoca import ast
    from pymoca import tree as ptree

    try:
        if route in ("copy", "inplace"):
            t = copy.deepcopy(tree) if route == "copy" else tree
            if route == "inplace" and refs is not None:
                if cls not in refs:
                    refs[cls] = ast.ComponentRef.from_string(cls)
                ref = refs[cls]
            else:
                ref = ast.ComponentRef.from_string(cls)
            flat = ptree.flatten(t, ref)
            return ("ok", _sha(json.dumps(ast.Node.to_json(flat), sort_keys=True, default=repr)))
        if route == "sympy":
            from pymoca.backends.sympy import generator as sympy_gen

            return ("ok", _sha(sympy_gen.generate(tree, cls)))
        if route == "xml":
            from pymoca.backends.xml import generator as xml_gen

            return ("ok", _sha(xml_gen.generate(tree, cls)))
    except Exception as e:
        return ("exc", type(e).__name__)
    raise ValueError(route)


def _expect_job(job):
    """Reference results of one edit list: every class through every kind of route, each on its own fresh parse."""
    lib, edits, kinds = job
    res = {}
    for kind, route in (("flat", "inplace"), ("sympy", "sympy"), ("xml", "xml")):
        if kind not in kinds:
            continue
        res[kind] = {}
        for cls in LIBS[lib]["flat"]:
            res[kind][cls] = observe(ref_tree(lib, edits), route, cls)
    return lib, edits, res


def prepare_expected(lib, edit_lists, kinds=("flat", "sympy", "xml"), pool=None):
    todo = [(lib, e, tuple(kinds)) for e in edit_lists if (lib, e) not in _EXPECT]
    for lib_, edits, res in (pool.map(_expect_job, todo) if pool is not None else map(_expect_job, todo)):
        _EXPECT[(lib_, edits)] = res


def expected(lib, edits, route, cls):
    return _EXPECT[(lib, tuple(edits))][KIND[route]][cls]  # KeyError = bug of the check (table is built up front)


class World:
    def __init__(self):
        self.lib = "flat"
        self.bound = None  # (history length, edit events) of the search this history belongs to; None: the widest
        self.trees = None  # parsed by the first event
        self.edits = [()]
        self.parent = [None]
        self.obslog = ()  # (tree, route, class, number of edits of that tree so far, number of trees so far)
        self.refs = {}  # the references the caller of the in-place route holds on to
        self.n_events = 0
        self.n_edit_events = 0

    def apply(self, ev):
        """Returns the violations of the event itself (only obs events are compared with anything)."""
        import copy

        if ev[0] == "lib":
            assert self.trees is None, "lib must be the first event"
            self.lib = ev[1]
            if len(ev) > 2:
                self.bound = (ev[2], ev[3])
            self.trees = [fresh_tree(self.lib)]
            return []
        if self.trees is None:
            self.trees = [fresh_tree(self.lib)]
        self.n_events += 1
        if ev[0] == "copy":
            i = ev[1]
            self.trees.append(copy.deepcopy(self.trees[i]))
            self.edits.append(self.edits[i])
            self.parent.append(i)
            return []
        if ev[0] == "edit":
            i, op, cls = ev[1:4]
            self.n_edit_events += 1
            donor = found_copy(self.trees[ev[4]], cls) if op == GRAFT else None
            apply_edit(self.trees[i], op, cls, len(self.edits[i]), self.lib, donor)
            self.edits[i] = self.edits[i] + (entry(ev, self.edits),)
            return []
        _, i, route, cls = ev
        self.obslog = self.obslog + ((i, route, cls, len(self.edits[i]), len(self.trees)),)
        classes = LIBS[self.lib]["flat"] if cls == "*" else [cls]
        return self.look(i, [route], classes, "obs event")

    def look(self, i, routes, classes, what):
        viol = []
        lib = self.lib
        for route in routes:
            for cls in classes:
                got = observe(self.trees[i], route, cls, self.refs)
                exp = expected(lib, self.edits[i], route, cls)
                if got == exp:
                    continue
                other = [j for j in range(len(self.trees)) if j != i and expected(lib, self.edits[j], route, cls) == got]
                past = [n for n in range(len(self.edits[i])) if expected(lib, self.edits[i][:n], route, cls) == got]
                kind = "sees-other-tree" if other else "sees-own-past" if past else "wrong-result"
                sig = "%s:%s" % (kind, "exception" if got[0] == "exc" else "model")
                if route in BACKENDS:
                    sig += ":" + route
                why = ""
                if other:
                    why = "; that is what tree(s) %r should give" % other
                elif past:
                    why = "; that is what this tree gave when it had only its first %r edit(s)" % past
                viol.append(
                    (
                        sig,
                        "%s: library %s, tree %d (edits %r, copied from %r, observed before: %r): %s for K=%s gives %s, "
                        "expected %s%s"
                        % (what, lib, i, list(self.edits[i]), self.parent[i], [list(o[:3]) for o in self.obslog],
                           ROUTE_TEXT[route], cls, "%s:%s" % got, "%s:%s" % exp, why),
                    )
                )
        return viol

    def final(self, i):
        """Final observations of tree i (on a world that is discarded afterwards)."""
        seen = {o[1] for o in self.obslog}
        routes = [r for r in BACKENDS if r in seen] + ["copy"]
        if "inplace" in seen or _CFG["tier"] == "thorough":
            routes.append("inplace")  # last: the only route that works on the live tree itself
        return self.look(i, routes, LIBS[self.lib]["flat"][::-1], "final observation")

    def key(self):
        return (self.lib, tuple(self.edits), tuple(self.parent), self.obslog, dump.digest(self.trees))

    def events(self):
        return enabled(self.lib, _CFG["tier"], self.bound, len(self.edits), self.n_events, self.n_edit_events,
                       len(self.obslog))


def enabled(lib, tier, bound, n_trees, n_events, n_edit_events, n_obs):
    """The events offered in a state; depends on the bookkeeping only (so the edit lists that can occur can be
    enumerated without running anything, see reachable_edit_lists)."""
    depth, max_edits = bound or (max(b[0] for b in LIBS[lib]["bounds"][tier]), max_edits_of(lib, tier))
    evs = []
    if n_trees < MAX_TREES:
        evs += [("copy", i) for i in range(n_trees)]
    if n_edit_events < max_edits:
        for i in range(n_trees):
            for op, cls in edit_actions(lib, tier):
                evs.append(("edit", i, op, cls))
        for i in range(n_trees):
            for j in range(n_trees):
                for cls in LIBS[lib]["graft"][tier] if j != i else []:
                    evs.append(("edit", i, GRAFT, cls, j))
    if n_obs < MAX_OBS and n_events + 1 < depth:
        for i in range(n_trees):
            for route in LIBS[lib]["routes"][tier]:
                for cls in _CFG["obs_classes"]:
                    evs.append(("obs", i, route, cls))
    return evs


def reachable_edit_lists(lib, tier):
    """Every edit list a tree can have in a history within the library's bounds (and every prefix): the event
    alphabet run on the bookkeeping alone -- per-tree edit lists, number of events / edit events / obs events,
    deviations spent -- with the limits bfs.search applies."""
    out = {()}
    for depth, max_dev, max_edits in LIBS[lib]["bounds"][tier]:
        start = (((),), 0, 0, 0, 0)
        seen, frontier = {start}, [start]
        while frontier:
            nxt = []
            for edits, n_ev, n_ed, n_obs, dev in frontier:
                if n_ev >= depth:
                    continue
                for ev in enabled(lib, tier, (depth, max_edits), len(edits), n_ev, n_ed, n_obs):
                    d = dev + (0 if ev[0] == "copy" else 1)
                    if d > max_dev:
                        continue
                    if ev[0] == "copy":
                        st = (edits + (edits[ev[1]],), n_ev + 1, n_ed, n_obs, d)
                    elif ev[0] == "edit":
                        i = ev[1]
                        st = (edits[:i] + (edits[i] + (entry(ev, edits),),) + edits[i + 1:], n_ev + 1, n_ed + 1, n_obs, d)
                    else:
                        st = (edits, n_ev + 1, n_ed, n_obs + 1, d)
                    if st not in seen:
                        seen.add(st)
                        nxt.append(st)
            frontier = nxt
        out.update(l[:n] for st in seen for l in st[0] for n in range(len(l) + 1))
    return sorted(out, key=lambda l: (len(l), repr(l)))


def build(hist):
    w = World()
    for ev in hist:
        w.apply(tuple(ev))
    if w.trees is None:
        w.trees = [fresh_tree(w.lib)]
    return w


def step(hist, ev):
    """Violations and successor key of `ev` after `hist`; after a copy or an edit every tree's final observations,
    each on a replay of its own."""
    w = build(hist)
    viol = list(w.apply(ev))
    key = w.key()
    for i in range(len(w.trees) if ev[0] != "obs" else 0):
        wi = w if i == 0 else build(tuple(hist) + (ev,))
        viol += wi.final(i)
    return key, viol


def expand(hist):
    out = []
    for ev in build(hist).events():
        dev = 0 if ev[0] == "copy" else 1
        try:
            key, viol = step(hist, ev)
        except Exception as e:
            viol = [("exception-in-api:" + common.exc_sig(e), "%r raised %r" % (ev, e))]
            out.append({"ev": list(ev), "key": ("exc", repr(ev), repr(hist)), "viol": viol, "stop": True, "dev": dev})
            continue
        out.append({"ev": list(ev), "key": key, "viol": viol, "stop": bool(viol), "dev": dev})
    return out


def max_edits_of(lib, tier):
    return max(b[2] for b in LIBS[lib]["bounds"][tier])


def _kinds(lib, tier):
    return ["flat"] + [r for r in BACKENDS if r in LIBS[lib]["routes"][tier]]


def run(ctx):
    _init(ctx.tier)
    with common.Pool() as pool:  # reference tables first, in processes of their own
        for lib in LIB_ORDER:
            prepare_expected(lib, reachable_edit_lists(lib, ctx.tier), _kinds(lib, ctx.tier), pool)
    per_lib = {}
    with common.Pool(init=_init, initargs=(ctx.tier,)) as pool:  # forked now: workers inherit the tables
        for lib in LIB_ORDER:
            for depth, max_dev, max_edits in LIBS[lib]["bounds"][ctx.tier]:
                init = (("lib", lib, depth, max_edits),)  # the bound travels with the history (workers need it)
                name = "%s:length<=%d,deviations<=%d,edits<=%d" % (lib, depth, max_dev, max_edits)
                per_lib[name] = bfs.search(ctx, pool, expand, init_key=build(init).key(), max_depth=depth,
                                           max_dev=max_dev, init_hist=init)
    st = {
        "states": sum(s["states"] for s in per_lib.values()),
        "transitions": sum(s["transitions"] for s in per_lib.values()),
        "max_depth": max(s["max_depth"] for s in per_lib.values()),
        "closed": all(s["closed"] for s in per_lib.values()),
        "frontier_left": sum(s["frontier_left"] for s in per_lib.values()),
    }
    ctx.coverage.update(st)
    ctx.coverage.update(
        {
            "per_library": per_lib,
            "traces_validated_against_impl": st["transitions"],
            "evaluations": st["transitions"],
            "distinct_nontrivial": max(0, st["states"] - len(per_lib)),
            "reference_edit_lists": len(_EXPECT),
            "exhaustive": True,
            "bound": {
                lib: {
                    "searches_length_deviations_edits": [list(b) for b in LIBS[lib]["bounds"][ctx.tier]],
                    "obs_events": MAX_OBS,
                    "trees": MAX_TREES,
                    "edit_classes": LIBS[lib]["edit"][ctx.tier],
                    "graft_into": {k: LIBS[lib]["graft_to"][k] or "<root>" for k in LIBS[lib]["graft"][ctx.tier]},
                    "obs_routes": LIBS[lib]["routes"][ctx.tier],
                }
                for lib in LIB_ORDER
            },
            "rule": "per library (flat: top-level classes, component types + extends + modifications; pkg: packages, "
            "package-qualified component type and extends, qualified and unqualified import in an enclosing package, class "
            "nested two levels deep): all histories within one of the library's bounds (length, deviations = edit or obs "
            "events, edits; <= %d obs, an obs event only where another event can follow it within the length) over "
            "{deepcopy(tree_i)} x {add/remove symbol, add/remove equation, remove class, replace class by a different class "
            "of the same name (remove_class + add_class) on the library's edit classes, add class, graft class: add_class of "
            "the copy tree_j.find_class(K) hands out, j != i, K one of the library's graft classes, under its own name, to a "
            "package of tree_i (flat: the root, in the place of tree_i's K; pkg: P, where Lib.R / Lib.Sub.Deep shadow the "
            "import of that name)} x {obs: every class of the live tree_i through the library's routes out of tree.flatten in "
            "place (one ComponentRef object per class name for the whole history) / sympy generate / xml generate, checked "
            "and kept in the history} on up to %d trees; "
            "after every copy / edit event every tree is observed on a replay of its own (flatten of a deep copy; every "
            "route an earlier obs event went through; thorough: flatten in place always); reference = fresh parse carrying "
            "only that tree's edits (a graft: class K moved with remove_class + add_class out of a second fresh parse that "
            "carries the source tree's edit list of that moment), same route, computed up front for every edit list reachable "
            "within the bound; state = library + per-tree edit lists + copy ancestry + log of obs events (tree, route, "
            "tree's edit count, number of trees at that time) + joint structural fingerprint of the live trees"
            % (MAX_OBS, MAX_TREES),
        }
    )
    ctx.assumptions.append("edits are applied through the AST API exactly as test/ast_test.py does")
    ctx.assumptions.append(
        "state the implementation keeps outside the trees survives from one replayed history to the next inside a "
        "worker process (nothing resets it); the unchanged tree keeps none (same result for every seed / job count)"
    )


def replay(case):
    _init("thorough")
    hist = [tuple(ev) for ev in case["history"]]
    lib = hist[0][1] if hist and hist[0][0] == "lib" else "flat"
    lists, per_tree = {()}, [()]
    for ev in hist:  # which edit lists occur: their reference results are computed before the history starts
        if ev[0] == "copy":
            per_tree.append(per_tree[ev[1]])
        elif ev[0] == "edit":
            per_tree[ev[1]] = per_tree[ev[1]] + (entry(ev, per_tree),)
            lists.add(per_tree[ev[1]])
    prepare_expected(lib, sorted({p[:n] for p in lists for n in range(len(p) + 1)}, key=repr))
    ok = True
    for n in range(len(hist)):
        if hist[n][0] == "lib":
            continue
        _, v = step(hist[:n], hist[n])
        print(hist[n], "->", [m for _, m in v] or "ok")
        ok = ok and not v
    return ok
